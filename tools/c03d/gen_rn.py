#!/usr/bin/env python3
"""Generates lean/H5/Props/C03dRet.lean: `RN` (returns `None`) for every handler for which the tactic succeeds.
Two passes: the first emits a lemma for every handler, compiles, and the handlers whose lemma fails are dropped
(they may hand the token back).  The list of dropped handlers is written to tools/c03d/returning.txt."""
import re, os, subprocess, sys
HERE = os.path.dirname(os.path.abspath(__file__))
ROOT = os.path.join(HERE, '..', '..', 'lean', 'H5', '')
SKIPF = os.path.join(HERE, 'returning.txt')
skip = set(open(SKIPF).read().split()) if os.path.exists(SKIPF) and '--fresh' not in sys.argv else set()


def gen(skip):
    out = open(os.path.join(HERE, 'rn_header.lean')).read()
    names = []
    for src in ('Phases1', 'InBody', 'Tables', 'Rest'):
        text = open(ROOT + 'Model/TreeBuilder/' + src + '.lean').read()
        for chunk in re.split(r'^(?=def )', text, flags=re.M):
            m = re.match(r'def (\w+)(.*?):=', chunk, re.S)
            if not m:
                continue
            name, sig = m.group(1), ' '.join(m.group(2).split())
            if not sig.endswith(': M (Option Token)') or name in skip:
                continue
            bs = re.findall(r'\((\w+) : ([^()]+)\)', sig[:sig.rfind(': M')])
            args = ' '.join(f'({a.lstrip("_") or "x"} : {t})' for a, t in bs)
            call = ' '.join(a.lstrip('_') or 'x' for a, _ in bs)
            rinst = ' [hr : RecRN r]' if ('r', 'Rec') in bs else ''
            out += f'instance RN_{name} {args}{rinst} : RN ({name} {call}) := by\n  unfold {name}; rn_auto\n\n'
            names.append(name)
    glue = open(ROOT + 'Model/TreeBuilder/Glue.lean').read()
    seg = glue[glue.index('def runProcessPlain'):glue.index('def runEOF')]
    rn = [m.group(1) for m in re.finditer(r'\|\s*"([^"]+)"\s*=>\s*(\w+)', seg) if m.group(2) in names]
    out += open(os.path.join(HERE, 'rn_footer.lean')).read().replace('%RNLIST%', ', '.join('"%s"' % x for x in rn))
    return out, names


out, names = gen(skip)
open(ROOT + 'Props/C03dRet.lean', 'w').write(out)
if '--fresh' in sys.argv:
    # drop failing lemmas until the file compiles (a dropped handler can make its callers fail)
    for it in range(6):
        r = subprocess.run(['lake', 'env', 'lean', 'H5/Props/C03dRet.lean'], cwd=os.path.join(ROOT, '..'), capture_output=True, text=True)
        src = out.split('\n')
        bad = set()
        for m in re.finditer(r'C03dRet\.lean:(\d+):\d+: error', r.stdout):
            k = int(m.group(1)) - 1
            while k >= 0 and not src[k].startswith('instance RN_'):
                k -= 1
            if k >= 0:
                nm = src[k].split()[1][3:]
                if nm in names:
                    bad.add(nm)
        print('pass', it, 'failing', sorted(bad))
        if not bad:
            break
        skip |= bad
        out, names = gen(skip)
        open(ROOT + 'Props/C03dRet.lean', 'w').write(out)
    open(SKIPF, 'w').write('\n'.join(sorted(skip)) + '\n')
print(len(names), 'RN lemmas;', len(skip), 'handlers may return their token')
