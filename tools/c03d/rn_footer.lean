/-! ### the dispatcher -/

/-- the methods (other than the generic `Phase.processStartTag` / `Phase.processEndTag`) that never hand the token back -/
def rnPlain : List String := [%RNLIST%]

theorem RN_dite {c : Prop} [Decidable c] (t : c → M (Option Token)) (e : ¬c → M (Option Token))
    (ht : ∀ h, RN (t h)) (he : ∀ h, RN (e h)) : RN (dite c t e) := by
  by_cases hc : c
  · rw [dif_pos hc]; exact ht _
  · rw [dif_neg hc]; exact he _

set_option hygiene false in
macro "rn_close" : tactic => `(tactic| first | infer_instance | exact absurd hq (by decide))

set_option maxHeartbeats 4000000 in
theorem RN_runProcessPlain (r : Rec) [hr : RecRN r] (q : String) (hq : q ∈ rnPlain) (tok : Token) :
    RN (runProcessPlain r q tok) := by
  delta runProcessPlain
  delta runProcessPlain.match_1
  repeat (refine RN_dite _ _ (fun heq => ?_) (fun _ => ?_); (· subst heq; dsimp only [Eq.ndrec_symm]; rn_close))
  infer_instance

theorem RN_liftE_bind {α : Type} (x : Except PyErr α) (f : α → M (Option Token)) (h : ∀ a, x = .ok a → RN (f a)) :
    RN (liftM x >>= f) := ⟨fun st => by
  cases x with
  | error e => trivial
  | ok a => exact (h a rfl).out st⟩

theorem RN_runProcess (r : Rec) [hr : RecRN r] (ph : Phase) (m : String) (tok : Token)
    (h : (match resolveMethod ph m with | .ok q => rnPlain.contains q | .error _ => true) = true) :
    RN (runProcess r ph m tok) := by
  unfold runProcess
  refine RN_liftE_bind _ _ ?_
  intro q hq
  rw [hq] at h
  have hm : q ∈ rnPlain := by simpa using h
  split
  · exact absurd hm (by decide)
  · exact absurd hm (by decide)
  · exact absurd hm (by decide)
  · exact RN_runProcessPlain r q hm tok

theorem RN_runProcess_slot (r : Rec) [hr : RecRN r] (tok : Token) :
    RN (runProcess r .inBody "processSpaceCharacters" tok) := by
  unfold runProcess
  refine RN_liftE_bind _ _ ?_
  intro q' hq'
  have hq : resolveMethod .inBody "processSpaceCharacters" = .ok "InBodyPhase.<slot>" := by decide
  rw [hq] at hq'
  cases hq'
  split
  · rename_i h; exact absurd h (by decide)
  · rename_i h; exact absurd h (by decide)
  · rw [if_pos (by decide)]; infer_instance
  · rename_i h1 h2 h3; exact absurd rfl h3

/-- **the nested dispatches of `RecRN` never hand the token back** -/
instance mkRec_RecRN : ∀ n, RecRN (mkRec n)
  | 0 => ⟨fun _ _ _ => by show RN (throw _); infer_instance, fun _ _ _ => by show RN (throw _); infer_instance,
    fun _ _ _ => by show RN (throw _); infer_instance⟩
  | n + 1 =>
    haveI := mkRec_RecRN n
    ⟨fun ph tok h => by
      show RN (runProcess (mkRec n) ph "processCharacters" tok)
      simp only [List.mem_cons, List.not_mem_nil, or_false] at h
      rcases h with h | h | h | h <;> subst h <;> exact RN_runProcess _ _ _ _ (by decide),
     fun ph tok h => by
      show RN (runProcess (mkRec n) ph "processSpaceCharacters" tok)
      simp only [List.mem_cons, List.not_mem_nil, or_false] at h
      rcases h with h | h | h | h | h <;> subst h <;>
        first | exact RN_runProcess_slot _ _ | exact RN_runProcess _ _ _ _ (by decide),
     fun ph tok h => by
      show RN (runProcess (mkRec n) ph "processComment" tok)
      simp only [List.mem_cons, List.not_mem_nil, or_false] at h
      subst h; exact RN_runProcess _ _ _ _ (by decide)⟩

end H5.Props.C03d
