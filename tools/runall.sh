#!/bin/bash
# run every claimed check (quick tier) on /repo as it is and summarise; refreshes evidence/*.json
cd "$(dirname "$0")/.."
git -C /repo diff --quiet || { echo "/repo is dirty"; exit 2; }
for P in $(python3 -c "import json;print(' '.join(c['property_id'] for c in json.load(open('MANIFEST.json'))['checks']))"); do
  ./check $P --tier ${1:-quick} > .run/all_$P.out 2>&1; rc=$?
  echo "$P exit=$rc $(grep -c KNOWN-FINDING .run/all_$P.out) known  $(tail -1 .run/all_$P.out | cut -c1-150)"
done
