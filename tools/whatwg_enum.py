#!/venv/bin/python
"""Enumerate the classes of the WHATWG clause of C01 (tools/props/_whatwg.py) over a large seeded search and print, for
every class, the count and the shortest witnesses.   whatwg_enum.py SEED COUNT [--out f.json]"""
import itertools
import json
import os
import random
import sys
import time
from multiprocessing import Pool

HERE = os.path.dirname(os.path.abspath(__file__))
sys.path.insert(0, HERE)
from props import _whatwg as W      # noqa: E402
from props import _tree             # noqa: E402
T, S = W.T, W.S


class Ctx:
    def __init__(self, seed):
        self.seed, self.tier, self.rng = seed, "thorough", random.Random("enum/%s" % seed)


def main():
    seed, count = sys.argv[1], int(sys.argv[2])
    out = sys.argv[sys.argv.index("--out") + 1] if "--out" in sys.argv else None
    ctx = Ctx(seed)

    def stream():
        yield from T.FIXED_CASES
        yield from S.extra_cases()
        yield from _tree.targeted(ctx, T)
        for i in range(count):
            yield T.gen_case("enum/%s" % seed, i)
        yield from T.exh_cases(3)
    classes = {}
    t0 = time.time()
    total = 0
    deadline = time.time() + 36000
    with Pool(os.cpu_count()) as pool:
        s = stream()
        while True:
            batch = list(itertools.islice(s, 40000))
            if not batch:
                break
            parts = [(batch[i:i + 400], deadline) for i in range(0, len(batch), 400)]
            for n, res in pool.imap_unordered(W.work, parts):
                total += n
                for r in res:
                    if r.get("skipped"):
                        continue
                    if r.get("untied"):
                        classes.setdefault("UNTIED(real != model)", []).append({"case": r["case"], "model": r["model"], "spec": r["real"], "labels": None})
                        continue
                    key = "+".join(r["labels"]) if r["labels"] else "unexplained"
                    classes.setdefault(key, []).append(r)
            print("[%6.1fs] %d cases, %d classes" % (time.time() - t0, total, len(classes)), flush=True)
    res = {}
    for k, rs in sorted(classes.items(), key=lambda kv: -len(kv[1])):
        rs.sort(key=lambda r: (len(r["case"][0]), r["case"][0]))
        print("%7d  %-70s %r" % (len(rs), k, rs[0]["case"][:3]))
        res[k] = {"n": len(rs), "witnesses": [{"case": r["case"], "model": r["model"], "spec": r["spec"]} for r in rs[:4]]}
    if out:
        json.dump(res, open(out, "w"), indent=1)


if __name__ == "__main__":
    main()
