"""Generator of lean/H5/Gen/Sanitizer.lean (property C09).

Everything is obtained by EVALUATING /repo's html5lib.filters.sanitizer (allow-lists, compiled pattern objects) or from
its AST (pattern string constants of the `re.*` calls, the shorthand-property list); every regular expression is
translated from Python's own parse (`re._parser.parse`) into a value of `H5.Model.Regex.Re`.  The Unicode-dependent
library behaviour the filter relies on is tabulated by evaluating the running Python: the classes `\\w \\s \\d`,
`str.split()` separators, `str.lower()` (per code point + the two properties behind the final-sigma rule), and the
code points whose NFKC form contains one of `/?#@:` (urlsplit's `_checknetloc`).
"""
import ast
import re
import unicodedata
import warnings

try:
    import re._parser as sre_parse
    import re._constants as sre_c
except ImportError:                       # Python < 3.11
    import sre_parse
    import sre_constants as sre_c

from extract import (register, FOOTER, lean_str_c, strlist, ostr, blocks, ranges_of, lean_ranges, regex_class,
                     setlist, sha, src, TranslationError)
import pylite

REL = "html5lib/filters/sanitizer.py"


# ------------------------------------------------------------------------------------------------------------------
# regular expressions
def _citem(av):
    op, arg = av
    if op is sre_c.LITERAL:
        return ".range %d %d" % (arg, arg)
    if op is sre_c.RANGE:
        return ".range %d %d" % arg
    if op is sre_c.CATEGORY:
        m = {sre_c.CATEGORY_WORD: ".word", sre_c.CATEGORY_SPACE: ".space", sre_c.CATEGORY_DIGIT: ".digit",
             sre_c.CATEGORY_NOT_WORD: ".notWord", sre_c.CATEGORY_NOT_SPACE: ".notSpace",
             sre_c.CATEGORY_NOT_DIGIT: ".notDigit"}
        if arg not in m:
            raise TranslationError("unsupported category %r" % (arg,))
        return m[arg]
    raise TranslationError("unsupported class item %r" % (op,))


def nullable(seq):
    """can the parsed sequence match the empty string?"""
    for op, av in seq:
        if op in (sre_c.LITERAL, sre_c.NOT_LITERAL, sre_c.ANY, sre_c.IN):
            return False
        if op is sre_c.AT:
            continue
        if op is sre_c.BRANCH:
            if not any(nullable(b) for b in av[1]):
                return False
            continue
        if op is sre_c.SUBPATTERN:
            if not nullable(av[3]):
                return False
            continue
        if op in (sre_c.MAX_REPEAT, sre_c.MIN_REPEAT):
            if av[0] > 0 and not nullable(av[2]):
                return False
            continue
        raise TranslationError("unsupported regex op %r" % (op,))
    return True


def re_to_lean(seq, where):
    """parsed pattern (SubPattern / list of (op, av)) -> Lean term of type Re"""
    items = []
    lits = []

    def flush():
        if lits:
            if len(lits) == 1:
                items.append(".lit %d" % lits[0])
            else:
                items.append("Re.str [%s]" % ", ".join(str(c) for c in lits))
            del lits[:]
    for op, av in seq:
        if op is sre_c.LITERAL:
            lits.append(av)
            continue
        flush()
        if op is sre_c.NOT_LITERAL:
            items.append(".notLit %d" % av)
        elif op is sre_c.ANY:
            items.append(".any")
        elif op is sre_c.IN:
            neg = bool(av) and av[0][0] is sre_c.NEGATE
            body = av[1:] if neg else av
            items.append(".cls %s [%s]" % ("true" if neg else "false", ", ".join(_citem(x) for x in body)))
        elif op is sre_c.AT:
            if av is sre_c.AT_BEGINNING:
                items.append(".bos")
            elif av is sre_c.AT_END:
                items.append(".eos")
            else:
                raise TranslationError("%s: unsupported anchor %r" % (where, av))
        elif op is sre_c.BRANCH:
            items.append("Re.alts [%s]" % ", ".join(re_to_lean(b, where) for b in av[1]))
        elif op is sre_c.SUBPATTERN:
            group, add_flags, del_flags, p = av
            if add_flags or del_flags:
                raise TranslationError("%s: inline flags are not supported" % where)
            inner = re_to_lean(p, where)
            items.append(inner if group is None else ".group %d (%s)" % (group, inner))
        elif op in (sre_c.MAX_REPEAT, sre_c.MIN_REPEAT):
            mn, mx, p = av
            if nullable(p) and (mx is sre_c.MAXREPEAT or mx > 1):
                raise TranslationError("%s: repeat with a nullable body (sre's empty-iteration corner) is not supported" % where)
            items.append(".rep %d %s %s (%s)" % (mn, "none" if mx is sre_c.MAXREPEAT else "(some %d)" % mx,
                                                "true" if op is sre_c.MAX_REPEAT else "false", re_to_lean(p, where)))
        else:
            raise TranslationError("%s: unsupported regex op %r" % (where, op))
    flush()
    if len(items) == 1:
        return items[0]
    return "Re.seq [%s]" % ", ".join("(%s)" % i if " " in i and not i.startswith("(") else i for i in items)


SUPPORTED_FLAGS = re.UNICODE | re.VERBOSE


def lean_regex(name, pattern, flags, doc):
    if flags & ~SUPPORTED_FLAGS:
        raise TranslationError("%s: unsupported flags %r" % (name, flags))
    p = sre_parse.parse(pattern, flags)
    shown = "".join(c if 32 <= ord(c) < 127 and c not in "-/" else "?" for c in " ".join(pattern.split()))
    return "/-- %s: `%s` (groups: %d) -/\ndef %s : Re :=\n  %s\n" % (doc, shown[:300], p.state.groups - 1, name,
                                                                    re_to_lean(p, name))


def re_calls(fn):
    """[(method, pattern string)] of the `re.<method>(<constant>, ...)` calls inside a function, in source order"""
    out = []
    for n in ast.walk(fn):
        if (isinstance(n, ast.Call) and isinstance(n.func, ast.Attribute) and isinstance(n.func.value, ast.Name)
                and n.func.value.id == "re"):
            if not (n.args and isinstance(n.args[0], ast.Constant) and isinstance(n.args[0].value, str)):
                raise TranslationError("line %d: re.%s with a non-literal pattern" % (n.lineno, n.func.attr))
            if len(n.args) > (3 if n.func.attr == "sub" else 2) or n.keywords:
                raise TranslationError("line %d: re.%s with flags/extra arguments" % (n.lineno, n.func.attr))
            out.append((n.lineno, n.col_offset, n.func.attr, n.args[0].value))
    out.sort()
    return [(m, p) for _, _, m, p in out]


# ------------------------------------------------------------------------------------------------------------------
def pairlist(name, items):
    """frozenset of (namespace|None, name) -> sorted Lean list, in blocks"""
    for it in items:
        if not (isinstance(it, tuple) and len(it) == 2 and (it[0] is None or isinstance(it[0], str)) and isinstance(it[1], str)):
            raise TranslationError("%s: entry %r is not a (namespace, name) tuple" % (name, it))
    srt = sorted(items, key=lambda t: (t[0] or "", t[1]))
    return blocks(name, "Option Str × Str", ["(%s, %s)" % (ostr(ns), lean_str_c(nm)) for ns, nm in srt], per=48)


def lower_tables():
    """str.lower() per code point (where it is not the identity, non-ASCII) and the two properties of the final-sigma rule"""
    table = []
    for cp in range(128, 0x110000):
        ch = chr(cp)
        lo = ch.lower()
        if lo != ch:
            table.append((cp, lo))
    for cp in range(128):
        exp = chr(cp + 32) if 65 <= cp <= 90 else chr(cp)
        if chr(cp).lower() != exp:
            raise TranslationError("str.lower() is not ASCII lower-casing on U+%04X" % cp)
    # handle_capital_sigma:  final  <=>  cased ignorable* SIGMA  and not (ignorable* cased)
    sig = "Σ"

    def probes(cp):
        a = ("A" + sig + chr(cp) + "A").lower()[1]
        b = ("A" + sig + chr(cp) + "1").lower()[1]
        return a == "σ", b == "σ"
    ignorable = ranges_of(lambda cp: probes(cp) == (True, False))
    cased = ranges_of(lambda cp: probes(cp) == (True, True))
    return table, ignorable, cased


def nfkc_bad():
    """non-ASCII code points whose NFKC form contains one of '/?#@:' (what _checknetloc rejects)"""
    return ranges_of(lambda cp: cp >= 128 and any(c in unicodedata.normalize("NFKC", chr(cp)) for c in "/?#@:"))


@register("Sanitizer")
def gen_sanitizer():
    with warnings.catch_warnings():
        warnings.simplefilter("ignore")
        from html5lib.filters import sanitizer as S
    from html5lib.constants import namespaces
    tree = ast.parse(src(REL))
    out = ("-- GENERATED by tools/gen_sanitizer.py from %s (evaluated + AST) -- do not edit\n"
           "import H5.Basic\nimport H5.Model.Regex\nnamespace H5.Gen.San\nopen H5 H5.Model.Regex\n\n" % REL)

    # ---- allow-lists (the defaults of Filter.__init__ are the module-level frozensets: check that)
    import inspect
    sig = inspect.signature(S.Filter.__init__)
    names = ["allowed_elements", "allowed_attributes", "allowed_css_properties", "allowed_css_keywords",
             "allowed_svg_properties", "allowed_protocols", "allowed_content_types", "attr_val_is_uri",
             "svg_attr_val_allows_ref", "svg_allow_local_href"]
    if [p for p in sig.parameters if p not in ("self", "source")] != names:
        raise TranslationError("Filter.__init__ parameters changed: %r" % (list(sig.parameters),))
    for n in names:
        if sig.parameters[n].default is not getattr(S, n):
            raise TranslationError("default of %s is not the module-level set" % n)
    out += pairlist("allowedElements", S.allowed_elements)
    out += pairlist("allowedAttributes", S.allowed_attributes)
    out += pairlist("attrValIsUri", S.attr_val_is_uri)
    out += pairlist("svgAttrValAllowsRef", S.svg_attr_val_allows_ref)
    out += pairlist("svgAllowLocalHref", S.svg_allow_local_href)
    for lean_name, py in (("allowedCssProperties", "allowed_css_properties"), ("allowedCssKeywords", "allowed_css_keywords"),
                          ("allowedSvgProperties", "allowed_svg_properties"), ("allowedProtocols", "allowed_protocols"),
                          ("allowedContentTypes", "allowed_content_types")):
        vals = getattr(S, py)
        if not all(isinstance(v, str) for v in vals):
            raise TranslationError("%s: non-string entry" % py)
        out += "def %s : List Str := %s\n" % (lean_name, setlist(vals))
    out += "def htmlNs : Str := %s\n" % lean_str_c(namespaces["html"])
    out += "def xlinkNs : Str := %s\n" % lean_str_c(namespaces["xlink"])

    # ---- the shorthand-property list of sanitize_css (AST: the only list literal of string constants)
    css_fn = pylite.find_function(tree, "Filter.sanitize_css")
    lists = [n for n in ast.walk(css_fn) if isinstance(n, ast.List) and n.elts and
             all(isinstance(e, ast.Constant) and isinstance(e.value, str) for e in n.elts)]
    if len(lists) != 1:
        raise TranslationError("sanitize_css: expected exactly one list literal of strings, found %d" % len(lists))
    out += "/-- `prop.split('-')[0].lower() in [...]` -/\ndef cssShorthand : List Str := %s\n" % \
        strlist([e.value for e in lists[0].elts])

    # ---- character classes
    calls_tok = re_calls(pylite.find_function(tree, "Filter.allowed_token"))
    calls_css = re_calls(css_fn)
    if [m for m, _ in calls_tok] != ["sub", "sub", "search"]:
        raise TranslationError("allowed_token: re calls changed: %r" % ([m for m, _ in calls_tok],))
    if [m for m, _ in calls_css] != ["compile", "match", "match", "findall", "match"]:
        raise TranslationError("sanitize_css: re calls changed: %r" % ([m for m, _ in calls_css],))
    strip_pat = calls_tok[0][1]
    m = re.fullmatch(r"(\[.*\])\+", strip_pat, re.S)
    if not m:
        raise TranslationError("URI cleaning pattern %r is not [class]+" % strip_pat)
    out += "/-- the class of the URI cleaning regexp %s, as inclusive ranges -/\n" % ascii(strip_pat).replace("-/", "- /")
    out += "def uriStripClass : List (Nat × Nat) := %s\n" % lean_ranges(regex_class(re.compile(m.group(1))))
    out += "/-- `\\w`, `\\s`, `\\d` of a `str` pattern (Unicode %s) -/\n" % unicodedata.unidata_version
    out += "def wordClass : List (Nat × Nat) := %s\n" % lean_ranges(regex_class(re.compile(r"\w")))
    out += "def spaceClass : List (Nat × Nat) := %s\n" % lean_ranges(regex_class(re.compile(r"\s")))
    out += "def digitClass : List (Nat × Nat) := %s\n" % lean_ranges(regex_class(re.compile(r"\d")))
    out += "def reClasses : Classes := { word := wordClass, space := spaceClass, digit := digitClass }\n"
    out += "/-- separators of `str.split()` -/\n"
    out += "def strSplitClass : List (Nat × Nat) := %s\n" % lean_ranges(ranges_of(lambda cp: len(("a" + chr(cp) + "b").split()) == 2))

    # ---- str.lower
    table, ignorable, cased = lower_tables()
    out += "/-- `chr(c).lower()` for the non-ASCII code points it changes (U+03A3 out of context) -/\n"
    out += blocks("lowerTable", "Nat × Str", ["(%d, [%s])" % (cp, ", ".join(str(ord(c)) for c in lo)) for cp, lo in table])
    out += "/-- Case_Ignorable / Cased as CPython's final-sigma rule sees them (probed through str.lower) -/\n"
    out += "def caseIgnorableClass : List (Nat × Nat) := %s\n" % lean_ranges(ignorable)
    out += "def casedNotIgnorableClass : List (Nat × Nat) := %s\n" % lean_ranges(cased)
    out += "/-- non-ASCII code points whose NFKC form contains one of `/?#@:` (urllib.parse._checknetloc) -/\n"
    out += "def nfkcNetlocBad : List (Nat × Nat) := %s\n" % lean_ranges(nfkc_bad())

    # ---- regular expressions, from Python's parse of the module's own pattern strings
    out += "\n" + lean_regex("reUriStrip", strip_pat, 0, "allowed_token: re.sub(P, '', unescape(v))")
    out += lean_regex("reSvgUrl", calls_tok[1][1], 0, "allowed_token: re.sub(P, ' ', unescape(v)) for svg_attr_val_allows_ref")
    out += lean_regex("reLocalHref", calls_tok[2][1], 0, "allowed_token: re.search(P, xlink:href)")
    dct = S.data_content_type
    out += lean_regex("reDataContentType", dct.pattern, dct.flags, "data_content_type.match(uri.path)")
    if dct.groupindex.get("content_type") != 1:
        raise TranslationError("data_content_type: group content_type is not group 1")
    out += lean_regex("reCssUrl", calls_css[0][1], 0, "sanitize_css: re.compile(P).sub(' ', style)")
    out += lean_regex("reGauntlet1", calls_css[1][1], 0, "sanitize_css: re.match(P, style)")
    out += lean_regex("reGauntlet2", calls_css[2][1], 0, "sanitize_css: re.match(P, style)")
    out += lean_regex("reDecl", calls_css[3][1], 0, "sanitize_css: re.findall(P, style)")
    out += lean_regex("reKeyword", calls_css[4][1], 0, "sanitize_css: re.match(P, keyword)")
    out += "\n/-- name ↦ pattern, for the `re:<name>` driver ops -/\ndef regexTable : List (String × Re) := [\n  %s]\n" % ",\n  ".join(
        '("%s", re%s)' % (n, n) for n in ("UriStrip", "SvgUrl", "LocalHref", "DataContentType", "CssUrl", "Gauntlet1",
                                           "Gauntlet2", "Decl", "Keyword"))
    for fn in ("Filter.__init__", "Filter.__iter__", "Filter.sanitize_token", "Filter.allowed_token", "Filter.disallowed_token",
               "Filter.sanitize_css"):
        out += "-- fingerprint %s %s\n" % (fn, sha(ast.dump(pylite.find_function(tree, fn))))
    import urllib.parse
    import xml.sax.saxutils
    for nm, f in (("urllib.parse.urlsplit", urllib.parse.urlsplit.__wrapped__), ("urllib.parse._checknetloc", urllib.parse._checknetloc),
                  ("urllib.parse._check_bracketed_host", getattr(urllib.parse, "_check_bracketed_host", None)),
                  ("xml.sax.saxutils.unescape", xml.sax.saxutils.unescape), ("xml.sax.saxutils.escape", xml.sax.saxutils.escape)):
        if f is None:
            out += "-- fingerprint %s (absent in this Python)\n" % nm
        else:
            out += "-- fingerprint %s %s\n" % (nm, sha(ast.dump(ast.parse(inspect.getsource(f)))))
    return out + "\nend H5.Gen.San\n"


def patterns():
    """name -> (pattern, flags) as the generator sees them (used by tools/props/C09.py)"""
    with warnings.catch_warnings():
        warnings.simplefilter("ignore")
        from html5lib.filters import sanitizer as S
    tree = ast.parse(src(REL))
    t = re_calls(pylite.find_function(tree, "Filter.allowed_token"))
    c = re_calls(pylite.find_function(tree, "Filter.sanitize_css"))
    d = S.data_content_type
    return {"UriStrip": (t[0][1], 0), "SvgUrl": (t[1][1], 0), "LocalHref": (t[2][1], 0),
            "DataContentType": (d.pattern, d.flags & ~re.UNICODE), "CssUrl": (c[0][1], 0), "Gauntlet1": (c[1][1], 0),
            "Gauntlet2": (c[2][1], 0), "Decl": (c[3][1], 0), "Keyword": (c[4][1], 0)}
