"""Generator of lean/H5/Gen/Sanitizer.lean (property C09).

Everything is obtained by EVALUATING /repo's html5lib.filters.sanitizer (allow-lists, compiled pattern objects) or from
its AST (pattern string constants of the `re.*` calls, the shorthand-property list); every regular expression is
translated from Python's own parse (`re._parser.parse`) into a value of `H5.Model.Regex.Re`.  The Unicode-dependent
library behaviour the filter relies on is tabulated by evaluating the running Python: the classes `\\w \\s \\d`,
`str.split()` separators, `str.lower()` (per code point + the two properties behind the final-sigma rule), and the
code points whose NFKC form contains one of `/?#@:` (urlsplit's `_checknetloc`).
"""
import ast
import re
import unicodedata
import warnings

try:
    import re._parser as sre_parse
    import re._constants as sre_c
    import re._compiler as sre_compile
except ImportError:                       # Python < 3.11
    import sre_parse
    import sre_constants as sre_c
    import sre_compile

from extract import (register, FOOTER, lean_str_c, strlist, ostr, blocks, ranges_of, lean_ranges, regex_class,
                     setlist, sha, src, TranslationError)
import pylite

REL = "html5lib/filters/sanitizer.py"


# ------------------------------------------------------------------------------------------------------------------
# regular expressions
def _citem(av):
    op, arg = av
    if op is sre_c.LITERAL:
        return ".range %d %d" % (arg, arg)
    if op is sre_c.RANGE:
        return ".range %d %d" % arg
    if op is sre_c.CATEGORY:
        m = {sre_c.CATEGORY_WORD: ".word", sre_c.CATEGORY_SPACE: ".space", sre_c.CATEGORY_DIGIT: ".digit",
             sre_c.CATEGORY_NOT_WORD: ".notWord", sre_c.CATEGORY_NOT_SPACE: ".notSpace",
             sre_c.CATEGORY_NOT_DIGIT: ".notDigit"}
        if arg not in m:
            raise TranslationError("unsupported category %r" % (arg,))
        return m[arg]
    raise TranslationError("unsupported class item %r" % (op,))


def nullable(seq):
    """can the parsed sequence match the empty string?"""
    for op, av in seq:
        if op in (sre_c.LITERAL, sre_c.NOT_LITERAL, sre_c.ANY, sre_c.IN):
            return False
        if op is sre_c.AT:
            continue
        if op is sre_c.BRANCH:
            if not any(nullable(b) for b in av[1]):
                return False
            continue
        if op is sre_c.SUBPATTERN:
            if not nullable(av[3]):
                return False
            continue
        if op in (sre_c.MAX_REPEAT, sre_c.MIN_REPEAT):
            if av[0] > 0 and not nullable(av[2]):
                return False
            continue
        raise TranslationError("unsupported regex op %r" % (op,))
    return True


_CATEGORY_SETS = {}


def _category_set(cat):
    r"""code points of `\w`/`\s`/`\d` (str patterns), evaluated from the running Python (the tables behind `Classes`)"""
    if not _CATEGORY_SETS:
        for k, pat in ((sre_c.CATEGORY_WORD, r"\w"), (sre_c.CATEGORY_SPACE, r"\s"), (sre_c.CATEGORY_DIGIT, r"\d")):
            rx = re.compile(pat)
            _CATEGORY_SETS[k] = frozenset(cp for cp in range(0x110000) if rx.fullmatch(chr(cp)))
    return _CATEGORY_SETS[cat]


_NEG_CATEGORY = {}


def _symbolic_set(op, av):
    """what the case-SENSITIVE Lean translation of a one-character item denotes (`Re.lit/.notLit/.cls` + `classTest`)"""
    if not _NEG_CATEGORY:
        _NEG_CATEGORY.update({sre_c.CATEGORY_NOT_WORD: sre_c.CATEGORY_WORD, sre_c.CATEGORY_NOT_SPACE: sre_c.CATEGORY_SPACE,
                              sre_c.CATEGORY_NOT_DIGIT: sre_c.CATEGORY_DIGIT})
    full = range(0x110000)
    if op is sre_c.LITERAL:
        return {av}
    if op is sre_c.NOT_LITERAL:
        return set(full) - {av}
    neg = bool(av) and av[0][0] is sre_c.NEGATE
    acc = set()
    for iop, iav in (av[1:] if neg else av):
        if iop is sre_c.LITERAL:
            acc.add(iav)
        elif iop is sre_c.RANGE:
            acc.update(range(iav[0], iav[1] + 1))
        elif iop is sre_c.CATEGORY and iav in _NEG_CATEGORY:
            acc.update(set(full) - _category_set(_NEG_CATEGORY[iav]))
        elif iop is sre_c.CATEGORY:
            acc.update(_category_set(iav))             # KeyError for an unsupported category: _citem reports it
        else:
            raise TranslationError("unsupported class item %r" % (iop,))
    return set(full) - acc if neg else acc


def _ranges_of_set(cps):
    out = []
    for cp in sorted(cps):
        if out and out[-1][1] == cp - 1:
            out[-1][1] = cp
        else:
            out.append([cp, cp])
    return out


def _folded_item(state, op, av, where):
    """IGNORECASE: the exact set of characters Python's compiled form of the one-character item (LITERAL, NOT_LITERAL,
    IN) matches under the pattern's flags, obtained by compiling that single parsed item with sre's own compiler and
    evaluating it on every code point.  Returns None when the flag does not change the item (the case-sensitive
    translation denotes the same set), else the Lean term: a positive class of the evaluated ranges, or a negated
    class of the complement when that is the shorter list."""
    rx = sre_compile.compile(sre_parse.SubPattern(state, [(op, av)]), state.flags)
    real = set(cp for cp in range(0x110000) if rx.fullmatch(chr(cp)))
    if real == _symbolic_set(op, av):
        return None
    pos = _ranges_of_set(real)
    neg = _ranges_of_set(set(range(0x110000)) - real)
    if len(pos) > 400 and len(neg) > 400:
        raise TranslationError("%s: case-insensitive class with %d ranges" % (where, min(len(pos), len(neg))))
    use_neg = len(neg) < len(pos)
    return ".cls %s [%s]" % ("true" if use_neg else "false", ", ".join(".range %d %d" % (a, b) for a, b in (neg if use_neg else pos)))


def re_to_lean(seq, where, state=None):
    """parsed pattern (SubPattern / list of (op, av)) -> Lean term of type Re.  `state` is the parse state; its flags
    decide whether one-character items are case-folded (SRE_FLAG_IGNORECASE as reported by the parse, which also
    covers a global inline `(?i)`)."""
    if state is None:
        state = seq.state
    icase = bool(state.flags & sre_c.SRE_FLAG_IGNORECASE)
    items = []
    lits = []

    def flush():
        if lits:
            if len(lits) == 1:
                items.append(".lit %d" % lits[0])
            else:
                items.append("Re.str [%s]" % ", ".join(str(c) for c in lits))
            del lits[:]
    for op, av in seq:
        if icase and op in (sre_c.LITERAL, sre_c.NOT_LITERAL, sre_c.IN):
            folded = _folded_item(state, op, av, where)
            if folded is not None:
                flush()
                items.append(folded)
                continue
        if op is sre_c.LITERAL:
            lits.append(av)
            continue
        flush()
        if op is sre_c.NOT_LITERAL:
            items.append(".notLit %d" % av)
        elif op is sre_c.ANY:
            items.append(".any")
        elif op is sre_c.IN:
            neg = bool(av) and av[0][0] is sre_c.NEGATE
            body = av[1:] if neg else av
            items.append(".cls %s [%s]" % ("true" if neg else "false", ", ".join(_citem(x) for x in body)))
        elif op is sre_c.AT:
            if av is sre_c.AT_BEGINNING:
                items.append(".bos")
            elif av is sre_c.AT_END:
                items.append(".eos")
            else:
                raise TranslationError("%s: unsupported anchor %r" % (where, av))
        elif op is sre_c.BRANCH:
            items.append("Re.alts [%s]" % ", ".join(re_to_lean(b, where, state) for b in av[1]))
        elif op is sre_c.SUBPATTERN:
            group, add_flags, del_flags, p = av
            if add_flags or del_flags:
                raise TranslationError("%s: inline flags are not supported" % where)
            inner = re_to_lean(p, where, state)
            items.append(inner if group is None else ".group %d (%s)" % (group, inner))
        elif op in (sre_c.MAX_REPEAT, sre_c.MIN_REPEAT):
            mn, mx, p = av
            if nullable(p) and (mx is sre_c.MAXREPEAT or mx > 1):
                raise TranslationError("%s: repeat with a nullable body (sre's empty-iteration corner) is not supported" % where)
            items.append(".rep %d %s %s (%s)" % (mn, "none" if mx is sre_c.MAXREPEAT else "(some %d)" % mx,
                                                "true" if op is sre_c.MAX_REPEAT else "false", re_to_lean(p, where, state)))
        else:
            raise TranslationError("%s: unsupported regex op %r" % (where, op))
    flush()
    if len(items) == 1:
        return items[0]
    return "Re.seq [%s]" % ", ".join("(%s)" % i if " " in i and not i.startswith("(") else i for i in items)


SUPPORTED_FLAGS = re.UNICODE | re.VERBOSE | re.IGNORECASE


def lean_regex(name, pattern, flags, doc):
    if flags & ~SUPPORTED_FLAGS:
        raise TranslationError("%s: unsupported flags %r" % (name, flags))
    p = sre_parse.parse(pattern, flags)
    if p.state.flags & ~SUPPORTED_FLAGS:
        raise TranslationError("%s: unsupported flags %r (after parsing)" % (name, p.state.flags))
    shown = "".join(c if 32 <= ord(c) < 127 and c not in "-/" else "?" for c in " ".join(pattern.split()))
    fl = ", flags: %s" % re.RegexFlag(p.state.flags & ~re.UNICODE).name if p.state.flags & ~re.UNICODE else ""
    return "/-- %s: `%s` (groups: %d%s) -/\ndef %s : Re :=\n  %s\n" % (doc, shown[:300], p.state.groups - 1, fl, name,
                                                                      re_to_lean(p, name))


def _flags_value(node):
    """value of a flags expression `re.I`, `re.IGNORECASE | re.X`, … (anything else is a TranslationError)"""
    if isinstance(node, ast.Attribute) and isinstance(node.value, ast.Name) and node.value.id == "re" and \
            isinstance(getattr(re, node.attr, None), re.RegexFlag):
        return int(getattr(re, node.attr))
    if isinstance(node, ast.BinOp) and isinstance(node.op, ast.BitOr):
        return _flags_value(node.left) | _flags_value(node.right)
    raise TranslationError("line %d: flags expression is not a combination of re.<FLAG> constants" % node.lineno)


# position of the `flags` argument of the module-level functions of `re`
_FLAGS_POS = {"compile": 1, "search": 2, "match": 2, "fullmatch": 2, "findall": 2, "finditer": 2, "sub": 4, "subn": 4, "split": 3}


# the `re.<method>` calls of allowed_token / sanitize_css the model is written for, in source order
TOK_CALLS = ["sub", "sub", "search"]
CSS_CALLS = ["compile", "search", "match", "match", "findall", "match"]


def re_calls(fn):
    """[(method, pattern string, flags)] of the `re.<method>(<constant>, ...)` calls inside a function, in source order;
    flags (positional or `flags=`) must be a literal combination of `re.<FLAG>` constants"""
    out = []
    for n in ast.walk(fn):
        if (isinstance(n, ast.Call) and isinstance(n.func, ast.Attribute) and isinstance(n.func.value, ast.Name)
                and n.func.value.id == "re"):
            if not (n.args and isinstance(n.args[0], ast.Constant) and isinstance(n.args[0].value, str)):
                raise TranslationError("line %d: re.%s with a non-literal pattern" % (n.lineno, n.func.attr))
            if n.func.attr not in _FLAGS_POS:
                raise TranslationError("line %d: re.%s is not supported" % (n.lineno, n.func.attr))
            pos = _FLAGS_POS[n.func.attr]
            if n.func.attr in ("sub", "subn", "split"):
                pos_max = pos - 1               # a positional count/maxsplit is not modelled; flags only as `flags=`
            else:
                pos_max = pos + 1
            if len(n.args) > pos_max or any(k.arg != "flags" for k in n.keywords):
                raise TranslationError("line %d: re.%s with extra arguments (count/maxsplit/pos)" % (n.lineno, n.func.attr))
            flags = 0
            if len(n.args) == pos + 1:
                flags |= _flags_value(n.args[pos])
            for k in n.keywords:
                flags |= _flags_value(k.value)
            out.append((n.lineno, n.col_offset, n.func.attr, n.args[0].value, flags))
    out.sort()
    return [(m, p, f) for _, _, m, p, f in out]


# ------------------------------------------------------------------------------------------------------------------
def pairlist(name, items):
    """frozenset of (namespace|None, name) -> sorted Lean list, in blocks"""
    for it in items:
        if not (isinstance(it, tuple) and len(it) == 2 and (it[0] is None or isinstance(it[0], str)) and isinstance(it[1], str)):
            raise TranslationError("%s: entry %r is not a (namespace, name) tuple" % (name, it))
    srt = sorted(items, key=lambda t: (t[0] or "", t[1]))
    return blocks(name, "Option Str × Str", ["(%s, %s)" % (ostr(ns), lean_str_c(nm)) for ns, nm in srt], per=48)


def lower_tables():
    """str.lower() per code point (where it is not the identity, non-ASCII) and the two properties of the final-sigma rule"""
    table = []
    for cp in range(128, 0x110000):
        ch = chr(cp)
        lo = ch.lower()
        if lo != ch:
            table.append((cp, lo))
    for cp in range(128):
        exp = chr(cp + 32) if 65 <= cp <= 90 else chr(cp)
        if chr(cp).lower() != exp:
            raise TranslationError("str.lower() is not ASCII lower-casing on U+%04X" % cp)
    # handle_capital_sigma:  final  <=>  cased ignorable* SIGMA  and not (ignorable* cased)
    sig = "Σ"

    def probes(cp):
        a = ("A" + sig + chr(cp) + "A").lower()[1]
        b = ("A" + sig + chr(cp) + "1").lower()[1]
        return a == "σ", b == "σ"
    ignorable = ranges_of(lambda cp: probes(cp) == (True, False))
    cased = ranges_of(lambda cp: probes(cp) == (True, True))
    return table, ignorable, cased


def nfkc_bad():
    """non-ASCII code points whose NFKC form contains one of '/?#@:' (what _checknetloc rejects)"""
    return ranges_of(lambda cp: cp >= 128 and any(c in unicodedata.normalize("NFKC", chr(cp)) for c in "/?#@:"))


@register("Sanitizer")
def gen_sanitizer():
    with warnings.catch_warnings():
        warnings.simplefilter("ignore")
        from html5lib.filters import sanitizer as S
    from html5lib.constants import namespaces
    tree = ast.parse(src(REL))
    out = ("-- GENERATED by tools/gen_sanitizer.py from %s (evaluated + AST) -- do not edit\n"
           "import H5.Basic\nimport H5.Model.Regex\nnamespace H5.Gen.San\nopen H5 H5.Model.Regex\n\n" % REL)

    # ---- allow-lists (the defaults of Filter.__init__ are the module-level frozensets: check that)
    import inspect
    sig = inspect.signature(S.Filter.__init__)
    names = ["allowed_elements", "allowed_attributes", "allowed_css_properties", "allowed_css_keywords",
             "allowed_svg_properties", "allowed_protocols", "allowed_content_types", "attr_val_is_uri",
             "svg_attr_val_allows_ref", "svg_allow_local_href"]
    if [p for p in sig.parameters if p not in ("self", "source")] != names:
        raise TranslationError("Filter.__init__ parameters changed: %r" % (list(sig.parameters),))
    for n in names:
        if sig.parameters[n].default is not getattr(S, n):
            raise TranslationError("default of %s is not the module-level set" % n)
    out += pairlist("allowedElements", S.allowed_elements)
    out += pairlist("allowedAttributes", S.allowed_attributes)
    out += pairlist("attrValIsUri", S.attr_val_is_uri)
    out += pairlist("svgAttrValAllowsRef", S.svg_attr_val_allows_ref)
    out += pairlist("svgAllowLocalHref", S.svg_allow_local_href)
    for lean_name, py in (("allowedCssProperties", "allowed_css_properties"), ("allowedCssKeywords", "allowed_css_keywords"),
                          ("allowedSvgProperties", "allowed_svg_properties"), ("allowedProtocols", "allowed_protocols"),
                          ("allowedContentTypes", "allowed_content_types")):
        vals = getattr(S, py)
        if not all(isinstance(v, str) for v in vals):
            raise TranslationError("%s: non-string entry" % py)
        out += "def %s : List Str := %s\n" % (lean_name, setlist(vals))
    out += "def htmlNs : Str := %s\n" % lean_str_c(namespaces["html"])
    out += "def xlinkNs : Str := %s\n" % lean_str_c(namespaces["xlink"])

    # ---- the shorthand-property list of sanitize_css (AST: the only list literal of string constants)
    css_fn = pylite.find_function(tree, "Filter.sanitize_css")
    lists = [n for n in ast.walk(css_fn) if isinstance(n, ast.List) and n.elts and
             all(isinstance(e, ast.Constant) and isinstance(e.value, str) for e in n.elts)]
    if len(lists) != 1:
        raise TranslationError("sanitize_css: expected exactly one list literal of strings, found %d" % len(lists))
    out += "/-- `prop.split('-')[0].lower() in [...]` -/\ndef cssShorthand : List Str := %s\n" % \
        strlist([e.value for e in lists[0].elts])

    # ---- character classes
    calls_tok = re_calls(pylite.find_function(tree, "Filter.allowed_token"))
    calls_css = re_calls(css_fn)
    if [m for m, _, _ in calls_tok] != TOK_CALLS:
        raise TranslationError("allowed_token: re calls changed: %r" % ([m for m, _, _ in calls_tok],))
    if [m for m, _, _ in calls_css] != CSS_CALLS:
        raise TranslationError("sanitize_css: re calls changed: %r" % ([m for m, _, _ in calls_css],))
    strip_pat = calls_tok[0][1]
    if calls_tok[0][2]:
        raise TranslationError("URI cleaning pattern with flags: cleanUri models it as a plain class deletion")
    m = re.fullmatch(r"(\[.*\])\+", strip_pat, re.S)
    if not m:
        raise TranslationError("URI cleaning pattern %r is not [class]+" % strip_pat)
    out += "/-- the class of the URI cleaning regexp %s, as inclusive ranges -/\n" % ascii(strip_pat).replace("-/", "- /")
    out += "def uriStripClass : List (Nat × Nat) := %s\n" % lean_ranges(regex_class(re.compile(m.group(1))))
    out += "/-- `\\w`, `\\s`, `\\d` of a `str` pattern (Unicode %s) -/\n" % unicodedata.unidata_version
    out += "def wordClass : List (Nat × Nat) := %s\n" % lean_ranges(regex_class(re.compile(r"\w")))
    out += "def spaceClass : List (Nat × Nat) := %s\n" % lean_ranges(regex_class(re.compile(r"\s")))
    out += "def digitClass : List (Nat × Nat) := %s\n" % lean_ranges(regex_class(re.compile(r"\d")))
    out += "def reClasses : Classes := { word := wordClass, space := spaceClass, digit := digitClass }\n"
    out += "/-- separators of `str.split()` -/\n"
    out += "def strSplitClass : List (Nat × Nat) := %s\n" % lean_ranges(ranges_of(lambda cp: len(("a" + chr(cp) + "b").split()) == 2))

    # ---- str.lower
    table, ignorable, cased = lower_tables()
    out += "/-- `chr(c).lower()` for the non-ASCII code points it changes (U+03A3 out of context) -/\n"
    out += blocks("lowerTable", "Nat × Str", ["(%d, [%s])" % (cp, ", ".join(str(ord(c)) for c in lo)) for cp, lo in table])
    out += "/-- Case_Ignorable / Cased as CPython's final-sigma rule sees them (probed through str.lower) -/\n"
    out += "def caseIgnorableClass : List (Nat × Nat) := %s\n" % lean_ranges(ignorable)
    out += "def casedNotIgnorableClass : List (Nat × Nat) := %s\n" % lean_ranges(cased)
    out += "/-- non-ASCII code points whose NFKC form contains one of `/?#@:` (urllib.parse._checknetloc) -/\n"
    out += "def nfkcNetlocBad : List (Nat × Nat) := %s\n" % lean_ranges(nfkc_bad())

    # ---- regular expressions, from Python's parse of the module's own pattern strings
    out += "\n" + lean_regex("reUriStrip", strip_pat, calls_tok[0][2], "allowed_token: re.sub(P, '', unescape(v))")
    out += lean_regex("reSvgUrl", calls_tok[1][1], calls_tok[1][2], "allowed_token: re.sub(P, ' ', unescape(v)) for svg_attr_val_allows_ref")
    out += lean_regex("reLocalHref", calls_tok[2][1], calls_tok[2][2], "allowed_token: re.search(P, xlink:href)")
    dct = S.data_content_type
    out += lean_regex("reDataContentType", dct.pattern, dct.flags, "data_content_type.match(uri.path)")
    if dct.groupindex.get("content_type") != 1:
        raise TranslationError("data_content_type: group content_type is not group 1")
    out += lean_regex("reCssUrl", calls_css[0][1], calls_css[0][2], "sanitize_css: re.compile(P, flags).sub(' ', style)")
    out += lean_regex("reCssUrlGuard", calls_css[1][1], calls_css[1][2], "sanitize_css: if re.search(P, style, flags): return ''")
    out += lean_regex("reGauntlet1", calls_css[2][1], calls_css[2][2], "sanitize_css: re.match(P, style)")
    out += lean_regex("reGauntlet2", calls_css[3][1], calls_css[3][2], "sanitize_css: re.match(P, style)")
    out += lean_regex("reDecl", calls_css[4][1], calls_css[4][2], "sanitize_css: re.findall(P, style)")
    out += lean_regex("reKeyword", calls_css[5][1], calls_css[5][2], "sanitize_css: re.match(P, keyword)")
    out += "\n/-- name ↦ pattern, for the `re:<name>` driver ops -/\ndef regexTable : List (String × Re) := [\n  %s]\n" % ",\n  ".join(
        '("%s", re%s)' % (n, n) for n in ("UriStrip", "SvgUrl", "LocalHref", "DataContentType", "CssUrl", "CssUrlGuard", "Gauntlet1",
                                           "Gauntlet2", "Decl", "Keyword"))
    for fn in ("Filter.__init__", "Filter.__iter__", "Filter.sanitize_token", "Filter.allowed_token", "Filter.disallowed_token",
               "Filter.sanitize_css"):
        out += "-- fingerprint %s %s\n" % (fn, sha(ast.dump(pylite.find_function(tree, fn))))
    import urllib.parse
    import xml.sax.saxutils
    for nm, f in (("urllib.parse.urlsplit", urllib.parse.urlsplit.__wrapped__), ("urllib.parse._checknetloc", urllib.parse._checknetloc),
                  ("urllib.parse._check_bracketed_host", getattr(urllib.parse, "_check_bracketed_host", None)),
                  ("xml.sax.saxutils.unescape", xml.sax.saxutils.unescape), ("xml.sax.saxutils.escape", xml.sax.saxutils.escape)):
        if f is None:
            out += "-- fingerprint %s (absent in this Python)\n" % nm
        else:
            out += "-- fingerprint %s %s\n" % (nm, sha(ast.dump(ast.parse(inspect.getsource(f)))))
    return out + "\nend H5.Gen.San\n"


def patterns():
    """name -> (pattern, flags) as the generator sees them (used by tools/props/C09.py)"""
    with warnings.catch_warnings():
        warnings.simplefilter("ignore")
        from html5lib.filters import sanitizer as S
    tree = ast.parse(src(REL))
    t = re_calls(pylite.find_function(tree, "Filter.allowed_token"))
    c = re_calls(pylite.find_function(tree, "Filter.sanitize_css"))
    if [m for m, _, _ in t] != TOK_CALLS or [m for m, _, _ in c] != CSS_CALLS:
        raise TranslationError("re calls of allowed_token / sanitize_css changed: %r %r" % ([m for m, _, _ in t], [m for m, _, _ in c]))
    d = S.data_content_type
    return {"UriStrip": (t[0][1], t[0][2]), "SvgUrl": (t[1][1], t[1][2]), "LocalHref": (t[2][1], t[2][2]),
            "DataContentType": (d.pattern, d.flags & ~re.UNICODE), "CssUrl": (c[0][1], c[0][2]), "CssUrlGuard": (c[1][1], c[1][2]),
            "Gauntlet1": (c[2][1], c[2][2]), "Gauntlet2": (c[3][1], c[3][2]), "Decl": (c[4][1], c[4][2]), "Keyword": (c[5][1], c[5][2])}
