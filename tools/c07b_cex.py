"""C07b: the counter-example trees of H5.Props.C07b (hypotheses of G0) and the limits of G0, on the REAL library.
run: PYTHONPATH=$H5_REPO /venv/bin/python tools/c07b_cex.py"""
import html5lib, sys
from html5lib.serializer import HTMLSerializer
from xml.dom import minidom
H="http://www.w3.org/1999/xhtml"
import os; sys.path.insert(0, os.path.dirname(os.path.abspath(__file__)))
from h5 import trees

def build(bodyfn):
    """build a DOM document directly (so that non-parseable trees can be expressed)"""
    impl = minidom.getDOMImplementation()
    dt = impl.createDocumentType("html", None, None)
    doc = impl.createDocument(H, "html", dt)
    html = doc.documentElement
    head = doc.createElementNS(H, "head"); body = doc.createElementNS(H, "body")
    html.appendChild(head); html.appendChild(body)
    bodyfn(doc, body)
    return doc

def rt(doc, **opts):
    o = dict(omit_optional_tags=False); o.update(opts)
    s = HTMLSerializer(inject_meta_charset=False, **o)
    out = s.render(html5lib.getTreeWalker("dom")(doc))
    p = html5lib.HTMLParser(tree=html5lib.getTreeBuilder("dom"))
    d2 = p.parse(out)
    a0 = trees.merge_text(trees.from_dom(doc)); a1 = trees.merge_text(trees.from_dom(d2))
    return out, list(s.errors), [e[1] for e in p.errors], a0 == a1, trees.from_dom(doc) == trees.from_dom(d2)

def E(doc, name, attrs=(), kids=()):
    e = doc.createElementNS(H, name)
    for k, v in attrs: e.setAttribute(k, v)
    for k in kids: e.appendChild(k)
    return e

cases = {}
def case(name):
    def deco(f): cases[name] = f; return f
    return deco

@case("empty-text")
def _(d, b): b.appendChild(E(d, "div", kids=[d.createTextNode("")]))
@case("adjacent-text")
def _(d, b): b.appendChild(d.createTextNode("a")); b.appendChild(d.createTextNode("b"))
@case("CR-in-text")
def _(d, b): b.appendChild(d.createTextNode("a\rb"))
@case("NUL-in-text")
def _(d, b): b.appendChild(d.createTextNode("a\x00b"))
@case("comment-ends-dash")
def _(d, b): b.appendChild(d.createComment("a-"))
@case("comment-dashdash")
def _(d, b): b.appendChild(d.createComment("a--b"))
@case("comment-starts-gt")
def _(d, b): b.appendChild(d.createComment(">x"))
@case("comment-starts-dash-gt")
def _(d, b): b.appendChild(d.createComment("->x"))
@case("comment-CR")
def _(d, b): b.appendChild(d.createComment("a\rb"))
@case("p-in-p")
def _(d, b): b.appendChild(E(d, "p", kids=[E(d, "p")]))
@case("div-in-p")
def _(d, b): b.appendChild(E(d, "p", kids=[E(d, "div")]))
@case("div-in-span-in-p")
def _(d, b): b.appendChild(E(d, "p", kids=[E(d, "span", kids=[E(d, "div")])]))
@case("uppercase-name")
def _(d, b): b.appendChild(E(d, "DIV"))
@case("itemscope-value")
def _(d, b): b.appendChild(E(d, "div", [("itemscope", "x")]))
@case("attr-value-CR")
def _(d, b): b.appendChild(E(d, "div", [("title", "a\rb")]))
@case("attr-uppercase")
def _(d, b): b.appendChild(E(d, "div", [("Title", "a")]))
@case("void-with-child")
def _(d, b): b.appendChild(E(d, "br", kids=[d.createTextNode("x")]))
@case("keygen")
def _(d, b): b.appendChild(E(d, "keygen"))
@case("wbr")
def _(d, b): b.appendChild(E(d, "wbr"))
@case("pre-leading-newline")
def _(d, b): b.appendChild(E(d, "pre", kids=[d.createTextNode("\nx")]))
@case("textarea-leading-newline")
def _(d, b): b.appendChild(E(d, "textarea", kids=[d.createTextNode("\nx")]))
@case("nested-b")
def _(d, b): b.appendChild(E(d, "b", kids=[E(d, "i", kids=[d.createTextNode("x")])]))
@case("a-in-a")
def _(d, b): b.appendChild(E(d, "a", kids=[E(d, "a")]))
@case("dialog")
def _(d, b): b.appendChild(E(d, "dialog", kids=[d.createTextNode("x")]))
@case("dialog-in-p")
def _(d, b): b.appendChild(E(d, "p", kids=[E(d, "dialog", kids=[d.createTextNode("x")])]))
@case("svg-ns-span")
def _(d, b): b.appendChild(d.createElementNS("http://www.w3.org/2000/svg", "span"))
@case("text-in-table")
def _(d, b): b.appendChild(E(d, "table", kids=[d.createTextNode("x")]))
@case("li-in-li")
def _(d, b): b.appendChild(E(d, "ul", kids=[E(d, "li", kids=[E(d, "li")])]))
@case("h1-in-h1")
def _(d, b): b.appendChild(E(d, "h1", kids=[E(d, "h2")]))
@case("button-in-button")
def _(d, b): b.appendChild(E(d, "button", kids=[E(d, "button")]))
@case("form-in-form")
def _(d, b): b.appendChild(E(d, "form", kids=[E(d, "div", kids=[E(d, "form")])]))

for name, f in cases.items():
    doc = build(f)
    try:
        out, serrs, perrs, same, same_unmerged = rt(doc)
        print("%-26s identity=%-5s ser_errors=%s parse_errors=%s\n    %s" % (name, same, serrs, perrs, out[39:-14]))
    except Exception as e:
        print("%-26s RAISES %r" % (name, e))
