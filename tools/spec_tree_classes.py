"""Stable class labels for differences between the tree-construction SPEC and the MODEL of html5lib.
The label is computed from the (1-minimal) witness: its tokens, the container, and the two responses.
Rules are ordered from the most specific cause to the most generic; the last rule is NOT a catch-all
class: it spells out the container and the tag names of the witness, so nothing hides in it."""
import re
import tree_corr as T

TOK = T.TOK

FORMATTING = {"a", "b", "big", "code", "em", "font", "i", "nobr", "s", "small", "strike", "strong", "tt", "u"}
# start tags that break out of foreign content (13.2.6.5)
BREAKOUT = {"b", "big", "blockquote", "body", "br", "center", "code", "dd", "div", "dl", "dt", "em", "embed", "h1",
            "h2", "h3", "h4", "h5", "h6", "head", "hr", "i", "img", "li", "listing", "menu", "meta", "nobr", "ol",
            "p", "pre", "ruby", "s", "small", "span", "strong", "strike", "sub", "sup", "table", "tt", "u", "ul",
            "var", "font"}
# elements of the standard's "special" category that html5lib's `specialElements` does not contain
# (established empirically with the pattern <b><X>x</b>y, see NOTES.md)
SPECIAL_MISSING = {"main", "summary", "figcaption", "hgroup", "source", "track", "keygen", "template"}
FOREIGN_SPECIAL = {"mi", "mo", "mn", "ms", "mtext", "annotation-xml", "desc", "title"}
SPEC_SPECIAL = {"address", "applet", "area", "article", "aside", "base", "basefont", "bgsound", "blockquote", "body",
                "br", "button", "caption", "center", "col", "colgroup", "dd", "details", "dir", "div", "dl", "dt",
                "embed", "fieldset", "figcaption", "figure", "footer", "form", "frame", "frameset", "h1", "h2", "h3",
                "h4", "h5", "h6", "head", "header", "hgroup", "hr", "html", "iframe", "img", "input", "keygen", "li",
                "link", "listing", "main", "marquee", "menu", "meta", "nav", "noembed", "noframes", "noscript",
                "object", "ol", "p", "param", "plaintext", "pre", "script", "section", "select", "source", "style",
                "summary", "table", "tbody", "td", "template", "textarea", "tfoot", "th", "thead", "title", "tr",
                "track", "ul", "wbr", "xmp"}
TABLE_CONTAINERS = {"table", "tbody", "thead", "tfoot", "tr", "td", "th", "caption", "colgroup"}
SVG_LEGACY_ATTRS = {"contentscripttype", "contentstyletype", "externalresourcesrequired", "filterres"}
# names that HTML algorithms test for and that html5lib tests BY NAME ONLY (no namespace check)
HTML_SIGNIFICANT = {"html", "table", "tbody", "thead", "tfoot", "tr", "td", "th", "caption", "colgroup", "col",
                    "select", "option", "optgroup", "frameset", "form", "button", "a", "applet", "marquee", "object",
                    "p", "li", "dd", "dt", "body", "head", "nobr", "ruby", "h1", "h2", "h3", "h4", "h5", "h6",
                    "template", "input", "address", "div", "title", "style", "script", "textarea", "noscript",
                    "rp", "rt", "ul", "ol", "b", "i", "u", "s", "em", "big", "code", "font", "small", "strike",
                    "strong", "tt", "plaintext", "xmp", "iframe", "nav", "label", "figure", "h7"}


def names(toks):
    st = [t["name"] for t in toks if t["type"] == TOK["StartTag"]]
    en = [t["name"] for t in toks if t["type"] == TOK["EndTag"]]
    return st, en


def attr_names(toks):
    out = []
    for t in toks:
        if t["type"] == TOK["StartTag"]:
            out.extend(k for k, _v in (t["data"] if isinstance(t["data"], list) else t["data"].items()))
    return out


def foreign_children(toks):
    """start-tag names that occur directly after an <svg>/<math> start tag opened earlier (rough: any start
    tag after the first svg/math)"""
    out, seen = [], False
    for t in toks:
        if t["type"] == TOK["StartTag"]:
            if seen:
                out.append(t["name"])
            if t["name"] in ("svg", "math"):
                seen = True
    return out


# NON-STANDARD switches of the specification (lean/H5/Spec/TreeConstruction/Dom.lean `Dev`), in the order
# they are tried, with the class label a witness gets when ONE switch alone makes spec == model
SWITCHES = [
    ("special", "special-category"),
    ("dialog", "dialog-closes-p"),
    ("ruby", "rb-rtc"),
    ("breakout", "foreign-breakout-fragment-case"),
    ("xmlbase", "foreign-attr:xml:base"),
    ("svgattrs", "svg-attr-legacy"),
    ("fedropshadow", "svg-tagname:feDropShadow"),
    ("endbr", "end-tag-br-frameset-ok"),
    ("inner3", "adoption-agency-inner-loop>3"),
    ("bookmark", "adoption-agency-bookmark-index"),
    ("notinscope", "adoption-agency-not-in-scope-acts-as-other-end-tag"),
    ("cellctx", "fragment-td-th-context-in-cell"),
    ("formctx", "fragment-form-context"),
    ("command", "command-in-head"),
    ("scriptctx", "fragment-initial-tokenizer-state"),
    ("tabletext", "in-table-text-although-current-node-not-table"),
    ("tablestart", "fragment-table-start-tag-in-table"),
    ("buttonlost", "in-table-button-token-dropped"),
    ("fosterreset", "in-table-foster-parenting-switched-off-by-nested-end-tag"),
    ("wsnorec", "whitespace-without-AFE-reconstruct(in-caption/in-cell/after-body)"),
    ("textareabody", "textarea-content-in-body-mode"),
    ("dropnl", "drop-newline-sticky"),
    ("ttdoctype", "in-table-text-doctype-does-not-flush"),
    ("charsrun", "chars-run-whitespace"),
    ("nameonly", "foreign-name-confusion"),
]
HTML5LIB_SPECIAL_DIFF = {"figcaption", "hgroup", "main", "summary", "source", "track", "keygen", "template", "mi", "mo",
                         "mn", "ms", "mtext", "annotation-xml", "desc", "title", "command", "image", "isindex"}


def switch_label(flag, label, case, toks):
    st, en = names(toks)
    if flag == "special":
        hit = sorted(set(st) & HTML5LIB_SPECIAL_DIFF)
        foreign = [n for n in hit if n in FOREIGN_SPECIAL]
        htmlish = [n for n in hit if n not in FOREIGN_SPECIAL]
        return label + ":" + (",".join(htmlish) if htmlish else "foreign(%s)" % ",".join(foreign))
    if flag == "nameonly":
        hit = sorted(set(foreign_children(toks)) & HTML_SIGNIFICANT) or sorted(set(names(toks)[1]))
        return label + ":" + ",".join(hit)
    if flag == "charsrun":
        cont = (case[1] or "").lower()
        return label + ":" + ("in-column-group" if cont == "colgroup" else "frameset-modes" if ("frameset" in st or cont == "frameset") else "other")
    if flag == "scriptctx":
        return label + ":" + str(case[1]).lower()
    return label


def classify(case, toks, model, spec, explained=None):
    if explained is not None and not model.startswith("err ") and not spec.startswith("err "):
        for flag, label in SWITCHES:
            if explained([flag]):
                return switch_label(flag, label, case, toks)
        allflags = [f for f, _ in SWITCHES]
        if explained(allflags):
            need = list(allflags)
            for f in allflags:
                trial = [x for x in need if x != f]
                if explained(trial):
                    need = trial
            return "+".join(switch_label(f, dict(SWITCHES)[f], case, toks) for f in need)
    return "(heuristic) " + classify_heuristic(case, toks, model, spec)


def classify_heuristic(case, toks, model, spec):
    text, container, scripting, _ = case
    st, en = names(toks)
    allnames = st + en
    sset = set(st)
    aset = set(allnames)
    cont = container.lower() if container is not None else None
    if model.startswith("err "):
        return "model-raises:" + ":".join(model[4:].split(":")[0:2])
    if spec.startswith("err "):
        return "SPEC-ERROR:" + spec[4:60]
    mt, msw, mi = model[3:].split(" | ")
    stt, ssw, si = spec[3:].split(" | ")
    if mt == stt and mi != si:
        return "fragment-initial-tokenizer-state:%s" % cont
    if "template" in aset or cont == "template":
        return "template-element"
    if "isindex" in sset:
        return "isindex-legacy"
    if "command" in sset:
        return "command-in-head"
    if "menuitem" in aset:
        return "menuitem-legacy"
    if "dialog" in aset:
        return "dialog-closes-p" if ("p" in sset or "p" in en) else "dialog:" + ",".join(allnames)
    if "search" in aset:
        return "search-element(2023)"
    if sset & {"rb", "rtc"}:
        return "rb-rtc"
    if mt == stt and msw != ssw:
        return "tokenizer-switch-only:" + ",".join(sorted(aset))
    atn = set(attr_names(toks))
    if "xml:base" in atn:
        return "foreign-attr:xml:base"
    if atn & SVG_LEGACY_ATTRS and "svg" in sset:
        return "svg-attr-legacy:" + ",".join(sorted(atn & SVG_LEGACY_ATTRS))
    if "fedropshadow" in sset:
        return "svg-tagname:feDropShadow"
    fc = foreign_children(toks)
    # newline after pre / listing / textarea (token based: the LF may come from a character reference)
    nl_after = None
    for i, t in enumerate(toks):
        if t["type"] == TOK["StartTag"] and t["name"] in ("pre", "listing", "textarea"):
            rest = toks[i + 1:]
            if any(t2["type"] in (TOK["Characters"], TOK["SpaceCharacters"]) and "\n" in t2["data"] for t2 in rest):
                nl_after = t["name"]
            break
    if nl_after is None and cont in ("pre", "listing", "textarea") and any(
            t2["type"] in (TOK["Characters"], TOK["SpaceCharacters"]) and "\n" in t2["data"] for t2 in toks):
        nl_after = cont
    if nl_after:
        if "table" in sset or cont in TABLE_CONTAINERS or "select" in sset or cont == "select":
            return "drop-newline-lost-in-table-modes:" + nl_after
        return "drop-newline-after-non-LF-token:" + nl_after
    if cont is not None and fc and (set(fc) & BREAKOUT):
        return "foreign-breakout-fragment-case"
    if cont == "form" or (cont is None and False):
        return "fragment-form-context"
    if "button" in sset and st.count("button") >= 2 and ("table" in sset or cont in TABLE_CONTAINERS):
        return "in-table-button-token-dropped"
    if st.count("table") >= 2 and cont is not None or (cont in TABLE_CONTAINERS and "table" in sset):
        return "fragment-table-start-tag-in-table"
    if cont in ("td", "th") and "select" in sset:
        return "fragment-td-th-context-in-cell"
    if not (set(fc) & (HTML_SIGNIFICANT - {"a", "b", "u", "nobr", "title"})) and sset & FOREIGN_SPECIAL and (sset & {"svg", "math"}) and (en or "a" in sset or "nobr" in sset):
        return "special-category:foreign(%s)" % ",".join(sorted(sset & FOREIGN_SPECIAL))
    if fc and (set(fc) & HTML_SIGNIFICANT):
        return "foreign-name-confusion:" + ",".join(sorted(set(fc) & HTML_SIGNIFICANT))
    chars_run = any(t["type"] == TOK["Characters"] and re.search(r"[^\t\n\f\r ][\t\n\f\r ]", t["data"]) for t in toks)
    has_chars = any(t["type"] in (TOK["Characters"], TOK["SpaceCharacters"]) for t in toks)
    if ("frameset" in sset or cont == "frameset") and chars_run:
        return "chars-run-whitespace:frameset-modes"
    if cont == "colgroup" and chars_run:
        return "chars-run-whitespace:in-column-group"
    if "br" in en and "frameset" in sset:
        return "end-tag-br-frameset-ok"
    nform = sum(1 for n in st if n in FORMATTING)
    if ("table" in sset or cont in TABLE_CONTAINERS) and has_chars and not ("table" in sset and (sset & {"li", "dd", "dt", "option", "optgroup"})):
        return "in-table-text-although-current-node-not-table"
    if "table" in sset and (sset & {"li", "dd", "dt", "option", "optgroup"}):
        return "in-table-foster-parenting-switched-off-by-nested-end-tag"
    nspecial = sum(1 for n in st if n in SPEC_SPECIAL)
    if nform >= 2 and nspecial >= 8:
        return "adoption-agency-bookmark(outer-loop-limit)"
    if nform >= 3 and len(st) >= 6 and nspecial >= 1:
        return "adoption-agency-inner-loop>3"
    if sset & SPECIAL_MISSING:
        return "special-category:" + ",".join(sorted(sset & SPECIAL_MISSING))
    return "other:%s|%s" % (cont if cont is not None else "-", ",".join(allnames))


# ------------------------------------------------------------------------------------------------
# strict classification (used by the C01 check): a list of COMPONENT labels, or None = unexplained

STRICT_LABEL = dict(SWITCHES)
STRICT_LABEL.update({"charsrun": "chars-run-whitespace", "nameonly": "foreign-name-confusion",
                     "wsnorec": "whitespace-without-AFE-reconstruct"})
TEMPLATE_TAG = re.compile(r"</?template\b[^>]*>", re.I)
ISINDEX_TAG = re.compile(r"</?isindex\b[^>]*>", re.I)


def component_labels(flag, case, toks):
    st, _en = names(toks)
    if flag == "special":
        hit = sorted(set(st) & {"main", "summary", "figcaption", "hgroup"})
        return ["special-category:" + n for n in hit] or ["special-category:foreign"]
    if flag == "scriptctx":
        return ["fragment-initial-tokenizer-state:" + str(case[1]).lower()]
    return [STRICT_LABEL[flag]]


def strict(case, toks, model, spec, explained, same_after, single_only=False):
    """explained(flags) -> does the spec with these NON-STANDARD switches equal the model?
    same_after(case') -> is there NO difference on the modified case?  Returns a list of labels or None."""
    if model.startswith("err ") or spec.startswith("err "):
        return None
    for flag, _ in SWITCHES:
        if explained([flag]):
            return component_labels(flag, case, toks)
    if single_only:
        return None
    allflags = [f for f, _ in SWITCHES]
    if explained(allflags):
        need = list(allflags)
        for f in allflags:
            trial = [x for x in need if x != f]
            if explained(trial):
                need = trial
        out = []
        for f in need:
            out.extend(component_labels(f, case, toks))
        return out
    text, container, scripting, ns = case
    cont = container.lower() if container is not None else None
    # template: the witness has a template tag / context AND without them the difference disappears
    if TEMPLATE_TAG.search(text) or cont == "template":
        c2 = (TEMPLATE_TAG.sub("", text), "div" if cont == "template" else container, scripting, ns)
        if same_after(c2):
            return ["template-element"]
    if ISINDEX_TAG.search(text):
        if same_after((ISINDEX_TAG.sub("", text), container, scripting, ns)):
            return ["isindex-legacy"]
    return None
