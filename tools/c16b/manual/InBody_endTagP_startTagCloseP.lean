theorem Ob_InBody_endTagP_startTagCloseP_aux : ∀ depth b tok, Ob (InBody_endTagP_startTagCloseP depth b tok)
  | 0, _, _ => by unfold InBody_endTagP_startTagCloseP; obh_auto
  | depth + 1, true, tok => by
    unfold InBody_endTagP_startTagCloseP
    haveI : ∀ b t, Ob (InBody_endTagP_startTagCloseP depth b t) := Ob_InBody_endTagP_startTagCloseP_aux depth
    obh_auto
  | depth + 1, false, tok => by
    unfold InBody_endTagP_startTagCloseP
    haveI : ∀ b t, Ob (InBody_endTagP_startTagCloseP depth b t) := Ob_InBody_endTagP_startTagCloseP_aux depth
    obh_auto

instance Ob_InBody_endTagP_startTagCloseP (depth b tok) : Ob (InBody_endTagP_startTagCloseP depth b tok) :=
  Ob_InBody_endTagP_startTagCloseP_aux depth b tok
