theorem Ob_InBody_startTagListItem {r : Rec} (hr : RecOb r) (tok : Token) :
    Ob (InBody_startTagListItem r tok) := by
  unfold InBody_startTagListItem
  haveI := fun site stopNames l => Ob_InBody_startTagListItem_loop hr site stopNames l
  obh_auto
