theorem Ob_InForeignContent_popTo_aux (node : NodeId) : ∀ fuel, Ob (InForeignContent_popTo node fuel)
  | 0 => by unfold InForeignContent_popTo; obh_auto
  | fuel + 1 => by
    unfold InForeignContent_popTo
    haveI := Ob_InForeignContent_popTo_aux node fuel
    obh_auto

instance Ob_InForeignContent_popTo (node fuel) : Ob (InForeignContent_popTo node fuel) :=
  Ob_InForeignContent_popTo_aux node fuel

theorem Ob_InForeignContent_processEndTag_loop {r : Rec} (hr : RecOb r) (tok : Token) (name : Str) :
    ∀ fuel (nodeIndex : Int) (node : NodeId), Ob (InForeignContent_processEndTag_loop r tok name fuel nodeIndex node)
  | 0, _, _ => by unfold InForeignContent_processEndTag_loop; obh_auto
  | fuel + 1, nodeIndex, node => by
    unfold InForeignContent_processEndTag_loop
    haveI := Ob_InTableText_flushCharacters hr
    haveI : ∀ ix nd, Ob (InForeignContent_processEndTag_loop r tok name fuel ix nd) :=
      Ob_InForeignContent_processEndTag_loop hr tok name fuel
    obh_auto
