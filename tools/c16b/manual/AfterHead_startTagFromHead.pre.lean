instance Ob_AfterHead_startTagFromHead_loop : ∀ l, Ob (AfterHead_startTagFromHead.loop l)
  | [] => by unfold AfterHead_startTagFromHead.loop; obh_auto
  | node :: rest => by
    unfold AfterHead_startTagFromHead.loop
    haveI := Ob_AfterHead_startTagFromHead_loop rest
    obh_auto
