instance Ob_InBody_endTagBody_loop : ∀ l, Ob (InBody_endTagBody.loop l)
  | [] => by unfold InBody_endTagBody.loop; obh_auto
  | node :: rest => by
    unfold InBody_endTagBody.loop
    haveI := Ob_InBody_endTagBody_loop rest
    obh_auto
