theorem Ob_InBody_startTagListItem_loop {r : Rec} (hr : RecOb r) (site : String)
    (stopNames : List Str) : ∀ l, Ob (InBody_startTagListItem.loop r site stopNames l)
  | [] => by unfold InBody_startTagListItem.loop; obh_auto
  | node :: rest => by
    unfold InBody_startTagListItem.loop
    haveI := Ob_InBody_startTagListItem_loop hr site stopNames rest
    obh_auto
