instance Ob_InBody_endTagHeading_anyInScope : ∀ l, Ob (InBody_endTagHeading.anyInScope l)
  | [] => by unfold InBody_endTagHeading.anyInScope; obh_auto
  | item :: rest => by
    unfold InBody_endTagHeading.anyInScope
    haveI := Ob_InBody_endTagHeading_anyInScope rest
    obh_auto
