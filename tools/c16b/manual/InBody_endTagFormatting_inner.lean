theorem Ob_InBody_endTagFormatting_inner_aux (fe fb : NodeId) : ∀ n s, Ob (InBody_endTagFormatting_inner fe fb n s)
  | 0, s => by unfold InBody_endTagFormatting_inner; obh_auto
  | n + 1, s => by
    unfold InBody_endTagFormatting_inner
    haveI : ∀ s, Ob (InBody_endTagFormatting_inner fe fb n s) := Ob_InBody_endTagFormatting_inner_aux fe fb n
    obh_auto

instance Ob_InBody_endTagFormatting_inner (fe fb n s) : Ob (InBody_endTagFormatting_inner fe fb n s) :=
  Ob_InBody_endTagFormatting_inner_aux fe fb n s
