instance Ob_orM (a b : M Bool) [Ob a] [Ob b] : Ob (TB.orM a b) := by unfold TB.orM; obh_auto
