instance Ob_InBody_processEOF_loop : ∀ l, Ob (InBody_processEOF.loop l)
  | [] => by unfold InBody_processEOF.loop; obh_auto
  | node :: rest => by
    unfold InBody_processEOF.loop
    haveI := Ob_InBody_processEOF_loop rest
    obh_auto
