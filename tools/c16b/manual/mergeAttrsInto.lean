instance Ob_mergeAttrsInto (idx : Nat) (site : String) : ∀ l, Ob (mergeAttrsInto idx site l)
  | [] => by unfold mergeAttrsInto; obh_auto
  | (attr, value) :: rest => by
    unfold mergeAttrsInto
    haveI := Ob_mergeAttrsInto idx site rest
    obh_auto
