instance Ob_InBody_addFormattingElement_scan (element : NodeId) :
    ∀ l acc, Ob (InBody_addFormattingElement.scan element l acc)
  | [], acc => by unfold InBody_addFormattingElement.scan; obh_auto
  | none :: _, acc => by unfold InBody_addFormattingElement.scan; obh_auto
  | some node :: rest, acc => by
    unfold InBody_addFormattingElement.scan
    haveI : ∀ acc, Ob (InBody_addFormattingElement.scan element rest acc) :=
      Ob_InBody_addFormattingElement_scan element rest
    obh_auto
