instance Ob_InBody_endTagFormatting_outer_findBlock : ∀ l, Ob (InBody_endTagFormatting_outer.findBlock l)
  | [] => by unfold InBody_endTagFormatting_outer.findBlock; obh_auto
  | e :: rest => by
    unfold InBody_endTagFormatting_outer.findBlock
    haveI := Ob_InBody_endTagFormatting_outer_findBlock rest
    obh_auto

set_option maxHeartbeats 2000000 in
theorem Ob_InBody_endTagFormatting_outer_aux (tok : Token) : ∀ n, Ob (InBody_endTagFormatting_outer tok n)
  | 0 => by unfold InBody_endTagFormatting_outer; obh_auto
  | n + 1 => by
    unfold InBody_endTagFormatting_outer
    haveI := Ob_InBody_endTagFormatting_outer_aux tok n
    obh_auto

instance Ob_InBody_endTagFormatting_outer (tok n) : Ob (InBody_endTagFormatting_outer tok n) :=
  Ob_InBody_endTagFormatting_outer_aux tok n
