instance Ob_InBody_endTagOther_loop (site : String) (d : TagData) : ∀ l, Ob (InBody_endTagOther.loop site d l)
  | [] => by unfold InBody_endTagOther.loop; obh_auto
  | node :: rest => by
    unfold InBody_endTagOther.loop
    haveI := Ob_InBody_endTagOther_loop site d rest
    obh_auto
