#!/bin/bash
# usage: tools/seedtest.sh <seed-id> <property> [extra properties to run...]
# seed files are expected in /verif/seeded/<seed-id>/ (patch.diff, demo.py, meta.json)
set -u
cd "$(dirname "$0")/.."
ID=$1; shift
D=seeded/$ID
[ -f $D/patch.diff ] || { echo "no $D/patch.diff"; exit 2; }
git -C /repo diff --quiet || { echo "/repo is dirty"; exit 2; }
echo "== demo on the unchanged tree"; PYTHONPATH=/repo /venv/bin/python $D/demo.py >/tmp/seed_clean.out 2>&1; echo "exit $?"; tail -2 /tmp/seed_clean.out
git -C /repo apply "$(pwd)/$D/patch.diff" || { echo "patch does not apply"; exit 2; }
echo "== demo on the changed tree"; PYTHONPATH=/repo /venv/bin/python $D/demo.py >/tmp/seed_mut.out 2>&1; echo "exit $?"; tail -3 /tmp/seed_mut.out
echo "== test suite on the changed tree"; (cd /repo && /venv/bin/python -m pytest -q -p no:cacheprovider 2>&1 | tail -1)
export H5_EVIDENCE_DIR="$(pwd)/.run/seed_evidence"   # never overwrite the committed evidence with a run on a changed tree
mkdir -p "$H5_EVIDENCE_DIR"
for P in "$@"; do
  echo "== ./check $P on the changed tree"
  ./check $P > /tmp/seed_check_$P.out 2>&1; echo "exit $?"
  grep -E "^VIOLATION|no longer checks|tier=" /tmp/seed_check_$P.out | head -8
done
git -C /repo checkout -- .
git -C /repo status --short | head -3
