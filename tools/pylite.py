"""PyLite: Python-AST -> Lean 4 translator for the restricted subset of DESIGN 3.2 / appendix B.

A translated function is a Lean `def` in `Except PyErr` with the *same branch structure*
as the Python source.  Types of parameters/locals are declared by the caller:

  'str'   Python str            -> H5.Str (List Nat)
  'ostr'  str or None           -> Option Str
  'otok'  token dict or None    -> Option Tok
  'bool'

Anything outside the subset raises TranslationError naming construct and line; the
caller treats that as a broken obligation (DESIGN section 4), never as success.
"""
import ast


class TranslationError(Exception):
    pass


def lean_str(s):
    """Lean literal of a Python str as a list of code points, with the text as a comment."""
    return "[" + ", ".join(str(ord(c)) for c in s) + "]"


def lean_str_c(s):
    safe = "".join(c if 32 <= ord(c) < 127 and c not in "-/\\" else "?" for c in s)
    return lean_str(s) + " /- " + safe + " -/"


class FnTranslator:
    def __init__(self, fn_ast, name, params, locals_=None, ret="bool", consts=None):
        self.fn = fn_ast
        self.name = name
        self.env = dict(params)
        self.env.update(locals_ or {})
        self.params = params
        self.ret = ret
        self.tmp = 0
        self.consts = consts or {}

    def err(self, node, what):
        raise TranslationError("%s: line %d: unsupported %s" % (self.name, getattr(node, "lineno", 0), what))

    def fresh(self):
        self.tmp += 1
        return "t%d" % self.tmp

    # ---- expressions: return (binds, leanexpr, type); binds = [(var, monadic expr)]
    def expr(self, e):
        if isinstance(e, ast.Constant):
            if isinstance(e.value, bool):
                return [], ("true" if e.value else "false"), "bool"
            if e.value is None:
                return [], "none", "none"
            if isinstance(e.value, str):
                return [], lean_str_c(e.value), "str"
            self.err(e, "constant %r" % (e.value,))
        if isinstance(e, ast.Name):
            if e.id in self.env:
                return [], e.id + "_", self.env[e.id]
            self.err(e, "name %s" % e.id)
        if isinstance(e, ast.Subscript):
            base = e.value
            key = e.slice
            if isinstance(base, ast.Name) and self.env.get(base.id) == "otok" and isinstance(key, ast.Constant):
                v = self.fresh()
                if key.value == "name":
                    return [(v, "otokName %s_" % base.id)], v, "str"
                if key.value == "type":
                    return [(v, "otokTypeE %s_" % base.id)], v, "str"
            # attr = ((namespace, name), value)  -- items() of a walker attribute dict
            if (isinstance(base, ast.Subscript) and isinstance(base.value, ast.Name)
                    and self.env.get(base.value.id) == "attr" and isinstance(base.slice, ast.Constant)
                    and base.slice.value == 0 and isinstance(key, ast.Constant) and key.value in (0, 1)):
                if key.value == 0:
                    return [], "%s_.ns" % base.value.id, "ostr"
                return [], "%s_.name" % base.value.id, "str"
            if (isinstance(base, ast.Name) and self.env.get(base.id) == "attr" and isinstance(key, ast.Constant)
                    and key.value == 1):
                return [], "%s_.value" % base.id, "str"
            self.err(e, "subscript")
        if isinstance(e, ast.Tuple) and len(e.elts) == 2 and not all(isinstance(x, ast.Constant) for x in e.elts):
            parts = [self.expr(x) for x in e.elts]
            if any(b for b, _, _ in parts) or any(t != "str" for _, _, t in parts):
                self.err(e, "tuple of non-str values")
            return [], "(%s, %s)" % (parts[0][1], parts[1][1]), "strpair"
        if (isinstance(e, ast.BoolOp) and isinstance(e.op, ast.Or) and len(e.values) == 2
                and isinstance(e.values[1], ast.Constant) and isinstance(e.values[1].value, str)):
            b, c, t = self.expr(e.values[0])
            if t == "ostr" and not b:
                # Python `x or lit`: x when truthy (a non-empty str), else lit
                return [], "(match %s with | some s => if s.isEmpty then %s else s | none => %s)" % (
                    c, lean_str_c(e.values[1].value), lean_str_c(e.values[1].value)), "str"
        if isinstance(e, (ast.Tuple, ast.List, ast.Set)):
            items = []
            for x in e.elts:
                b, c, t = self.expr(x)
                if b or t != "str":
                    self.err(e, "non-literal collection")
                items.append(c)
            return [], "[" + ", ".join(items) + "]", "strlist"
        if isinstance(e, ast.BoolOp):
            # the idiom  X and X["type"] or None
            if (isinstance(e.op, ast.Or) and len(e.values) == 2 and isinstance(e.values[1], ast.Constant)
                    and e.values[1].value is None and isinstance(e.values[0], ast.BoolOp)
                    and isinstance(e.values[0].op, ast.And) and len(e.values[0].values) == 2):
                a, b = e.values[0].values
                if (isinstance(a, ast.Name) and self.env.get(a.id) == "otok" and isinstance(b, ast.Subscript)
                        and isinstance(b.value, ast.Name) and b.value.id == a.id
                        and isinstance(b.slice, ast.Constant) and b.slice.value == "type"):
                    # token type names are non-empty strings, so `and/or` keeps the value
                    return [], "otokType %s_" % a.id, "ostr"
            return self.boolop(e)
        if isinstance(e, ast.UnaryOp) and isinstance(e.op, ast.Not):
            b, c, t = self.truthy(e.operand)
            return b, "(!%s)" % c, "bool"
        if isinstance(e, ast.Compare):
            return self.compare(e)
        self.err(e, type(e).__name__)

    def truthy(self, e):
        b, c, t = self.expr(e)
        if t == "bool":
            return b, c, t
        if t == "otok":
            return b, "(%s).isSome" % c, "bool"     # a token dict is never empty
        if t == "ostr":
            return b, "(%s).isSome" % c, "bool"     # only used on non-empty type names
        if t == "str":
            return b, "(!(%s).isEmpty)" % c, "bool"
        self.err(e, "truthiness of %s" % t)

    def boolop(self, e):
        # short-circuit evaluation in a Boolean context; right operands with binds are guarded
        parts = [self.truthy(v) for v in e.values]
        is_and = isinstance(e.op, ast.And)
        # fold from the right
        b_last, c_last, _ = parts[-1]
        acc_b, acc_c = b_last, c_last
        for (b, c, _) in reversed(parts[:-1]):
            if acc_b:
                inner = "(do " + "; ".join("let %s ← %s" % bc for bc in acc_b) + "; pure %s)" % acc_c
                v = self.fresh()
                if is_and:
                    m = "(if %s then %s else pure false)" % (c, inner)
                else:
                    m = "(if %s then pure true else %s)" % (c, inner)
                acc_b, acc_c = b + [(v, m)], v
            else:
                acc_b, acc_c = b, "(%s %s %s)" % (c, "&&" if is_and else "||", acc_c)
        return acc_b, acc_c, "bool"

    def compare(self, e):
        if len(e.ops) != 1:
            self.err(e, "chained comparison")
        op = e.ops[0]
        lb, lc, lt = self.expr(e.left)
        rb, rc, rt = self.expr(e.comparators[0])
        binds = lb + rb
        neg = isinstance(op, (ast.NotEq, ast.NotIn, ast.IsNot))
        if isinstance(op, (ast.Eq, ast.NotEq)):
            if lt == "str" and rt == "str":
                c = "(%s == %s)" % (lc, rc)
            elif lt == "ostr" and rt == "str":
                c = "(%s == some %s)" % (lc, rc)
            elif lt == "ostr" and rt == "none":
                c = "(%s == none)" % lc
            else:
                self.err(e, "== between %s and %s" % (lt, rt))
        elif isinstance(op, (ast.Is, ast.IsNot)):
            if rt == "none" and lt in ("ostr", "otok"):
                c = "(%s).isNone" % lc
            else:
                self.err(e, "is between %s and %s" % (lt, rt))
        elif isinstance(op, (ast.In, ast.NotIn)):
            if rt == "strlist" and lt == "str":
                c = "(List.elem %s %s)" % (lc, rc)
            elif rt == "strlist" and lt == "ostr":
                c = "(List.elem %s (List.map some %s))" % (lc, rc)
            elif rt == "str" and lt == "str":
                c = "(Str.isInfix %s %s)" % (lc, rc)          # Python: substring test
            else:
                self.err(e, "in between %s and %s" % (lt, rt))
        else:
            self.err(e, "comparison operator")
        if neg:
            c = "(!%s)" % c
        return binds, c, "bool"

    # ---- statements with explicit continuation
    def block(self, stmts, k, ind):
        if not stmts:
            return k(ind)
        s, rest = stmts[0], stmts[1:]
        pad = "  " * ind
        if isinstance(s, ast.Expr) and isinstance(s.value, ast.Constant):
            return self.block(rest, k, ind)            # docstring
        if isinstance(s, ast.Pass):
            return self.block(rest, k, ind)
        if isinstance(s, ast.Return):
            if s.value is None:
                self.err(s, "bare return")
            b, c, t = self.truthy(s.value) if self.ret == "bool" else self.expr(s.value)
            if t != self.ret:
                self.err(s, "return type %s (expected %s)" % (t, self.ret))
            out = "".join("%slet %s ← %s\n" % (pad, v, m) for v, m in b)
            return out + "%spure %s\n" % (pad, c)
        if isinstance(s, ast.Assign):
            if len(s.targets) != 1 or not isinstance(s.targets[0], ast.Name):
                self.err(s, "assignment target")
            tgt = s.targets[0].id
            b, c, t = self.expr(s.value)
            if tgt in self.env and self.env[tgt] != t:
                self.err(s, "assignment changes type of %s (%s -> %s)" % (tgt, self.env[tgt], t))
            self.env[tgt] = t
            out = "".join("%slet %s ← %s\n" % (pad, v, m) for v, m in b)
            out += "%slet %s_ := %s\n" % (pad, tgt, c)
            return out + self.block(rest, k, ind)
        if isinstance(s, ast.If):
            b, c, t = self.truthy(s.test)
            k2 = (lambda i: self.block(rest, k, i)) if rest else k
            out = "".join("%slet %s ← %s\n" % (pad, v, m) for v, m in b)
            out += "%sif %s then do\n" % (pad, c)
            out += self.block(s.body, k2, ind + 1)
            out += "%selse do\n" % pad
            out += self.block(s.orelse, k2, ind + 1)
            return out
        self.err(s, type(s).__name__)

    def translate(self, fallthrough="pure false"):
        sig = " ".join("(%s_ : %s)" % (p, {"str": "Str", "ostr": "Option Str", "otok": "Option Tok",
                                           "bool": "Bool", "attr": "Attr"}[t]) for p, t in self.params)
        rett = {"bool": "Bool", "str": "Str", "strpair": "Str × Str"}[self.ret]
        body = self.block(self.fn.body, lambda i: "  " * i + fallthrough + "\n", 1)
        return "def %s %s : Except PyErr (%s) := do\n%s" % (self.name, sig, rett, body)


def find_function(tree, qualname):
    """qualname like 'Filter.is_optional_start' or '_attr_key'"""
    parts = qualname.split(".")
    nodes = tree.body
    node = None
    for p in parts:
        node = next((n for n in nodes if isinstance(n, (ast.FunctionDef, ast.ClassDef)) and n.name == p), None)
        if node is None:
            raise TranslationError("function %s not found" % qualname)
        nodes = node.body
    return node
