#!/usr/bin/env python3
"""Writes MANIFEST.json from the per-property registry below (kept next to the code so the two stay in step)."""
import json
import os

VERIF = os.path.dirname(os.path.dirname(os.path.abspath(__file__)))

CLAIMED = {
    "C13": dict(
        category="proof",
        text="Lean theorems over the rule functions is_optional_start/is_optional_end TRANSLATED from /repo on every run "
             "(never raise; 'omissible' only for the 5 start / 18 end names, for all strings) and over the hand model of the "
             "filter loop (only removes; removed tokens are attribute-less start tags / end tags of those names; order kept); "
             "model tied by exhaustive translation validation and differential runs against the real Filter. "
             "The position clause (rule-by-rule agreement with the HTML syntax) and the re-parse clause are decided by "
             "search on the real code only (see DESIGN 6/C13).",
        note="Lean kernel; propext/Classical.choice/Quot.sound; PyLite translator; hand model of slider/__iter__.",
        technique="Lean 4 proof over PyLite-translated rules + differential correspondence",
        design="6/C13"),
    "C17": dict(
        category="proof",
        text="Lean theorems over the hand model of whitespace.Filter (class of SPACES_REGEX and preserve set extracted each run): "
             "collapse = 'drop each maximal run, emit one space' (reference function), non-whitespace preserved, shape preserved, "
             "preserve regions identical, idempotent; model tied by differential runs on generated and walked streams.",
        note="Lean kernel; standard axioms; hand model tied by correspondence op ws; Python re semantics of '[class]+'.",
        technique="Lean 4 proof + differential correspondence",
        design="6/C17"),
    "C18": dict(
        category="proof",
        text="Lean theorems: translated _attr_key equals the documented key and never raises; sort is a permutation, "
             "sorted by the key, key injective on lint-clean attributes, result independent of incoming order; "
             "hand model of the loop tied by exhaustive permutations + random streams against the real Filter.",
        note="Lean kernel; standard axioms; sorted() modelled as stable merge sort; PyLite translator.",
        technique="Lean 4 proof over translated key + differential correspondence",
        design="6/C18"),
    "C20": dict(
        category="proof",
        text="Lean theorems over the hand model of InfosetFilter with the regular-expression classes extracted exactly "
             "from the compiled patterns each run: the two name classes are exactly the complements (BMP) of the XML 1.0 "
             "Name productions quoted in the module (decided on the range lists in the kernel and lifted to every character "
             "by a proved complement lemma); toXmlName is total on non-empty names, yields a legal name for every BMP name, "
             "is the identity on legal names, and the sequential str.replace loop equals the simultaneous substitution for "
             "ANY set iteration order; coerced comments have no '--'/trailing '-' (preventDoubleDashComments); coerced "
             "pubids contain only PubidChars. The inverse clause is proved too (C20b): for BMP names "
             "without a U+hex escape pattern fromXmlName(toXmlName(name)) = name, hence injectivity; the hypothesis is shown "
             "necessary by a witness.",
        note="Lean kernel; standard axioms; Python re/str.replace/set semantics modelled; expat used only as an oracle.",
        technique="Lean 4 proof (kernel-decided range tables + lemmas) + differential correspondence",
        design="6/C20"),
    "C14": dict(
        category="proof",
        text="Lean theorems: html5lib's named reference table equals the standard's (all 2231 entries, decided in the kernel "
             "against CPython's independent html.entities.html5, both re-derived every run); numeric references decode to the "
             "standard's character for EVERY natural number (range split by omega + the table below 160 decided in the kernel), "
             "always a single scalar value. Named references (C14b), for ANY table satisfying decidable table facts (keys non-empty, ';' only "
             "last, strictly sorted — proved for the extracted table in the kernel): a name ending in ';' decodes to exactly "
             "its value, consuming exactly the name, whatever follows (the 'serialized text decodes back' direction); the "
             "general result equals the longest-match specification incl. the attribute-value exception and the pushed-back "
             "remainder; and html5lib's consumeNamedEntity agrees with the WHATWG spec tokenizer's lookup. The model "
             "H5.Model.CharRef is tied by exact token comparison on every entity name in five contexts; the numeric-fallback "
             "round trip is a recorded finding.",
        note="Lean kernel; standard axioms; html.entities.html5 as the standard's table; bisect trie modelled abstractly.",
        technique="Lean 4 proof (kernel-decided tables + arithmetic) + exhaustive differential correspondence",
        design="6/C14"),
    "C02": dict(
        category="proof",
        text="Hand model of the whole tokenizer in Lean (one function per state method, explicit Python exception sites, "
             "explicit fuel) tied to the real tokenizer by exact comparison (tokens, chunking, parse errors, number of state "
             "calls, generator-pull interface) on ~60k inputs per quick run / >1M thorough, all 67 states reached. "
             "Proved: tag/attribute names are lower-cased exactly on A-Z (table lifted to all code points); duplicate "
             "attributes: the first one wins and first-occurrence order is kept (dict(raw)+update(raw[::-1]) = dedupFirst, "
             "and emitCurrentToken emits exactly that). The simulation against the WHATWG state machine is not proved; the WHATWG clause is decided "
             "by differential search (partial).",
        note="Lean kernel; standard axioms; hand model tied by correspondence; stream layer excluded (C05).",
        technique="Lean 4 model + lemmas; differential correspondence against the real tokenizer",
        design="6/C02"),
    "C16": dict(
        category="proof",
        text="Lean theorems over the whole parser model (tokenizer model + tree-construction model with the strict flag: every "
             "parse-error primitive records the error and then raises ParseError when strict, as HTMLParser.parseError does), "
             "for EVERY configuration, input and fragment container, with L the lenient and S the strict run: "
             "C16_strict_ok (L ends with no recorded error -> S returns the same tree), C16_strict_raises (L records e first -> "
             "S raises ParseError(e)), C16_strict_iff_ok (S raises ParseError iff L's error list is non-empty), "
             "C16_lenient_never_parseError, C16_strict_of_lenient_exception, C16_strict_cases. Proved by a simulation: every one "
             "of the 237 handlers, the dispatcher, the reprocess and token loops reach the flag and the error list only through "
             "the parse-error primitives (class Ob, instantiated by generated lemma files), and the tokenizer never raises "
             "ParseError. Also decided in the kernel over the parse-error sites extracted from the AST on every run: every "
             "site's literal code has a message template in E and supplies every variable the template mentions (so strict "
             "mode can only raise ParseError); exactly two forwarding sites exist. The model is tied by the strict-mode "
             "correspondence op parsex (real HTMLParser(strict=True/False) vs model: tree, codes, code raised). Positions "
             "(line, column) are not modelled: the position clause and 'conforming documents record no errors' are decided by "
             "search on the real code.",
        note="Lean kernel; standard axioms; hand model tied by correspondence; positions not modelled; %-formatting semantics assumed.",
        technique="Lean 4 simulation proof (strict vs lenient run of the parser model) + extracted error-site table + strict/lenient correspondence on the real code",
        design="6/C16"),
    "C11": dict(
        category="proof",
        text="Lean theorem C11_walk: for EVERY tree the non-recursive walker (hand model of NonRecursiveTreeWalker.__iter__ "
             "over a zipper cursor) terminates within 2*size+1 iterations and emits exactly the recursive token stream of "
             "the tree (invariant `remaining` + explicit decreasing measure). Model tied to the real walkers by op walk on "
             "trees read by direct traversal from real minidom/ElementTree objects (parsed and hand-made). Also proved (C11b): the stream of a "
             "well-formed tree passes the model of lint.Filter (balanced, void elements only as EmptyTag, names non-empty), "
             "text is split into at most three non-empty pieces whose concatenation is the text, and REBUILDING the stream "
             "gives back the walked tree up to text normalisation (general case). etree==dom stream equality is decided on "
             "the real code.",
        note="Lean kernel; standard axioms; per-backend cursor code abstracted to a zipper (correspondence only).",
        technique="Lean 4 proof (zipper invariant + termination measure) + differential correspondence",
        design="6/C11"),
    "C19": dict(
        category="proof",
        text="Lean theorems over the hand model of to_sax composed with the proved walker (C11): for every tree whose void "
             "elements are childless the adapter never raises and its event list is startDocument, the extracted prefix "
             "mappings, exactly the recursive SAX rendering of the tree (elements with namespace and attributes, text in "
             "document order; comments/doctype omitted), the prefixes ended, endDocument; the element events are well nested "
             "(stack discipline); every adjusted foreign attribute has a qualified name (kernel-decided on the extracted "
             "tables). Model tied by op sax with a recording ContentHandler; rebuild-from-events checked on the real code.",
        note="Lean kernel; standard axioms; hand model of to_sax; xml.sax AttributesNSImpl semantics assumed.",
        technique="Lean 4 proof (composition with C11) + differential correspondence",
        design="6/C19"),
    "C15": dict(
        category="proof",
        text="Lean theorem C15_inject over the hand model of inject_meta_charset (tied by op inject): for every stream with one "
             "<head>...</head> pair and no other tag named head, the output is the input with every meta declaration rewritten "
             "to the encoding, exactly one <meta charset> injected as first child of head iff no declaration occurs before "
             "</head>, and every other token unchanged and in order (closed form, all token lists). The byte-level clauses "
             "(bytes declare the encoding, unencodable characters as references, re-parse gives the same tree) depend on "
             "Python codecs and the prescan and are decided by search on the real code over encodings x head layouts (partial).",
        note="Lean kernel; standard axioms; hand model tied by correspondence; codecs/webencodings not modelled.",
        technique="Lean 4 proof (closed form of the filter) + differential correspondence + byte round-trip search",
        design="6/C15"),
    "C08": dict(
        category="proof",
        text="Hand model of HTMLSerializer.serialize in Lean (quoting classes, void/raw-text/boolean tables extracted each "
             "run), tied by op ser over random option combinations on walked parses. Proved: the escaping lemmas "
             "(escaped text contains no '<'/'>', quoted values never contain their quote character, a value is written "
             "unquoted only if no character of the extracted class occurs in it; both classes contain every character that "
             "would end or corrupt an unquoted value; '--' in comments and '</' in raw text are reported). Proved as well (C08b): text written by the "
             "serializer in the data state (escape s, any s without NUL/CR) is re-tokenised by the WHATWG spec tokenizer to "
             "exactly the text s — the macro-step lemmas for plain characters and for &amp; &lt; &gt; through the "
             "character-reference states, induction with fuel, and canon. Proved as well (C08c, 185 theorems): quoted and "
             "unquoted attribute values, whole start tags with attribute lists (all solidus forms), end tags, comments and "
             "doctypes (name, PUBLIC/SYSTEM identifiers) written by the model re-tokenise through the WHATWG spec tokenizer to "
             "exactly the token given, under explicit decidable well-formedness predicates each shown necessary by a kernel "
             "counter-example; C08_stream_roundtrip composes them for any stream of such tokens outside raw-text/RCDATA "
             "elements (no serializer error, tokenize(output) = the stream). Raw-text/RCDATA element content, foreign "
             "content and the option-dependent cases are decided by search: the real output is re-tokenised by the "
             "independent WHATWG tokenizer spec driven by the known element context and compared with the tokens given; "
             "failing streams are shrunk and classified.",
        note="Lean kernel; standard axioms; H5.Spec.Tokenizer written from the standard from memory; lexical.py plan.",
        technique="Lean 4 model + escaping lemmas; differential correspondence; retokenisation oracle with shrinking",
        design="6/C08"),
    "C01": dict(
        category="translation_validation",
        text="Hand model of the whole tree-construction stage in Lean (arena DOM, 23 phases, one function per Python "
             "handler, dispatch through tables extracted from /repo each run, every exception site and loop explicit) "
             "validated against the real parser by exact comparison of tree, parse-error codes + datavars, tokenizer "
             "state switches and cdataAllowed after every token on ~17k inputs per quick run (>1.3M in the work package; "
             "257/258 phase functions reached). The model is the reference for the search: a concrete input on which the "
             "real parser differs from it is reported as the failing input. Only table facts are proved; no simulation "
             "against an independent transcription of the standard exists yet, and the recorded deviations of the pinned "
             "tree from the standard (no template, older special set, ...) are findings, not checked by theorem. Proved as well (C01b, 36 theorems): for every document tree t of the conforming grammar G1 (= G0 of C07 minus template/rb/rtc) and EVERY token sequence for t (text cut into arbitrary non-empty pieces), the independent WHATWG Spec.TreeConstruction and html5lib's tree-construction model both build exactly t (the model with no parse error) — C01_spec_builds_G1, C01_model_builds_G0, C01_model_eq_spec_on_G1: the property's statement proved for this language of inputs; the rb/rtc exception is the recorded finding (kernel counter-example cex_rb).",
        note="model = pinned behaviour; tied by correspondence; WHATWG clause relative to recorded deviations.",
        technique="Lean 4 executable model validated by differential correspondence (translation validation)",
        design="6/C01"),
    "C03": dict(
        category="translation_validation",
        text="Totality is decided on the real code: soup / injected token lists / exhaustive short tag sequences, random "
             "bytes, EOF at every offset, a skeleton-stress family (structural end tag x open context x tail), depth series up "
             "to 5000 (10000 thorough, etree) for 30 nestable tag classes under Python's default recursion limit, both builders, "
             "every container; oracle = no exception, finishes within a CPU-time limit that grows quadratically with depth, "
             "document skeleton. The Lean tree-builder and tokenizer models make every Python exception source and every "
             "loop's fuel explicit and reproduce the class and site of every exception the real parser raised (this is how the "
             "non-termination, assertion, AttributeError and RecursionError defects fixed in /repo were found). Proved on the "
             "model (C02c, C03b, C03c, C03d, C03e, C03f; ~970 theorems): the tokenizer never runs out of fuel and from the entry states raises nothing "
             "but one recorded ValueError site; every helper loop of the tree builder has enough fuel in every state; nested "
             "phase re-dispatch is at most 6 deep for all phases and tokens (sharp); the EOF loop and the token loop terminate; "
             "C03_total_fuel_partial: Parser.parse never runs out of fuel except possibly in the reprocess loop and Dom.toTree. "
             "reprocess_not_total: from five states the reprocess loop does spin forever (replayed on the real mainLoop). C03c "
             "(12 900 lines): Reach_Inv — every state reachable from init by any token sequence (documents and fragments in any "
             "container) satisfies the invariant Inv (phase registers, stack shape, cell/row/select scope facts, head position), "
             "hence the guards G1-G5 hold and all five stuck states are UNREACHABLE by parsing (stuckState_unreachable, "
             "C03c_reachable_guards). C03d: the rank of the phase register strictly drops on every round that hands the token "
             "back for non-tag tokens, start tags outside 109 keyed names and end tags outside 74 keyed names, hence from every "
             "reachable state and for every such token the reprocess loop and TB.step never run out of fuel "
             "(C03d_reprocess_total_partial_easy2, C03d_step_total_easy2). C03e: the same for 62 of the 74 keyed end-tag names and "
             "42 of the 109 keyed start-tag names (families computed from the extracted dispatch tables): C03e_step_total_easy4 - "
             "TB.step never runs out of fuel for any token except 67 start-tag names and 12 end-tag names; C03f adds the head-content "
             "start tags and the implied end tags head/body/br (C03f_step_total_easy6: all tokens except 57 start-tag names and "
             "9 end-tag names). Still open: those "
             "names (table family, head/body/html, foreign break-out elements: the measure "
             "needs the stack length as well; reprocessLoop_total_of_measure reduces totality to it) and arena acyclicity for "
             "Dom.toTree, so C03_total_fuel stays partial for those; "
             "absence of the other exception kinds in the tree builder is not proved (search only).",
        note="search on the real code + model with explicit exception sites; termination theorems on the model are partial (reprocess loop).",
        technique="differential correspondence with explicit-exception Lean model + Lean 4 termination theorems on the model + totality search on the real code",
        design="6/C03"),
    "C04": dict(
        category="proof",
        text="The two back ends are modelled separately in Lean (H5.Model.Backend.ETree: wrapper + element state with text/tail, "
             "H5.Model.Backend.MiniDom: minidom nodes with the _attrs/_attrsNS double index, auto-detach, doctype handling) and "
             "tied to the real classes by primitive-level scripts (ops prims:etree, prims:dom). Proved (C04b, 175 theorems): for "
             "every Node primitive the tree builder uses (appendChild, insertText in its three forms, insertBefore, removeChild, "
             "reparentChildren, cloneNode, setAttributes, hasContent, element/comment/doctype creation, getFragment, fullTree) — "
             "representation invariants of both back ends and the simulation relation are preserved under explicit "
             "preconditions, and the simulation implies equal abstract trees (C04_abs_eq_of_sim), i.e. both back ends build the "
             "same tree for any sequence of primitive calls inside the preconditions; six kernel witnesses show what happens "
             "outside them (incl. the recorded minidom attribute collision). That the PARSER stays inside the preconditions is "
             "checked by instrumented real parses (0 calls outside), not proved. The real etree, etree(fullTree) and dom builders "
             "are also compared end to end (namespacing on/off, document/fragment) and with the common arena model.",
        note="per-primitive refinement proofs; parser-stays-inside-preconditions is observed, not proved.",
        technique="Lean 4 refinement proofs per back-end primitive + primitive-script correspondence + cross-backend differential on the real code",
        design="6/C04"),
    "C05": dict(
        category="proof",
        text="Lean theorems over H5.Model.Stream (model of HTMLUnicodeInputStream: readChunk with CR/lead-surrogate carry-over and the "
             "read-on step, char, charsUntil, unget, position) for EVERY segmentation of the text into non-empty reads: C05_chars "
             "(characters delivered = newline-normalised text, unconditional since fix 2906ffb), C05_chars_independent, C05_surrogates, "
             "C05_position (line/column after k char() calls without unget), C05_charsUntil (longest accepted prefix), "
             "C05_errors_count (number of invalid-codepoint errors independent of segmentation), C05_invalid_class (regex class = the "
             "standard's definition for all code points, extracted class). Model tied by correspondence (ops stream, stream:drain, "
             "stream:norm, bufstream) on str / text streams with arbitrarily short reads / byte streams (seekable or not) in every "
             "certain encoding. Not proved (decided by search on the real code, recorded as findings where they fail): error POSITIONS "
             "under chunking, positions after unget at a chunk start, short byte reads during BOM detection; BufferedStream is "
             "modelled and tied but nothing is proved about it; codec decoding itself is trusted.",
        note="proof for the character-delivery clauses; error-position clauses are search-level (known findings).",
        technique="Lean 4 theorems over all read segmentations (induction over the segmentation) + correspondence with the real stream classes",
        design="6/C05"),
    "C06": dict(
        category="proof",
        text="Lean theorems over H5.Model.Encoding (detectBOM, override/transport/meta/parent/likely/default chain, changeEncoding, "
             "the prescan EncodingBytes/EncodingParser/ContentAttrParser statement by statement): C06_precedence (the chain equals the "
             "documented order for all inputs and arguments) with its clause corollaries, C06_bom_spec (detectBOM = the Encoding "
             "Standard's BOM sniff for every byte string), C06_certain (a certain encoding is never changed by content), "
             "C06_late_meta (late <meta>: restart/keep decision = the standard's, no hypothesis left since fixes b455301/accb044), "
             "C06_prescan_terminates (fuel len+2 suffices for every byte string), C06_getAttribute_spec and "
             "C06_readAllAttributes_spec (the prescan's attribute scanning equals the standard's 'get an attribute' for every byte "
             "string and position); regression examples for the ten prescan deviations repaired in /repo (one fix: commit each). "
             "The WHOLE prescan is compared with an independent WHATWG reference (Spec.Sniff) by the harness — equal on every "
             "generated input since the repairs — not by a theorem (meta loop, content parser, comment/tag skipping are "
             "harness-level); codecs and the webencodings label table are trusted/extracted; four decode:* findings (StreamReader "
             "layer) remain recorded.",
        note="proof for precedence, BOM, certainty, late meta, termination, attribute scanning; whole-prescan = WHATWG is differential.",
        technique="Lean 4 theorems over the encoding-determination model + correspondence (ops enc:*) + differential against a WHATWG prescan reference",
        design="6/C06"),
    "C12": dict(
        category="proof",
        text="Lean theorem C12_history over an abstract lifecycle model: for ANY history of calls on one object — completed or "
             "aborted at any point — the result of a call equals the result of the same call on the object as constructed, "
             "provided every attribute the code writes outside __init__ is definitely re-assigned by _parse/reset (or is "
             "write-before-read) and reset re-creates the phase objects. Those side conditions are decided in the kernel on "
             "attribute lists extracted from the AST of html5parser.py / treebuilders on every run (parser, tree builder, "
             "phase objects), so a forgotten reset breaks the obligation. Memo tables: any interleaving of atomic lookups "
             "returns f(k). Threads: C12_interleave — under ANY schedule of two independent parsers whose steps write private "
             "state only, what one thread computes equals what its steps compute alone; the side condition is the obligation "
             "C12_shared_readonly/C12_trie_readonly on the extracted list of writes to objects shared process-wide (classes "
             "instantiated at module level or in class bodies: dispatch tables, entity trie). The conclusion is checked on the "
             "real objects by histories with aborts at every read / strict ParseError, serializer and walker reuse, free-running "
             "threads, deterministic single-preemption schedules (thread A stopped at every entry into shared-class code while "
             "B parses), and (thorough) a fresh interpreter.",
        note="abstract model; AST extraction of attribute writes; CPython dict atomicity assumed for the thread clause.",
        technique="Lean 4 proof (parametric reset theorem + kernel-decided extracted tables) + history search on real objects",
        design="6/C12"),
    "C07": dict(
        category="proof",
        text="END-TO-END identity theorem on the Lean models (C07b, 422 theorems): for every document tree t of an explicit, "
             "decidable grammar G0 of conforming documents — doctype html, html/head[/title]/body, a body forest of text, comments, "
             "void elements, ordinary phrasing elements (any custom name), 22 block elements, p, 13 formatting elements, h1-h6, "
             "li/dt/dd in their lists, attributes with arbitrary NUL/CR-free values, at any depth, with the content-model side "
             "conditions (no block below an open p, no a in a, no heading in heading ...) — C07_identity: "
             "Pipeline.roundTrip {} {omitOptionalTags := false} t = ok (t, out, []) and C07_no_errors: the serializer reports no "
             "error and html5lib's parser model parses the output back to exactly t with an empty parse-error list. The proof "
             "composes C11_walk (walker), the serializer model's output, single-pull lemmas for html5lib's OWN tokenizer model on "
             "that output, and an induction over the grammar through the tree-construction model with an arena shape invariant "
             "(scope walks, active formatting list, adoption agency ending in round one, heading/list-item loops). 13 kernel "
             "counter-examples show each grammar condition necessary; each was replayed on the real library (all outside the "
             "conforming language or recorded findings). G0 membership of generated documents is decided by the Lean definition "
             "itself (driver op g0) and every member is round-tripped on the REAL library by both walkers (identity, no errors). "
             "Outside G0 and for the other serializer options (optional-tag omission, quoting modes, encodings, whitespace "
             "stripping, sanitizer) the property is decided by search: parse(render(t)) = t on documents from a content-model "
             "grammar x options, shrunk and classified; model tied by op roundtrip.",
        note="proof on the models for the grammar G0 with default options; other options and documents outside G0 are search-level.",
        technique="Lean 4 end-to-end proof (walker o serializer o tokenizer o tree construction on a conforming sub-grammar) + correspondence + round-trip search on the real code",
        design="6/C07"),
    "C10": dict(
        category="proof",
        text="Token-level composition proved in Lean (C10b, 38 theorems) for EVERY allow-list configuration L, serializer option "
             "set (quote_attr_values legacy/spec/always, both quote characters, omit_optional_tags off) and walker stream ts "
             "satisfying a decidable input predicate parsedOK (names and values as a parser produces them, no raw-text/RCDATA "
             "element among the ALLOWED tags): C10_sanitized_tokOK (sanitizer output satisfies the serializer round-trip "
             "hypotheses automatically: comments gone, disallowed attributes gone, rewritten CSS/URL values stay NUL/CR-free), "
             "C10_retokenised_is_sanitized (the serializer reports no error and the WHATWG tokenizer reads the serialised text "
             "back as exactly the sanitized stream), C10_retokenised_allowlisted (every tag read back has an allow-listed name, "
             "every attribute is allow-listed, URI attributes satisfy the sanitizer's scheme clause, no comment token, every "
             "character comes from text or from an escaped disallowed tag) — composing the C09 and C08c theorems; every "
             "hypothesis has a kernel counter-example. NOT covered by the theorem and decided by search on the real pipeline: "
             "what TREE CONSTRUCTION does with the safe token stream (namespaces, raw-text and foreign-content context "
             "switches: the recorded finding element-reparsed-in-another-namespace): mutation-XSS shaped inputs -> parse -> "
             "sanitize+serialize (random options) -> re-parse as document and as fragment in 13 containers x scripting on/off, "
             "allow-lists, no-comment rule and browser-scheme rule evaluated on the re-parsed tree.",
        note="token-level proof (sanitize o serialize o tokenize); tree-construction stage of the re-parse is search-level.",
        technique="Lean 4 composition theorem (sanitizer model o serializer model o WHATWG tokenizer spec) + end-to-end re-parse safety search on the real code",
        design="6/C10"),
    "C09": dict(
        category="proof",
        text="87 Lean theorems (incl. the leaf table obligations C09Tables: the pinned URI-valued, url()-carrying and local-href sets are on the default lists) over a hand model of the sanitizer with ALL allow-lists as parameters (defaults extracted each "
             "run) and every regular expression translated from Python's own parse into a Lean regex AST run by a small "
             "backtracking engine with sre semantics (engine soundness AND completeness proved against declarative semantics; "
             "IGNORECASE translated by evaluating Python's compiled one-character items): for every "
             "token list and every list configuration the output has only allow-listed elements and attributes and no "
             "comments; a disallowed tag becomes exactly one Characters token starting with '<'; a kept URI attribute has no "
             "scheme or an allowed one AS A BROWSER RESOLVES IT (key lemma: browserScheme v = some s forces urlsplit(clean v) "
             "to yield s; CPython 3.12 urlsplit modelled incl. its ValueError branches); emitted CSS declarations have allowed "
             "properties; every '(' in sanitize_css output is followed only by digits/commas/white space up to ')'; since the "
             "library fixes of the url remover and of the svg_allow_local_href test: no suffix of a sanitize_css result starts with "
             "[uU][rR][lL], Python-\\s characters, '(' (C09_css_no_url) and a kept xlink:href of an svg_allow_local_href element is a "
             "local reference in exactly the sense of the code's regular expression (C09_svg_local_href, _exact); the former "
             "witnesses are regression examples. The browser-side reading of data: content types is false on the pinned tree "
             "(witness theorem + recorded findings). Model, regex engine, urlsplit and str.lower tables are tied by ops "
             "san, san:css, san:scheme, re:* (exhaustive short strings per pattern) on ~250k cases per quick run.",
        note="Lean kernel; standard axioms; Python re / urllib.parse / str.lower modelled and validated by correspondence.",
        technique="Lean 4 proof over parametric sanitizer model + translated regexes; differential correspondence; oracle",
        design="6/C09"),
}

PENDING_REASON = "check under construction in this round: model/theorems not yet committed (see DESIGN section 8); not claimed"


def main():
    props = [json.loads(l) for l in open(os.path.join(VERIF, "properties.jsonl"))]
    checks = []
    na = []
    for p in props:
        pid = p["id"]
        c = CLAIMED.get(pid)
        if not c:
            na.append({"property_id": pid, "reason": PENDING_REASON})
            continue
        checks.append({
            "property_id": pid,
            "quick_cmd": "./check %s --tier quick" % pid,
            "thorough_cmd": "./check %s --tier thorough" % pid,
            "evidence_file": "/verif/evidence/%s.json" % pid,
            "replay_cmd_template": "./check %s --replay {path}" % pid,
            "engine": "lean4-h5",
            "level_claimed": {"category": c["category"], "text": c["text"], "design_ref": c["design"]},
            "level_note": c["note"],
            "technique": c["technique"],
        })
    m = {
        "version": 1,
        "setup_cmd": "cd /verif && ./check --setup",
        "hooks": {"guard": "HTML5LIB_VERIF", "enable": "no hooks are needed: checks import /repo's working tree in-process (PYTHONPATH=/repo)",
                  "baseline_off_cmd": "cd /repo && /venv/bin/python -m pytest -ra -q -p no:cacheprovider --timeout=900 --continue-on-collection-errors",
                  "source_commits": [], "add_only": True},
        "engines": [{"name": "lean4-h5", "path": "/verif/lean", "serves_properties": sorted(CLAIMED),
                     "kind_free_text": "Lean 4 development (Gen regenerated from /repo each run, hand models, theorems) + "
                                       "compiled line-protocol driver + Python correspondence harness"}],
        "checks": checks,
        "not_applicable": na,
        "notes": "fix: commits in /repo are listed in known_findings.json under 'fixed'.",
    }
    with open(os.path.join(VERIF, "MANIFEST.json"), "w") as f:
        json.dump(m, f, indent=1)
    print("MANIFEST: %d checks, %d not claimed" % (len(checks), len(na)))


if __name__ == "__main__":
    main()
