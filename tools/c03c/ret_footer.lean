/-! ### the dispatcher -/

theorem RT_dite {tok : Token} {c : Prop} [Decidable c] (t : c → M (Option Token)) (e : ¬c → M (Option Token))
    (ht : ∀ h, RT tok (t h)) (he : ∀ h, RT tok (e h)) : RT tok (dite c t e) := by
  by_cases hc : c
  · rw [dif_pos hc]; exact ht _
  · rw [dif_neg hc]; exact he _

set_option maxHeartbeats 4000000 in
instance RT_runTagHandler (r : Rec) [hr : RecRT r] (h : String) (tok : Token) : RT tok (runTagHandler r h tok) := by
  delta runTagHandler
  delta runTagHandler.match_1
  repeat (refine RT_dite _ _ (fun heq => ?_) (fun _ => ?_); (· subst heq; dsimp only [Eq.ndrec_symm]; infer_instance))
  infer_instance

set_option maxHeartbeats 4000000 in
instance RT_runProcessPlain (r : Rec) [hr : RecRT r] (h : String) (tok : Token) : RT tok (runProcessPlain r h tok) := by
  delta runProcessPlain
  delta runProcessPlain.match_1
  repeat (refine RT_dite _ _ (fun heq => ?_) (fun _ => ?_); (· subst heq; dsimp only [Eq.ndrec_symm]; infer_instance))
  infer_instance

instance RT_Phase_processStartTag (r : Rec) [hr : RecRT r] (ph : Phase) (tok : Token) :
    RT tok (Phase_processStartTag r ph tok) := by
  unfold Phase_processStartTag; rt_auto

instance RT_Phase_processEndTag (r : Rec) [hr : RecRT r] (ph : Phase) (tok : Token) :
    RT tok (Phase_processEndTag r ph tok) := by
  unfold Phase_processEndTag; rt_auto

instance RT_runProcess (r : Rec) [hr : RecRT r] (ph : Phase) (m : String) (tok : Token) :
    RT tok (runProcess r ph m tok) := by
  unfold runProcess; rt_auto

/-- **every `phases[ph].<method>(token)` returns `None` or `token`** -/
instance mkRec_RT : ∀ n, RecRT (mkRec n)
  | 0 => ⟨fun _ _ => by show RT _ (throw _); infer_instance, fun _ _ => by show RT _ (throw _); infer_instance,
    fun _ _ => by show RT _ (throw _); infer_instance, fun _ _ => by show RT _ (throw _); infer_instance,
    fun _ _ => by show RT _ (throw _); infer_instance, fun _ _ => by show RT _ (throw _); infer_instance⟩
  | n + 1 =>
    haveI := mkRec_RT n
    ⟨fun ph tok => RT_runProcess (mkRec n) ph _ tok, fun ph tok => RT_runProcess (mkRec n) ph _ tok,
     fun ph tok => RT_runProcess (mkRec n) ph _ tok, fun ph tok => RT_runProcess (mkRec n) ph _ tok,
     fun ph tok => RT_runProcess (mkRec n) ph _ tok, fun ph tok => RT_runProcess (mkRec n) ph _ tok⟩

end H5.Props.C03c
