#!/usr/bin/env python3
"""Generates lean/H5/Props/C03cTab.lean: for every handler / method of Glue.lean
  * `hkTable`: the assumption on the state that its lemma needs (`.nt` when not listed),
  * `factsTable` / `factsPnTable`: the facts on the name of the token that its lemma needs,
  * `pnList`: the handlers with a lemma "stays in the ordinary phases",
  * the tactics `t_close` / `t_close_pn` / `t_close_fh` that close one branch of `runTagHandler` / `runProcessPlain` /
    `runEOF`."""
import re, sys, os
HERE = os.path.dirname(os.path.abspath(__file__))
ROOT = os.path.join(HERE, '..', '..', 'lean', 'H5', '')
src_b = open(os.path.join(HERE, '..', 'c03b', 'gen_handlers.py')).read()
ns = {}
exec(src_b[src_b.index("S_INBODY="):src_b.index("# hand-written proofs")], ns)
RH = ns['RH']
REQ = {ns['S_INBODY']: '.S .inBody', ns['S_INHEAD']: '.S .inHead', ns['S_INTABLE']: '.S .inTable', ns['S_INSELECT']: '.S .inSelect',
       ns['E_INTABLE']: '.E .inTable', ns['P0']: '.K 0', ns['P1']: '.K 1', ns['P2']: '.K 2'}
glue = open(ROOT + 'Model/TreeBuilder/Glue.lean').read()
entries = []
segs = re.split(r'^def (run\w+)', glue, flags=re.M)
for i in range(1, len(segs), 2):
    for m in re.finditer(r'\|\s*"([^"]+)"\s*=>\s*(\w+)((?:\s+\w+)*)\s*$', segs[i + 1].split('\ndef ')[0], re.M):
        args = m.group(3).split()
        entries.append((m.group(1), m.group(2), 'r' in args, 'tok' in args, segs[i]))
hand = ''.join(open(ROOT + 'Props/C03c%s.lean' % f).read() for f in ('Prim', 'Hand1', 'Hand2', 'Hand3', 'Hand4'))

FK = {'notPN': 'notPN', 'notHead': 'notHead', 'isFMT': 'isFMT', 'notFMT': 'notFMT', 'notImplied': 'notImplied',
      'isHtmlTok': 'isHtml', 'isHeadLeaf': 'isHeadLeaf', 'isHeadTok': 'isHead', 'isSelectTok': 'isSelect',
      'isOptTok': 'isOpt', 'isTableTok': 'isTable', 'isGroupTok': 'isGroup', 'isTrTok': 'isTr', 'isCellTok': 'isCell',
      'isImplied': 'isImplied'}
ORDER = ['SV', 'Pu', 'Pzn', 'Pz', 'Pn', 'KP', 'Pk', 'Pe', 'Ph', 'Pf', 'KG']


def sig_of(kind, cls, fn):
    m = re.search(r'^%s %s_%s (.*?):=' % (kind, cls, fn), hand, re.M | re.S)
    return ' '.join(m.group(1).split()) if m else None


def find(fn, classes):
    for cls in classes:
        for kind in ('instance', 'theorem'):
            s = sig_of(kind, cls, fn)
            if s is not None:
                return cls, kind, s
    return None


def facts_of(sig):
    out = []
    for m in re.finditer(r'Fct \((\w+) tok\)', sig):
        if m.group(1) in FK:
            out.append(FK[m.group(1)])
    for m in re.finditer(r'\(h\w+ : (\w+) tok\)', sig):
        if m.group(1) in FK:
            out.append(FK[m.group(1)])
    return out


def pre(facts):
    return ''.join(f'haveI : Fct ({[k for k, v in FK.items() if v == f][0]} tok) := ⟨fk_{f} (hfact .{f} (by decide))⟩; ' for f in facts)


# hand-written closers (state kind, facts, closer in `Inv` mode, closer in `Inv ∧ NT` mode or None)
SPECIAL = {
    'Text_processEOF': ('text', [], 'exact T_Text_processEOF st hi (hp .text (by decide))', None),
    'Text_endTagScript': ('text', [], 'exact T_Text_endTagScript _ st hi (hp .text (by decide))', None),
    'Text_endTagOther': ('text', [], 'exact T_Text_endTagOther _ st hi (hp .text (by decide))', None),
    'InTableText_processComment': ('tt', [], 'exact Tr_mono (T_InTableText_processComment hr _ (hb (.K 0) (by decide)) st hi (hp .tt (by decide))) (fun _ _ h => h.1)', None),
    'InTableText_processStartTag': ('tt', [], 'exact Tr_mono (T_InTableText_processStartTag hr _ (hb (.K 0) (by decide)) st hi (hp .tt (by decide))) (fun _ _ h => h.1)', None),
    'InTableText_processEndTag': ('tt', [], 'exact Tr_mono (T_InTableText_processEndTag hr _ (hb (.K 0) (by decide)) st hi (hp .tt (by decide))) (fun _ _ h => h.1)', None),
    'InTableText_processEOF': ('tt', [], 'exact Tr_mono (T_InTableText_processEOF hr (hb (.K 0) (by decide)) st hi (hp .tt (by decide))) (fun _ _ h => h.1)', None),
    'InForeignContent_processStartTag': ('fgn', [], 'exact T_InForeignContent_processStartTag _ hNs st hi (hp .fgn (by decide))', None),
    'InForeignContent_processEndTag': ('fgn', [], 'exact T_InForeignContent_processEndTag hr _ hNs (hb (.K 2) (by decide)) st hi (hp .fgn (by decide))', None),
    'AfterHead_startTagFromHead': ('at .afterHead', ['isHeadLeaf'],
                                   'exact T_AfterHead_startTagFromHead hr _ hNs (fk_isHeadLeaf (hfact .isHeadLeaf (by decide))) (hb (.S .inHead) (by decide)) st hi (hp (.at .afterHead) (by decide))', None),
    'InBody_endTagOther': ('nt', [], 'exact Tr_mono (T_InBody_endTagOther _ st hi (hp .nt (by decide)) (hce rfl)) (fun _ _ h => h.1)',
                           'exact T_InBody_endTagOther _ st hi hn (hce rfl)'),
    'InTable_endTagOther': (None, None, None, 'exact (StayNT_InTable_endTagOther hr _ hNs (fk_notPN (hfact .notPN (by decide))) (by have h0 : 0 < n := hb (.K 0) (by decide); rw [needE_inBody]; exact h0)).out st hi hn'),
    'InCaption_endTagOther': (None, None, None, 'exact (StayNT_InCaption_endTagOther hr _ hNs (fk_notPN (hfact .notPN (by decide))) (by have h0 : 0 < n := hb (.K 0) (by decide); rw [needE_inBody]; exact h0)).out st hi hn'),
    'InCell_endTagOther': (None, None, None, 'exact (StayNT_InCell_endTagOther hr _ hNs (fk_notPN (hfact .notPN (by decide))) (by have h0 : 0 < n := hb (.K 0) (by decide); rw [needE_inBody]; exact h0)).out st hi hn'),
    'InTableBody_endTagOther': (None, None, None, 'exact (StayNT_InTableBody_endTagOther hr _ hNs (fk_isImplied (hfact .isImplied (by decide))) (hb (.E .inTable) (by decide))).out st hi hn'),
    'InRow_endTagOther': (None, None, None, 'exact (StayNT_InRow_endTagOther hr _ hNs (fk_isImplied (hfact .isImplied (by decide))) (hb (.E .inTable) (by decide))).out st hi hn'),
}
PNFACTS = {'InTableBody_endTagOther': ['isImplied'], 'InRow_endTagOther': ['isImplied']}
FH = {'InHead_startTagBaseLinkCommand': 'exact FH_InHead_startTagBaseLinkCommand _ hfh',
      'InHead_startTagMeta': 'exact FH_InHead_startTagMeta _ hfh',
      'InHead_startTagTitle': 'exact FH_InHead_startTagTitle _ hfh hNs (fk_notPN (hfact .notPN (by decide))) (fk_notHead (hfact .notHead (by decide)))',
      'InHead_startTagNoFramesStyle': 'exact FH_InHead_startTagNoFramesStyle _ hfh hNs (fk_notPN (hfact .notPN (by decide))) (fk_notHead (hfact .notHead (by decide)))',
      'InHead_startTagScript': 'exact FH_InHead_startTagScript _ hfh hNs (fk_notPN (hfact .notPN (by decide))) (fk_notHead (hfact .notHead (by decide)))'}

hk_rows, fact_rows, factpn_rows, pn_list, fh_list = ['  ("Phase.processEOF", .any)'], [], [], [], []
alts, alts_pn, alts_fh = [], [], []
missing = []
per = {}
for py, fn, r, t, seg in entries:
    tokarg = ' _' if t else ''
    sp = SPECIAL.get(fn, (None, None, None, None))
    kind = facts = closer = None
    found = find(fn, ORDER)
    if sp[0] is not None:
        kind, facts, closer = sp[0], sp[1], sp[2]
    elif found is None:
        missing.append(fn)
        continue
    else:
        cls, decl, sig = found
        facts = facts_of(sig)
        is_thm = decl == 'theorem'
        rank = ''
        if '(h : ' in sig:
            rank = f' (hb ({REQ[RH[fn]]}) (by decide))'
        if is_thm:
            term = f'({cls}_{fn}' + (' hr' if '(hr : RecInv' in sig else '') + (' _' if '(tok : Token)' in sig else '') + rank + ')'
        if cls in ('SV', 'Pu', 'Pz', 'Pzn'):
            kind = 'any'
            if is_thm:
                closer = f'exact (@Tr_of_Pu _ _ (by have := {term}; infer_instance) st hi)' if cls != 'Pu' else f'exact {term}.out st hi'
            else:
                closer = 'exact Tr_of_Pu _ st hi'
        elif cls in ('Pn', 'KP', 'Pk'):
            kind = 'nt'
            if is_thm:
                closer = (f'exact Tr_mono ({term}.out st hi (hp .nt (by decide))) (fun _ _ h => h.1)' if cls == 'Pn'
                          else f'exact {term}.out st hi (hp .nt (by decide))')
            else:
                closer = 'exact Tr_of_Pk _ inferInstance st hi (hp .nt (by decide))'
        elif cls == 'Pe':
            kind = 'ntp'
            closer = (f'exact {term}.out st hi (hp .ntp (by decide))' if is_thm
                      else 'exact (inferInstance : Pe _).out st hi (hp .ntp (by decide))')
        elif cls == 'Ph':
            p = re.search(r': Ph \.(\w+) ', sig).group(1)
            kind = 'selT' if p == 'inSelectInTable' else f'at .{p}'
            k = '.selT' if p == 'inSelectInTable' else f'(.at .{p})'
            closer = (f'exact {term}.out st hi (hp {k} (by decide))' if is_thm
                      else f'exact (inferInstance : Ph .{p} _).out st hi (hp {k} (by decide))')
        elif cls == 'Pf':
            p = 'inTableBody' if fn.startswith('InTableBody') else 'inFrameset'
            kind = f'at .{p}'
            closer = f'exact (Ph_of_Pf .{p} (by decide) (by decide) _).out st hi (hp (.at .{p}) (by decide))'
        elif cls == 'KG':
            kind = 'sel'
            closer = 'exact Tr_sel_of_KG _ st hi (hp .sel (by decide))'
    if kind != 'nt':
        hk_rows.append(f'  ("{py}", .{kind})')
    if facts:
        fact_rows.append(f'  ("{py}", [{", ".join("." + f for f in facts)}])')
    alts.append(f'  | ({pre(facts)}{closer})')
    rec = per.setdefault(seg, [])
    ent = {'inv': f'{pre(facts)}{closer}', 'pn': 'exact absurd hm (by decide)', 'fh': 'exact absurd hm (by decide)'}
    rec.append(ent)
    # `Inv ∧ NT` mode
    pnfacts = PNFACTS.get(fn, facts)
    cpn = None
    if sp[3] is not None:
        cpn = sp[3]
    elif sp[0] is None and found is not None:
        f2 = find(fn, ['SV', 'Pzn', 'Pn', 'KP'])
        if f2 is not None:
            cls, decl, sig = f2
            if decl == 'theorem':
                rank = f' (hb ({REQ[RH[fn]]}) (by decide))' if '(h : ' in sig else ''
                term = f'({cls}_{fn}' + (' hr' if '(hr : RecInv' in sig else '') + (' _' if '(tok : Token)' in sig else '') + rank + ')'
                cpn = f'exact (show Pn _ from by have := {term}; infer_instance).out st hi hn' if cls != 'Pn' else f'exact {term}.out st hi hn'
            else:
                cpn = 'exact (inferInstance : Pn _).out st hi hn'
            pnfacts = facts_of(sig) if fn not in PNFACTS else pnfacts
    if cpn is not None:
        pn_list.append(f'"{py}"')
        if pnfacts != (facts or []):
            factpn_rows.append(f'  ("{py}", [{", ".join("." + f for f in pnfacts)}])')
        alts_pn.append(f'  | ({pre(pnfacts)}{cpn})')
        ent['pn'] = f'{pre(pnfacts)}{cpn}'
    if fn in FH:
        fh_list.append(f'"{py}"')
        alts_fh.append(f'  | ({FH[fn]})')
        ent['fh'] = FH[fn]
if missing:
    print('NO LEMMA:', missing)

out = '''/-
  C03c — GENERATED by tools/c03c/gen_tab.py from Glue.lean and the generated handler lemmas.
-/
import H5.Props.C03cHand4
set_option linter.unusedVariables false
namespace H5.Props.C03c
open H5 H5.Model H5.Model.TB H5.Model.Dom
open H5.Props.C03b

/-! ### facts on the name of the token -/

inductive Fk where
  | notPN | notHead | isFMT | notFMT | notImplied | isHtml | isHeadLeaf | isHead | isSelect | isOpt | isTable | isGroup
  | isTr | isCell | isImplied
  deriving DecidableEq, Repr

def Fk.ok : Fk → Str → Bool
  | .notPN, nm => !PN.contains nm
  | .notHead, nm => !(nm == nHead)
  | .isFMT, nm => FMT.contains nm
  | .notFMT, nm => !FMT.contains nm
  | .notImplied, nm => !Gen.Lit.TB_TreeBuilder_generateImpliedEndTags_0.contains nm
  | .isHtml, nm => nm == nmHtml
  | .isHeadLeaf, nm => headLeaf.contains nm
  | .isHead, nm => nm == nHead
  | .isSelect, nm => nm == nSelect
  | .isOpt, nm => nm == nOption || nm == nOptgroup
  | .isTable, nm => nm == nTable
  | .isGroup, nm => [nTbody, nThead, nTfoot].contains nm
  | .isTr, nm => nm == nTr
  | .isCell, nm => nm == nTd || nm == nTh
  | .isImplied, nm => impliedNames.contains nm

/-- the names excluded by a negative fact -/
def Fk.neg : Fk → Option (List Str)
  | .notPN => some PN
  | .notHead => some [nHead]
  | .notFMT => some FMT
  | .notImplied => some Gen.Lit.TB_TreeBuilder_generateImpliedEndTags_0
  | _ => none

theorem Fk.ok_of_neg {f : Fk} {l : List Str} {nm : Str} (h : f.neg = some l) (hn : l.contains nm = false) :
    f.ok nm = true := by
  cases f <;> simp only [Fk.neg] at h <;> first | (cases h; done) | skip
  all_goals (cases h; simp only [Fk.ok])
  · rw [hn]; rfl
  · simp only [List.contains_cons, List.contains_nil, Bool.or_false] at hn; simp [hn]
  · rw [hn]; rfl
  · rw [hn]; rfl

theorem fk_notPN {tok : Token} (h : Fk.ok .notPN (tokName tok) = true) : notPN tok := by
  unfold notPN; simpa [Fk.ok] using h
theorem fk_notHead {tok : Token} (h : Fk.ok .notHead (tokName tok) = true) : notHead tok := by
  unfold notHead; simpa [Fk.ok] using h
theorem fk_isFMT {tok : Token} (h : Fk.ok .isFMT (tokName tok) = true) : isFMT tok := h
theorem fk_notFMT {tok : Token} (h : Fk.ok .notFMT (tokName tok) = true) : notFMT tok := by
  unfold notFMT; simpa [Fk.ok] using h
theorem fk_notImplied {tok : Token} (h : Fk.ok .notImplied (tokName tok) = true) : notImplied tok := by
  unfold notImplied; simpa [Fk.ok] using h
theorem fk_isHtml {tok : Token} (h : Fk.ok .isHtml (tokName tok) = true) : isHtmlTok tok := by
  unfold isHtmlTok; simpa [Fk.ok] using h
theorem fk_isHeadLeaf {tok : Token} (h : Fk.ok .isHeadLeaf (tokName tok) = true) : isHeadLeaf tok := h
theorem fk_isHead {tok : Token} (h : Fk.ok .isHead (tokName tok) = true) : isHeadTok tok := by
  unfold isHeadTok; simpa [Fk.ok] using h
theorem fk_isSelect {tok : Token} (h : Fk.ok .isSelect (tokName tok) = true) : isSelectTok tok := by
  unfold isSelectTok; simpa [Fk.ok] using h
theorem fk_isOpt {tok : Token} (h : Fk.ok .isOpt (tokName tok) = true) : isOptTok tok := by
  unfold isOptTok; simpa [Fk.ok] using h
theorem fk_isTable {tok : Token} (h : Fk.ok .isTable (tokName tok) = true) : isTableTok tok := by
  unfold isTableTok; simpa [Fk.ok] using h
theorem fk_isGroup {tok : Token} (h : Fk.ok .isGroup (tokName tok) = true) : isGroupTok tok := h
theorem fk_isTr {tok : Token} (h : Fk.ok .isTr (tokName tok) = true) : isTrTok tok := by
  unfold isTrTok; simpa [Fk.ok] using h
theorem fk_isCell {tok : Token} (h : Fk.ok .isCell (tokName tok) = true) : isCellTok tok := by
  unfold isCellTok; simpa [Fk.ok] using h
theorem fk_isImplied {tok : Token} (h : Fk.ok .isImplied (tokName tok) = true) : isImplied tok := h

/-- a handler of `InSelectPhase` that keeps "`select` is in select scope", in either select phase -/
theorem Tr_sel_of_KG {α : Type} (m : M α) [KG m] (st : PState) (hi : Inv st)
    (hp : st.phase = some .inSelect ∨ st.phase = some .inSelectInTable) : Tr m st (fun _ st' => Inv st') := by
  rcases hp with h | h
  · exact (Ph_sel_of_KG m).out st hi h
  · exact (Ph_selT_of_KG m).out st hi h

/-! ### the tables -/

/-- qualified Python name ↦ the assumption on the state that the lemma of the handler / method needs
(`.nt`, an ordinary phase, when not listed) -/
def hkTable : List (String × PreK) := [
%s]

def hkOf (h : String) : PreK :=
  match hkTable.find? (fun p => p.1 == h) with
  | some p => p.2
  | none => .nt

/-- qualified Python name ↦ the facts on the name of the token that its lemma needs -/
def factsTable : List (String × List Fk) := [
%s]

def factsOf (h : String) : List Fk :=
  match factsTable.find? (fun p => p.1 == h) with
  | some p => p.2
  | none => []

/-- … that its lemma "stays in the ordinary phases" needs, when they differ -/
def factsPnTable : List (String × List Fk) := [
%s]

def factsPn (h : String) : List Fk :=
  match factsPnTable.find? (fun p => p.1 == h) with
  | some p => p.2
  | none => factsOf h

/-- the handlers / methods with a lemma "from an ordinary phase, stays in the ordinary phases" -/
def pnList : List String := [
  %s]

/-- the handlers of `InHeadPhase` that `AfterHeadPhase.startTagFromHead` can reach -/
def fhList : List String := [%s]

end H5.Props.C03c
''' % (',\n'.join(hk_rows), ',\n'.join(fact_rows), ',\n'.join(factpn_rows), ',\n  '.join(', '.join(pn_list[i:i + 4]) for i in range(0, len(pn_list), 4)),
       ', '.join(fh_list))
open(ROOT + 'Props/C03cTab.lean', 'w').write(out)
print(len(entries), len(hk_rows), len(fact_rows), len(pn_list), len(fh_list))

# ---- C03cDispatch.lean: one explicit proof per branch
HDR = open(os.path.join(HERE, 'dispatch_header.lean')).read()
HYPS = {'inv': """(hb : ∀ q ∈ reqsOf h, q.holds tok n) (st : PState) (hi : Inv st) (hNs : NsNone tok)
    (hp : ∀ k, hkOf h = k → k.holds st) (hfact : ∀ f ∈ factsOf h, f.ok (tokName tok) = true)
    (hce : h = "InBodyPhase.endTagOther" → PN.contains (tokName tok) = true → st.phase = some .inBody)""",
        'pn': """(hb : ∀ q ∈ reqsOf h, q.holds tok n) (st : PState) (hi : Inv st) (hn : NT st) (hNs : NsNone tok)
    (hm : h ∈ pnList) (hfact : ∀ f ∈ factsPn h, f.ok (tokName tok) = true)
    (hce : h = "InBodyPhase.endTagOther" → PN.contains (tokName tok) = true → st.phase = some .inBody)""",
        'fh': """(st : PState) (old : List NodeId) (hd : NodeId) (hfh : FHpre st old hd) (hNs : NsNone tok)
    (hm : h ∈ fhList) (hfact : ∀ f ∈ factsOf h, f.ok (tokName tok) = true)"""}
POST = {'inv': "fun _ st' => Inv st'", 'pn': "fun _ st' => Inv st' ∧ NT st'", 'fh': "fun _ st' => FHpost st' old hd"}


def thm(name, fn, mode, args):
    o = f"""
set_option maxHeartbeats 4000000 in
theorem {name} {{r : Rec}} {{n : Nat}} (hr : RecInv r n) (tok : Token) (h : String)
    {HYPS[mode]} :
    Tr ({fn} r h{args}) st ({POST[mode]}) := by
  haveI : Fct (NsNone tok) := ⟨hNs⟩
  delta {fn}
  delta {fn}.match_1
"""
    for ent in per[fn]:
        o += '  refine Tr_dite _ _ _ _ (fun heq => ?_) (fun _ => ?_)\n'
        o += f'  · subst heq; dsimp only [Eq.ndrec_symm]; {ent[mode]}\n'
    o += '  exact NF_lookupError _\n'
    return o


d = HDR
d += thm('runTagHandler_inv', 'runTagHandler', 'inv', ' tok')
d += thm('runProcessPlain_inv', 'runProcessPlain', 'inv', ' tok')
d += thm('runEOF_inv', 'runEOF', 'inv', '')
d += thm('runTagHandler_pn', 'runTagHandler', 'pn', ' tok')
d += thm('runProcessPlain_pn', 'runProcessPlain', 'pn', ' tok')
d += thm('runTagHandler_fh', 'runTagHandler', 'fh', ' tok')
d += '\nend H5.Props.C03c\n'
open(ROOT + 'Props/C03cDispatch.lean', 'w').write(d)
