#!/bin/bash
# usage: errs.sh HandN  -> failing declarations with the first goal line
cd "$(dirname "$0")/../../lean"
f=H5/Props/C03c$1.lean
timeout 1500 lake env lean $f 2>&1 > /tmp/errs_$1.txt
python3 - "$f" /tmp/errs_$1.txt <<'PY'
import re,sys
src=open(sys.argv[1]).read().split('\n')
out=open(sys.argv[2]).read()
seen=set()
for m in re.finditer(r'^(\S+):(\d+):(\d+): error: (.*)$', out, flags=re.M):
    ln=int(m.group(2))
    # find enclosing declaration
    k=ln-1
    while k>=0 and not re.match(r'(instance|theorem)\s', src[k]): k-=1
    name=src[k].split()[1] if k>=0 else '?'
    if (name) in seen: continue
    seen.add(name)
    print(ln, name, '|', m.group(4)[:80])
PY
