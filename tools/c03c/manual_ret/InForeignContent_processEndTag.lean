instance RT_InForeignContent_processEndTag_loop (r : Rec) (tok : Token) (name : Str) [hr : RecRT r] :
    ∀ (fuel : Nat) (i : Int) (node : NodeId), RT tok (InForeignContent_processEndTag_loop r tok name fuel i node)
  | 0, _, _ => by unfold InForeignContent_processEndTag_loop; infer_instance
  | fuel + 1, i, node => by
    have ih := RT_InForeignContent_processEndTag_loop r tok name fuel
    unfold InForeignContent_processEndTag_loop; rt_auto

instance RT_InForeignContent_processEndTag (r : Rec) (tok : Token) [hr : RecRT r] : RT tok (InForeignContent_processEndTag r tok) := by
  unfold InForeignContent_processEndTag; rt_auto
