instance RT_InBody_endTagP_startTagCloseP (depth : Nat) (b : Bool) (tok : Token) :
    RT tok (InBody_endTagP_startTagCloseP depth b tok) := by
  cases depth with
  | zero => unfold InBody_endTagP_startTagCloseP; infer_instance
  | succ depth =>
    cases b <;> (unfold InBody_endTagP_startTagCloseP; rt_auto)

instance RT_InBody_endTagP (tok : Token) : RT tok (InBody_endTagP tok) := by
  unfold InBody_endTagP; rt_auto
