theorem pyIndex_mem {α : Type} {l : List α} {i : Int} {x : α} (h : pyIndex l i = some x) : x ∈ l := by
  unfold pyIndex at h
  split at h
  · dsimp only at h
    split at h
    · cases h
    · exact List.mem_of_getElem? h
  · exact List.mem_of_getElem? h

set_option hygiene false in
macro "optgroup_rest" hgcur:ident : tactic => `(tactic|
  (simp only [Tr_bind, Tr_openLast]
   intro x2 hx2
   have hxe2 := top_el ($hgcur).1.1 hx2
   simp only [Tr_nameIs hxe2]
   split
   · rename_i hname2
     simp only [Tr_bind, Tr_openPop, Tr_pure]
     intro y2 hy2
     exact GS_pop $hgcur hx2 (Or.inr (beq_iff_eq.1 hname2))
   · simp only [Tr_bind, Tr_pure]
     exact Tr_GS_SV _ $hgcur _ (fun _ _ h => h)))

instance KG_InSelect_endTagOptgroup (tok : Token) : KG (InSelect_endTagOptgroup tok) := ⟨fun st hs => by
  have hg0 : GS st st := GS.refl hs
  unfold InSelect_endTagOptgroup
  dsimp only
  simp only [Tr_bind, Tr_openLast]
  intro x hx
  have hxe := top_el hs hx
  simp only [Tr_nameIs hxe]
  split
  · rename_i hname
    simp only [Tr_bind, Tr_openElems]
    split
    · rename_i second hsec
      have hsel : IsEl st.arena second := hs.elem second (pyIndex_mem hsec)
      simp only [Tr_pure, Tr_nameIs hsel]
      split
      · simp only [Tr_bind, Tr_openPop]
        intro y hy
        have hg1 := GS_pop hg0 hx (Or.inl (beq_iff_eq.1 hname))
        optgroup_rest hg1
      · optgroup_rest hg0
    · simp only [Tr_bind, Tr_throw]; exact NF_indexError _
  · optgroup_rest hg0⟩
