theorem T_Text_endTagOther (tok : Token) (st : PState) (hi : Inv st) (hp : st.phase = some .text) :
    Tr (Text_endTagOther tok) st (fun _ st' => Inv st') := by
  unfold Text_endTagOther restoreOriginalPhase
  simp only [Tr_bind, Tr_openPop, Tr_modify, Tr_pure]
  intro x _
  exact textPop_tr st hi hp
