/-! #### the adoption agency -/

theorem listIndex_go_spec {α : Type} [BEq α] [LawfulBEq α] (x : α) : ∀ (l : List α) (k : Nat) (i : Nat),
    listIndex.go x l k = some i → ∃ p q, l = p ++ x :: q ∧ x ∉ p ∧ i = k + p.length
  | [], k, i, h => by simp [listIndex.go] at h
  | y :: l, k, i, h => by
    unfold listIndex.go at h
    split at h
    · rename_i hy
      have : y = x := by simpa using hy
      subst this
      exact ⟨[], l, rfl, by simp, by simpa using (Option.some.inj h).symm⟩
    · rename_i hy
      obtain ⟨p, q, h1, h2, h3⟩ := listIndex_go_spec x l (k + 1) i h
      refine ⟨y :: p, q, by rw [h1]; rfl, ?_, by simp; omega⟩
      intro hm
      rcases List.mem_cons.1 hm with hm | hm
      · apply hy; rw [hm]; simp
      · exact h2 hm

theorem listIndex_spec {α : Type} [BEq α] [LawfulBEq α] {l : List α} {x : α} {i : Nat} (h : listIndex l x = some i) :
    ∃ p q, l = p ++ x :: q ∧ x ∉ p ∧ i = p.length := by
  obtain ⟨p, q, h1, h2, h3⟩ := listIndex_go_spec x l 0 i h
  exact ⟨p, q, h1, h2, by omega⟩

theorem Tr_openIndex (x : NodeId) (site : String) (st : PState) (Q : Nat → PState → Prop)
    (h : ∀ p q, st.openElements = p ++ x :: q → x ∉ p → Q p.length st) : Tr (openIndex x site) st Q := by
  unfold openIndex
  simp only [Tr_bind, Tr_openElems]
  split
  · rename_i i hi
    obtain ⟨p, q, h1, h2, h3⟩ := listIndex_spec hi
    simp only [Tr_pure]; rw [h3]; exact h p q h1 h2
  · simp only [Tr_throw]; exact NF_valueError _

theorem Tr_afeIndex (x : NodeId) (site : String) (st : PState) (Q : Nat → PState → Prop)
    (h : ∀ p q, st.activeFormattingElements = p ++ some x :: q → some x ∉ p → Q p.length st) :
    Tr (afeIndex x site) st Q := by
  unfold afeIndex
  simp only [Tr_bind, Tr_afe]
  split
  · rename_i i hi
    obtain ⟨p, q, h1, h2, h3⟩ := listIndex_spec hi
    simp only [Tr_pure]; rw [h3]; exact h p q h1 h2
  · simp only [Tr_throw]; exact NF_valueError _

theorem pyIndex_nat {α : Type} (l : List α) (i : Nat) : pyIndex l (i : Int) = l[i]? := by
  unfold pyIndex
  rw [if_neg (by omega)]
  simp

/-- replacing a node on the stack by a fresh clone of the same kind -/
theorem ST_replace {st : PState} (hs : ST st) {p q : List NodeId} {x c : NodeId} (h1 : st.openElements = p ++ x :: q)
    (hc : IsEl st.arena c) (hk : elemK st.arena c = elemK st.arena x) (hnin : c ∉ st.openElements) :
    ST (wo st (p ++ c :: q)) ∧ stackK (wo st (p ++ c :: q)) = stackK st := by
  have hK : stackK (wo st (p ++ c :: q)) = stackK st := by
    unfold stackK; show (p ++ c :: q).map _ = _; rw [h1]; simp [hk]
  refine ⟨⟨?_, ?_, hs.hp, hs.fp, by rw [hK]; exact hs.ns, by rw [hK]; exact hs.adj, by rw [hK]; exact hs.bot, hs.afe⟩, hK⟩
  · intro i hi
    rcases List.mem_append.1 hi with h | h
    · exact hs.elem i (by rw [h1]; exact List.mem_append_left _ h)
    · rcases List.mem_cons.1 h with h | h
      · rw [h]; exact hc
      · exact hs.elem i (by rw [h1]; exact List.mem_append_right _ (List.mem_cons_of_mem _ h))
  · have hnd := hs.nodup
    rw [h1] at hnd hnin
    have hcp : c ∉ p := fun hm => hnin (List.mem_append_left _ hm)
    have hcq : c ∉ q := fun hm => hnin (List.mem_append_right _ (List.mem_cons_of_mem _ hm))
    obtain ⟨n1, n2, n3⟩ := List.nodup_append.1 hnd
    obtain ⟨n4, n5⟩ := List.nodup_cons.1 n2
    refine List.nodup_append.2 ⟨n1, List.nodup_cons.2 ⟨hcq, n5⟩, ?_⟩
    intro a ha b hb hab
    rcases List.mem_cons.1 hb with hb | hb
    · subst hab; rw [hb] at ha; exact hcp ha
    · exact n3 a ha b (List.mem_cons_of_mem _ hb) hab

theorem unprot_of_nonspecial {e : El} (h : Gen.specialElements.contains (tup e) = false) : prot e = false := by
  cases hp : prot e with
  | false => rfl
  | true => rw [prot_special hp] at h; cases h

theorem mem_set_keep {α : Type} {l : List α} {i : Nat} {x y z : α} (hz : z ∈ l) (hx : l[i]? = some x) (hne : x ≠ z) :
    z ∈ l.set i y := by
  obtain ⟨j, hj, rfl⟩ := List.mem_iff_getElem.1 hz
  have hij : i ≠ j := by
    intro e; subst e
    rw [List.getElem?_eq_getElem hj] at hx
    exact hne (Option.some.inj hx).symm
  apply List.mem_iff_getElem.2
  refine ⟨j, by simpa using hj, ?_⟩
  rw [List.getElem_set_ne hij]

set_option hygiene false in
/-- step 9.8–9.10 of the adoption agency: `node` is replaced by a clone in the list of active formatting elements and
on the stack, `lastNode` is moved under the clone, the loop goes on -/
macro "aa_clone" bmv:term : tactic => `(tactic|
  (simp only [Tr_bind, Tr_get, Tr_monadLift, Tr_lift, Post_bind]
   refine Post_mono (hclone st rfl rfl rfl (Keep.refl _) hs) ?_
   rintro ⟨a', clone⟩ hcl
   obtain ⟨hs1, hk1, hcel, hck, hcnin, hsk1⟩ := hcl _ rfl
   simp only [Tr_set, Tr_bind]
   refine Tr_afeIndex m _ _ _ ?_
   intro p q hpq hmp
   simp only [Tr_afe, Tr_setAfe]
   refine Tr_openIndex m _ _ _ ?_
   intro p' q' hp'q' hmp'
   simp only [Tr_openElems, Tr_setOpen]
   -- the position of `m` on the stack
   have hsplit : (a ++ fe :: M0) ++ m :: R = p' ++ m :: q' := by rw [← hl']; exact hp'q'
   have hmR : m ∉ R := fun hm => (List.nodup_cons.1 (List.nodup_append.1 hnd).2.1).1 hm
   have hmq' : m ∉ q' := by
     intro hm
     have hnd' := hs.nodup
     have e : st.openElements = p' ++ m :: q' := hp'q'
     rw [e] at hnd'
     exact (List.nodup_cons.1 (List.nodup_append.1 hnd').2.1).1 hm
   obtain ⟨e1, e2⟩ := last_split_unique m _ _ _ _ hsplit hmR hmq'
   subst e1; subst e2
   have hset : (st.openElements.set (a ++ fe :: M0).length clone) = (a ++ fe :: M0) ++ clone :: R := by
     rw [hl']; simp
   have hop_eq : ({ st with arena := a', activeFormattingElements := st.activeFormattingElements.set p.length (some clone) } : PState).openElements = st.openElements := rfl
   rw [hop_eq, hset]
   -- the state after the two replacements
   have hs2 : ST ({ st with arena := a', activeFormattingElements := st.activeFormattingElements.set p.length (some clone) } : PState) := by
     refine ST_setAfe hs1 _ ?_
     intro j hj
     rcases List.mem_or_eq_of_mem_set hj with hj | hj
     · exact hs1.afe j hj
     · cases hj
       exact ⟨hcel, by rw [hck]; exact hFm.2.1, by rw [hck]; exact hFm.2.2⟩
   have hrep := ST_replace (st := ({ st with arena := a', activeFormattingElements := st.activeFormattingElements.set p.length (some clone) } : PState)) hs2 (p := a ++ fe :: M0) (q := R) (x := m)
     (c := clone) hl' hcel (by rw [hck]; exact (((hs.elem m (by rw [hl']; simp)).ext hk1.ar).2).symm) hcnin
   obtain ⟨hs3, hsk3⟩ := hrep
   have hk3 : KPpost st (wo ({ st with arena := a', activeFormattingElements := st.activeFormattingElements.set p.length (some clone) } : PState) ((a ++ fe :: M0) ++ clone :: R)) :=
     ⟨hs3, ⟨rfl, rfl, hk1.ar⟩, by rw [hsk3]; show P (stackK ({ st with arena := a' } : PState)) = _; rw [hsk1]⟩
   -- the tree operations, then the rest of the loop
   have tail : ∀ st4, KPpost st st4 → st4.openElements = (a ++ fe :: M0) ++ clone :: R →
       st4.activeFormattingElements = st.activeFormattingElements.set p.length (some clone) →
       Tr (do modifyArena (·.appendChild clone s.lastNode)
              InBody_endTagFormatting_inner fe fb n
                { index := ((a.length + (M0 ++ [m]).length : Nat) : Int), node := clone, lastNode := clone, bookmark := $bmv })
         st4 (fun _ st' => KPpost st st') := by
     intro st4 hk4 hop4 haf4
     simp only [Tr_bind]
     refine Tr_SV_step _ hk4 _ ?_
     intro _ st5 hk5 hsame5
     have hop5 : st5.openElements = a ++ fe :: (M0 ++ (clone :: R)) := by
       rw [hsame5.op, hop4]; simp
     have hfe5 : some fe ∈ st5.activeFormattingElements := by
       rw [hsame5.af, haf4]
       refine mem_set_keep hfe (x := some m) (by rw [hpq]; simp) ?_
       intro e; exact hmfe (Option.some.inj e)
     refine Tr_mono (InBody_endTagFormatting_inner_kp fe fb n _ st5 a M0 (clone :: R) hk5.1 hop5 ?_ (by simp; omega)
       hfe5) ?_
     · intro y hy
       have hy' : y ∈ st.openElements := by rw [hl']; simp [hy]
       rw [((hs.elem y hy').ext hk5.2.1.ar).2]; exact hM y (by simp [hy])
     · intro _ st' h'; exact hk5.trans h'
   apply Tr_RO; intro par
   cases par with
   | none =>
     have := tail _ hk3 rfl rfl
     simpa only [Tr_bind] using this
   | some pp =>
     simp only [Tr_bind]
     refine Tr_SV_step _ hk3 _ ?_
     intro _ st4 hk4 hsame4
     have := tail st4 hk4 (by rw [hsame4.op]) (by rw [hsame4.af])
     simpa only [Tr_bind] using this))

/-- the inner loop of the adoption agency: the nodes it visits lie strictly between the formatting element and the
furthest block, they are not special, hence not protected; each is removed or replaced by a clone -/
theorem InBody_endTagFormatting_inner_kp (fe fb : NodeId) : ∀ (n : Nat) (s : AAInner) (st : PState)
    (a M R : List NodeId), ST st → st.openElements = a ++ fe :: (M ++ R) →
    (∀ y ∈ M, prot (elemK st.arena y) = false) → s.index = ((a.length + 1 + M.length : Nat) : Int) →
    some fe ∈ st.activeFormattingElements →
    Tr (InBody_endTagFormatting_inner fe fb n s) st (fun _ st' => KPpost st st')
  | 0, s, st, a, M, R, hs, _, _, _, _ => by
    unfold InBody_endTagFormatting_inner; exact KPpost.refl hs
  | n + 1, s, st, a, M, R, hs, hl, hM, hidx, hfe => by
    unfold InBody_endTagFormatting_inner
    simp only [Tr_bind, Tr_openElems]
    have hidx' : s.index - 1 = ((a.length + M.length : Nat) : Int) := by rw [hidx]; omega
    rw [hidx', pyIndex_nat]
    -- the node at that position: the last of `fe :: M`
    rcases List.eq_nil_or_concat M with hMnil | ⟨M0, m, hMm⟩
    all_goals try rw [List.concat_eq_append] at hMm
    · -- nothing left between: the formatting element itself
      subst hMnil
      have hget : st.openElements[a.length + ([] : List NodeId).length]? = some fe := by
        rw [hl]; simp
      rw [hget]
      simp only [Tr_pure]
      unfold inAfe
      simp only [Tr_bind, Tr_afe, Tr_pure]
      have hc : st.activeFormattingElements.contains (some fe) = true := by simpa using hfe
      rw [hc]
      simp only [Bool.not_true, Bool.false_eq_true, if_false, beq_self_eq_true, if_true, Tr_pure]
      exact KPpost.refl hs
    · subst hMm
      have hl' : st.openElements = (a ++ fe :: M0) ++ m :: R := by rw [hl]; simp
      have hget : st.openElements[a.length + (M0 ++ [m]).length]? = some m := by
        rw [hl']
        have : a.length + (M0 ++ [m]).length = (a ++ fe :: M0).length := by simp
        rw [this]; simp
      rw [hget]
      simp only [Tr_pure]
      have hmprot : prot (elemK st.arena m) = false := hM m (by simp)
      have hmel : IsEl st.arena m := hs.elem m (by rw [hl']; simp)
      have hnd := hs.nodup
      rw [hl'] at hnd
      have hm_nin : m ∉ a ++ fe :: M0 := fun hm => (List.nodup_append.1 hnd).2.2 m hm m (by simp) rfl
      have hmfe : m ≠ fe := fun e => hm_nin (by rw [e]; simp)
      unfold inAfe
      simp only [Tr_bind, Tr_afe, Tr_pure]
      split
      · -- not in the list of active formatting elements: removed from the stack
        unfold openRemove
        simp only [Tr_bind, Tr_openElems]
        rw [if_pos (by rw [hl']; simp)]
        simp only [Tr_setOpen]
        have he : st.openElements.erase m = (a ++ fe :: M0) ++ R := by rw [hl']; exact erase_mid _ m R hm_nin
        rw [he]
        obtain ⟨q1, q2⟩ := ST_remove hs hl' hmprot
        have hk1 : KPpost st (wo st ((a ++ fe :: M0) ++ R)) := ⟨q1, Keep_wo _ _, q2⟩
        refine Tr_mono (InBody_endTagFormatting_inner_kp fe fb n _ (wo st ((a ++ fe :: M0) ++ R)) a M0 R q1
          (by show (a ++ fe :: M0) ++ R = _; simp) (fun y hy => hM y (by simp [hy])) (by simp; omega) hfe) ?_
        intro _ st' h'; exact hk1.trans h'
      · rename_i hin
        have hin' : some m ∈ st.activeFormattingElements := by
          have : st.activeFormattingElements.contains (some m) = true := by simpa using hin
          simpa using this
        have hFm : okF st m := hs.afe m hin'
        rw [if_neg (by simpa using hmfe)]
        -- the clone
        have hclone : ∀ (st0 : PState), st0.arena = st.arena → st0.openElements = st.openElements →
            st0.activeFormattingElements = st.activeFormattingElements → Keep st st0 → ST st0 →
            Post (st0.arena.cloneNode m) (fun r => ∀ st1, st1 = { st0 with arena := r.1 } →
              ST st1 ∧ Keep st st1 ∧ IsEl st1.arena r.2 ∧ elemK st1.arena r.2 = elemK st.arena m ∧
              r.2 ∉ st.openElements ∧ stackK st1 = stackK st) := by
          intro st0 e1 e2 e3 hk0 hs0
          cases hcl : st0.arena.cloneNode m with
          | error e => have := (ENF_arena_cloneNode st0.arena m).out; rw [hcl] at this; exact this
          | ok r =>
            obtain ⟨a', c⟩ := r
            simp only [Post_ok]
            intro st1 hst1
            subst hst1
            obtain ⟨hext, hsz, hkc⟩ := Ext_cloneNode hcl
            have hsame : Same st0 { st0 with arena := a' } := Same_arena st0 a' hext
            have hs1 := ST_of_Same hsame hs0
            obtain ⟨ns, nm, hkm⟩ := hmel
            have hkc' : kindAt a' c = some (.element ns nm) := by rw [hkc, e1, hkm]
            refine ⟨hs1, hk0.trans (Keep_of_Same hsame), ⟨ns, nm, hkc'⟩, ?_, ?_, ?_⟩
            · unfold elemK; rw [hkc', hkm]
            · intro hmem
              have := IsEl_lt (hs.elem c hmem)
              rw [hsz, e1] at this; exact Nat.lt_irrefl _ this
            · rw [stackK_of_Same hsame hs0]; unfold stackK; rw [e1, e2]
        -- the clone branch: with or without a new bookmark
        -- (the same steps; `bm` is the bookmark passed on)
        split
        · simp only [Tr_bind]
          refine Tr_afeIndex m _ _ _ ?_
          intro p0 q0 _ _
          aa_clone (p0.length + 1)
        · aa_clone s.bookmark
