set_option hygiene false in
macro "applet_tail2" s:ident hk:ident : tactic => `(tactic|
  (refine Tr_inScope_safe d.name none (Or.inl rfl) hd hdf $s ($hk).1 _ ?_ ?_
   · intro hsafe
     simp only [if_true, Tr_bind]
     refine Tr_Good_popUntil _ _ ⟨$hk, hsafe⟩ (pred_name_view d.name $s) _ ?_
     intro _ st3 h3
     refine Tr_KP_step _ h3 _ ?_
     intro _ st4 h4; simp only [Tr_pure]; exact h4
   · simp only [Bool.false_eq_true, if_false]
     exact $hk))

set_option hygiene false in
macro "applet_tail" s:ident hk:ident : tactic => `(tactic|
  (apply Tr_RO; intro _
   apply Tr_RO; intro _
   split
   · simp only [Tr_bind]
     refine Tr_SV_step _ $hk _ ?_
     intro _ st2 hk2 _
     applet_tail2 st2 hk2
   · simp only [Tr_bind]
     applet_tail2 $s $hk))

instance KP_InBody_endTagAppletMarqueeObject (tok : Token) [hNm : Fct (notPN tok)] [hNf : Fct (notFMT tok)] :
    KP (InBody_endTagAppletMarqueeObject tok) := ⟨fun st hs => by
  unfold InBody_endTagAppletMarqueeObject
  simp only [Tr_bind, Tr_monadLift]
  cases ht : tok.tag "InBodyPhase.endTagAppletMarqueeObject" with
  | error e => have := (ENF_tag tok "InBodyPhase.endTagAppletMarqueeObject").out; rw [ht] at this; exact this
  | ok d =>
    simp only [Post_ok, Tr_bind]
    have hd : PN.contains d.name = false := by rw [tag_name ht]; exact hNm.out
    have hdf : FMT.contains d.name = false := by rw [tag_name ht]; exact hNf.out
    have hk0 : KPpost st st := KPpost.refl hs
    apply Tr_RO; intro b1
    split
    · simp only [Tr_bind]
      refine Tr_KP_step _ hk0 _ ?_
      intro _ st1 hk1
      applet_tail st1 hk1
    · simp only [Tr_bind]
      applet_tail st hk0⟩
