theorem T_Text_endTagScript (tok : Token) (st : PState) (hi : Inv st) (hp : st.phase = some .text) :
    Tr (Text_endTagScript tok) st (fun _ st' => Inv st') := by
  unfold Text_endTagScript restoreOriginalPhase
  simp only [Tr_bind, Tr_openPop]
  intro x _
  apply Tr_RO; intro _
  apply Tr_RO; intro _
  simp only [Tr_modify, Tr_pure]
  exact textPop_tr st hi hp
