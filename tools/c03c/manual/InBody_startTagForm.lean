instance KP_InBody_startTagForm (tok : Token) [hNs : Fct (NsNone tok)] [hNm : Fct (notPN tok)] :
    KP (InBody_startTagForm tok) := ⟨fun st hs => by
  unfold InBody_startTagForm
  simp only [Tr_bind, Tr_get]
  split
  · exact (by kp_auto : KP (do parseError "unexpected-start-tag" [("name", lit "form")]; pure (none : Option Token))).out st hs
  · simp only [Tr_bind]
    refine Tr_mono ((by infer_instance : KP closePIfInButtonScope).out st hs) ?_
    intro _ st1 h1
    refine Tr_mono (insertElementTok_pushed tok _ st1 h1.1 hNs.out hNm.out) ?_
    rintro x st2 ⟨e, hpu, he, hpe⟩
    simp only [Tr_openLast]
    intro cur hcur
    have hcx : cur = x := by rw [hpu.op] at hcur; simpa using hcur.symm
    subst hcx
    simp only [Tr_modify, Tr_pure]
    have h2 : KPpost st1 st2 := ⟨hpu.str, hpu.keep, hpu.p⟩
    refine KPpost.trans h1 (KPpost.trans h2 ⟨?_, ⟨rfl, rfl, Ext.refl _⟩, rfl⟩)
    exact ST_setForm hpu.str (some cur) (fun i hi => by
      cases hi
      exact ⟨hpu.el, by rw [hpu.k]; exact ⟨hpe, fun _ => by rw [he, dnsOf_of_cfg hpu.keep.cf]⟩⟩)⟩
