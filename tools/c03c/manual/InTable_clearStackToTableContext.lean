theorem T_InTable_clearStackToTableContext (st : PState) (hs : ST st) :
    Tr InTable_clearStackToTableContext st
      (fun _ st' => Cleared Gen.Lit.InTablePhase_clearStackToTableContext_0 st st') := by
  unfold InTable_clearStackToTableContext
  exact clearStack_spec_each _ _ (fun _ => pure ()) st hs

instance KS_InTable_clearStackToTableContext : KS InTable_clearStackToTableContext :=
  ⟨fun st hs => Tr_mono (T_InTable_clearStackToTableContext st hs) (fun _ _ h => ⟨(h.st hs).1, (h.st hs).2.1⟩)⟩
