theorem nsE_mathml_ne : ∀ a, nsE "mathml" = .ok a → a ≠ htmlNs := by
  intro a h; have : nsE "mathml" = .ok (match nsE "mathml" with | .ok x => x | .error _ => []) := by decide
  rw [this] at h; cases h; decide
theorem nsE_svg_ne : ∀ a, nsE "svg" = .ok a → a ≠ htmlNs := by
  intro a h; have : nsE "svg" = .ok (match nsE "svg" with | .ok x => x | .error _ => []) := by decide
  rw [this] at h; cases h; decide

/-- a tag with an explicit foreign namespace makes an unprotected element -/
theorem dOK_foreign (d : TagData) (a : Str) (ha : a ≠ htmlNs) (hd : d.ns = some (some a)) : ∀ dns, dOK dns d := by
  intro dns
  unfold dOK dEl
  rw [hd]
  have hH : isH (some a, d.name) = false := by
    unfold isH; simp only [Option.getD_some]
    cases h : (a == htmlNs) with
    | false => rfl
    | true => exact absurd (beq_iff_eq.1 h) ha
  exact ⟨by unfold prot; rw [hH]; rfl, fun h => by rw [hH] at h; cases h⟩

/-- the common part of `InBodyPhase.startTagMath` / `startTagSvg` -/
theorem foreign_insert_kp (d : TagData) (a : Str) (ha : a ≠ htmlNs) (hd : d.ns = some (some a)) (site : String)
    {st0 st : PState} (hk : KPpost st0 st) :
    Tr (do let _ ← insertElement d
           if d.selfClosing then
             let _ ← openPop site
             acknowledgeSelfClosing d
           pure (none : Option Token)) st (fun _ st' => KPpost st0 st') := by
  simp only [Tr_bind]
  refine Tr_insertElement_kp d hk (dOK_foreign d a ha hd) _ ?_
  intro x st1 hk1 hpu
  split
  · simp only [Tr_bind]
    refine Tr_pop_pushed site hk1 hpu (dOK_foreign d a ha hd _).1 _ ?_
    intro st2 hk2
    exact Tr_KP_step _ hk2 _ (fun _ _ h => h)
  · exact hk1

instance KP_InBody_startTagMath (tok : Token) : KP (InBody_startTagMath tok) := ⟨fun st hs => by
  unfold InBody_startTagMath
  simp only [Tr_bind, Tr_monadLift, Tr_lift]
  refine Post_mono (ENF_tag tok _).out ?_
  intro d _
  refine Tr_KP_step _ (KPpost.refl hs) _ ?_
  intro _ st1 hk1
  cases hn : nsE "mathml" with
  | error e => have := (ENF_nsE "mathml").out; rw [hn] at this; exact this
  | ok a =>
    simp only [Post_ok]
    have := foreign_insert_kp { adjustForeignAttributes (adjustMathMLAttributes d) with ns := some (some a) } a
      (nsE_mathml_ne a hn) rfl "InBodyPhase.startTagMath" hk1
    simp only [Tr_bind] at this
    exact this⟩
