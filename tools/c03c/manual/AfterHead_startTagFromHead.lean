theorem head_unprot (dns : Option Str) : okU dns (dns, nHead) :=
  ⟨prot_of_name head_notPN, fun _ => rfl⟩

/-- `AfterHeadPhase.startTagFromHead`, in the phase `afterHead`: the `head` element is pushed back for the nested
`InHeadPhase` handler and removed again -/
theorem T_AfterHead_startTagFromHead {r : Rec} {n : Nat} (hr : RecInv r n) (tok : Token) (hNs : NsNone tok)
    (hHl : isHeadLeaf tok) (h : needS .inHead tok < n) (st : PState) (hi : Inv st) (hph : st.phase = some .afterHead) :
    Tr (AfterHead_startTagFromHead r tok) st (fun _ st' => Inv st') := by
  have hn : NTp st.phase := by rw [hph]; decide
  unfold AfterHead_startTagFromHead
  simp only [Tr_bind]
  apply Tr_RO; intro d
  refine Tr_SV_keep _ st hi _ ?_
  intro _ st1 hi1 hsame
  have hph1 : st1.phase = some .afterHead := by rw [phase_of_F hsame.f]; exact hph
  have hn1 : NTp st1.phase := by rw [hph1]; decide
  have heff1 : effP st1 = some .afterHead := by rw [effP_eq_phase hn1]; exact hph1
  simp only [Tr_get]
  split
  · simp only [Tr_bind, Tr_throw]; exact NF_attributeError _
  · rename_i hd hhp
    obtain ⟨hel, hk⟩ := hi1.str.hp hd hhp
    have hne : st1.openElements ≠ [] := by
      intro hnil
      apply hi1.pcl.2.2 heff1
      unfold stackK; rw [hnil]; rfl
    have hnin : hd ∉ st1.openElements := hi1.hsh.2.2 heff1 hd hhp
    obtain ⟨g1, g2, g3, g4⟩ := ST_push hi1.str hel (by rw [hk]; exact head_unprot _) hne hnin
    unfold openPush
    simp only [Tr_bind, Tr_modify]
    have hpre : FHpre (wo st1 (st1.openElements ++ [hd])) st1.openElements hd :=
      ⟨g1, REG_of_F (st := st1) rfl hi1.reg, hph1, rfl, hhp, hnin, hne⟩
    refine Tr_mono (hr.SfromHead tok hHl h hNs _ _ _ hpre) ?_
    rintro _ st3 ⟨hs3, hr3, hh3, _, _, hcase⟩
    obtain ⟨hel3, hk3⟩ := hs3.hp hd hh3
    have hpx3 : prot (elemK st3.arena hd) = false := by rw [hk3]; exact (head_unprot _).1
    simp only [Tr_openElems, Tr_pure]
    rcases hcase with ⟨hp3, hop3⟩ | ⟨hp3, hop3', t, hop3, htxt, hth⟩
    · -- the nested handler kept the stack
      rw [hop3, List.reverse_append]
      simp only [List.reverse_cons, List.reverse_nil, List.nil_append, List.singleton_append]
      unfold AfterHead_startTagFromHead.loop
      have hel3' : IsEl st3.arena hd := hel3
      simp only [Tr_bind, Tr_nameIs hel3']
      have hname : ((elemK st3.arena hd).2 == lit "head") = true := by rw [hk3]; rfl
      rw [if_pos hname]
      unfold openRemove
      simp only [Tr_bind, Tr_openElems]
      rw [if_pos (by rw [hop3]; simp)]
      simp only [Tr_setOpen]
      have he : st3.openElements.erase hd = st1.openElements := by
        rw [hop3]; have := erase_mid st1.openElements hd [] hnin; simpa using this
      rw [he]
      obtain ⟨q1, q2⟩ := ST_remove (a := st1.openElements) (b := []) hs3 (by rw [hop3]) hpx3
      simp only [List.append_nil] at q1 q2
      have hne3 : (wo st3 st1.openElements).openElements ≠ [] := hne
      have hn3 : NTp (wo st3 st1.openElements).phase := by show NTp st3.phase; rw [hp3]; decide
      have heff3 : effP (wo st3 st1.openElements) = some .afterHead := by rw [effP_eq_phase hn3]; exact hp3
      refine ⟨REG_of_F (st := st3) rfl hr3, q1, fun hh => ?_, ?_, ?_, ?_⟩
      · have : st3.phase = some .text := hh
        rw [hp3] at this; cases this
      · rw [heff3]; exact ⟨(fun hh => nomatch hh), (fun hh => nomatch hh), fun _ => P_ne_nil q1 hne3⟩
      · unfold HSH; rw [heff3]
        refine ⟨(fun hh => nomatch hh), (fun hh => nomatch hh), fun _ h' hh' hm => ?_⟩
        have : h' = hd := by
          have h4 : st3.headPointer = some h' := hh'
          rw [hh3] at h4; exact (Option.some.inj h4).symm
        subst this; exact hnin hm
      · rw [heff3]; intro hh; cases hh
    · -- the nested handler pushed an element and entered the `text` phase
      have hte : IsEl st3.arena t := hs3.elem t (by rw [hop3]; simp)
      rw [hop3]
      have hrev : (st1.openElements ++ [hd, t]).reverse = t :: hd :: st1.openElements.reverse := by simp
      rw [hrev]
      unfold AfterHead_startTagFromHead.loop
      simp only [Tr_bind, Tr_nameIs hte]
      have hnt : ((elemK st3.arena t).2 == lit "head") = false := by
        cases hc : ((elemK st3.arena t).2 == lit "head") with
        | false => rfl
        | true => exact absurd (beq_iff_eq.1 hc) htxt.2.2
      rw [hnt]
      simp only [Bool.false_eq_true, if_false]
      unfold AfterHead_startTagFromHead.loop
      have hel3' : IsEl st3.arena hd := hel3
      simp only [Tr_bind, Tr_nameIs hel3']
      have hname : ((elemK st3.arena hd).2 == lit "head") = true := by rw [hk3]; rfl
      rw [if_pos hname]
      unfold openRemove
      simp only [Tr_bind, Tr_openElems]
      rw [if_pos (by rw [hop3]; simp)]
      simp only [Tr_setOpen]
      have he : st3.openElements.erase hd = st1.openElements ++ [t] := by
        rw [hop3]; exact erase_mid st1.openElements hd [t] hnin
      rw [he]
      obtain ⟨q1, q2⟩ := ST_remove (a := st1.openElements) (b := [t]) hs3 (by rw [hop3]) hpx3
      have hne3 : (wo st3 (st1.openElements ++ [t])).openElements ≠ [] := by
        show st1.openElements ++ [t] ≠ []; simp
      have heff3 : effP (wo st3 (st1.openElements ++ [t])) = some .afterHead := by
        show (if st3.phase = some Phase.text then st3.originalPhase else _) = _
        rw [if_pos hp3, hop3']
      refine ⟨REG_of_F (st := st3) rfl hr3, q1, fun _ => ⟨elemK st3.arena t, ?_, htxt⟩, ?_, ?_, ?_⟩
      · rw [stackK_wo]; simp
      · rw [heff3]; exact ⟨(fun hh => nomatch hh), (fun hh => nomatch hh), fun _ => P_ne_nil q1 hne3⟩
      · unfold HSH; rw [heff3]
        refine ⟨(fun hh => nomatch hh), (fun hh => nomatch hh), fun _ h' hh' hm => ?_⟩
        have : h' = hd := by
          have h4 : st3.headPointer = some h' := hh'
          rw [hh3] at h4; exact (Option.some.inj h4).symm
        subst this
        have hm' : h' ∈ st1.openElements ++ [t] := hm
        rcases List.mem_append.1 hm' with hm' | hm'
        · exact hnin hm'
        · simp only [List.mem_singleton] at hm'; exact hth hm'.symm
      · rw [heff3]; intro hh; cases hh
