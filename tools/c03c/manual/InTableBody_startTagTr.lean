theorem ctx_body_notFMT : ∀ n, Gen.Lit.InTableBodyPhase_clearStackToTableBodyContext_0.contains n = true →
    FMT.contains n = false ∧ [nTbody, nThead, nTfoot, nHtml].contains n = true := by
  have h : Gen.Lit.InTableBodyPhase_clearStackToTableBodyContext_0.all
      (fun n => !FMT.contains n && [nTbody, nThead, nTfoot, nHtml].contains n) = true := by decide
  intro n hn
  have := List.all_eq_true.1 h n (by simpa using hn)
  simpa using this

/-- `InTableBodyPhase.startTagTr`: the `tr` element sits on a row group (or `html`); in `inRow` it is in table scope -/
instance Pzn_InTableBody_startTagTr (tok : Token) [hNs : Fct (NsNone tok)] [hT : Fct (isTrTok tok)] :
    Pzn (InTableBody_startTagTr tok) := ⟨fun st hs hr => by
  unfold InTableBody_startTagTr
  simp only [Tr_bind]
  refine Tr_mono (T_InTableBody_clearStackToTableBodyContext st hs) ?_
  intro _ st1 hcl
  obtain ⟨hs1, hk1, t, ht, htn, htd⟩ := hcl.st hs
  obtain ⟨g1, g2⟩ := ctx_body_notFMT _ htn
  have hH : isH t = true := by
    have := isH_dns st1.cfg t.2
    unfold isH at this ⊢; rw [htd]; exact this
  have hname : tokName tok = nTr := hT.out
  refine Tr_mono (insertElementTok_on tok _ st1 hs1 hNs.out ht g1 (by rw [hname]; decide)
    (pairOK_tr _ _ hH g2 hname)) ?_
  intro x st2 hpu
  have hr2 : REG st2 := REG_of_F (hk1.trans hpu.keep).f hr
  have hP : P (stackK st2) = P (stackK st1) ++ [nTr] := by
    have := P_push_prot hpu (by rw [hname]; exact prot_dns _ _ (by decide))
    rw [this, hname]
  unfold setPhase
  simp only [Tr_modify, Tr_pure]
  exact ⟨Inv_setPhase hpu.str hr2 _ (by decide) ⟨(fun h => nomatch h), fun _ => by rw [hP]; exact ROW_tr _, (fun h => nomatch h)⟩
    (by decide) (fun h => nomatch h), (by decide : NTp (some Phase.inRow)), (by decide : NSel (some Phase.inRow)),
    (by decide : ¬ headish (some Phase.inRow))⟩⟩
