instance KP_InBody_startTagHeading (tok : Token) [hNs : Fct (NsNone tok)] [hNm : Fct (notPN tok)] :
    KP (InBody_startTagHeading tok) := ⟨fun st hs => by
  unfold InBody_startTagHeading
  simp only [Tr_bind, Tr_monadLift]
  cases ht : tok.tag "InBodyPhase.startTagHeading" with
  | error e => have := (ENF_tag tok "InBodyPhase.startTagHeading").out; rw [ht] at this; exact this
  | ok d =>
    simp only [Post_ok, Tr_bind]
    have hd := dOK_of_tag ht hNs.out hNm.out
    refine Tr_KP_step _ (KPpost.refl hs) _ ?_
    intro _ st1 hk1
    simp only [Tr_openLast]
    intro x hx
    have hxe := top_el hk1.1 hx
    simp only [Tr_nodeName hxe]
    split
    · rename_i hh
      simp only [Tr_bind]
      refine Tr_SV_step _ hk1 _ ?_
      intro _ st2 hk2 hsame
      refine Tr_mono (openPop_kp _ st2 hk2.1 ?_) ?_
      · intro y hy
        rw [(top_of_Same hk1.1 hsame hx hy).2]
        exact prot_of_name (heading_unprot _ hh)
      · intro _ st3 hk3
        refine Tr_insertElement_kp d (hk2.trans hk3) hd _ ?_
        intro _ st4 hk4 _
        exact hk4
    · simp only [Tr_pure, Tr_bind]
      refine Tr_insertElement_kp d hk1 hd _ ?_
      intro _ st4 hk4 _
      exact hk4⟩
