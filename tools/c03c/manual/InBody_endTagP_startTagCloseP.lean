theorem KP_InBody_endTagP_startTagCloseP : ∀ (depth : Nat) (b : Bool) (tok : Token),
    (b = false → NsNone tok ∧ notPN tok) → KP (InBody_endTagP_startTagCloseP depth b tok)
  | 0, _, _, _ => by unfold InBody_endTagP_startTagCloseP; infer_instance
  | depth + 1, true, tok, _ => ⟨fun st hs => by
      have ih1 := KP_InBody_endTagP_startTagCloseP depth false (impliedStart "p") (fun _ => ⟨rfl, p_notPN⟩)
      have ih2 := KP_InBody_endTagP_startTagCloseP depth true (impliedEnd "p") (fun h => nomatch h)
      unfold InBody_endTagP_startTagCloseP
      simp only [Tr_bind]
      refine Tr_inScope_safe (lit "p") (some "button") (Or.inr (Or.inl rfl)) p_notPN p_notFMT st hs _ ?_ ?_
      · intro hsafe
        simp only [Bool.not_true, Bool.false_eq_true, if_false, Tr_bind]
        refine Tr_Good_implied _ (Good.init hs hsafe) (fun n hn _ => by simp at hn; rw [hn]) _ ?_
        intro st1 hg1
        apply Tr_RO; intro _
        apply Tr_RO; intro _
        split
        · simp only [Tr_bind]
          refine Tr_Good_SV _ hg1 _ ?_
          intro _ st2 hg2
          refine Tr_Good_popUntil _ _ hg2 (pred_nameIs_view "p" st2) _ ?_
          intro _ st3 h3; exact h3
        · simp only [Tr_bind]
          refine Tr_Good_popUntil _ _ hg1 (pred_nameIs_view "p" st1) _ ?_
          intro _ st3 h3; exact h3
      · simp only [Bool.not_false, if_true, Tr_bind]
        refine Tr_mono (ih1.out st hs) ?_
        intro _ st1 h1
        refine Tr_mono ((SV_parseError _ _).out st1) ?_
        intro _ st2 hsame
        have hst2 : ST st2 := ST_of_Same hsame h1.1
        refine Tr_mono (ih2.out st2 hst2) ?_
        intro _ st3 h3
        simp only [Tr_pure]
        exact KPpost.trans h1 (KPpost.trans ⟨hst2, Keep_of_Same hsame, by rw [stackK_of_Same hsame h1.1]⟩ h3)⟩
  | depth + 1, false, tok, htok => by
      have ih2 := KP_InBody_endTagP_startTagCloseP depth true (impliedEnd "p") (fun h => nomatch h)
      haveI : Fct (NsNone tok) := ⟨(htok rfl).1⟩
      haveI : Fct (notPN tok) := ⟨(htok rfl).2⟩
      unfold InBody_endTagP_startTagCloseP
      kp_auto

instance KP_InBody_endTagP (tok : Token) : KP (InBody_endTagP tok) := by
  unfold InBody_endTagP
  haveI := fun d => KP_InBody_endTagP_startTagCloseP d true tok (fun h => nomatch h)
  kp_auto

instance KP_InBody_startTagCloseP (tok : Token) [hNs : Fct (NsNone tok)] [hNm : Fct (notPN tok)] :
    KP (InBody_startTagCloseP tok) := by
  unfold InBody_startTagCloseP
  haveI := fun d => KP_InBody_endTagP_startTagCloseP d false tok (fun _ => ⟨hNs.out, hNm.out⟩)
  kp_auto
