/-- the stack of a state in the phase `inHead`: the `head` element is the current node -/
theorem inHead_shape {st : PState} (hi : Inv st) (hp : st.phase = some .inHead) :
    ∃ pre h, st.openElements = pre ++ [h] ∧ st.headPointer = some h ∧ h ∉ pre ∧ pre ≠ [] := by
  have hn : NTp st.phase := by rw [hp]; decide
  obtain ⟨pre, h, h1, h2⟩ := hi.hsh.1 (by rw [effP_eq_phase hn]; exact hp)
  have h1' : st.openElements = pre ++ [h] := by
    unfold cIds at h1; rw [if_neg hn.1] at h1; exact h1
  have hnd := hi.str.nodup
  rw [h1'] at hnd
  have hnin : h ∉ pre := fun hm => (List.nodup_append.1 hnd).2.2 h hm h (by simp) rfl
  refine ⟨pre, h, h1', h2, hnin, ?_⟩
  intro hnil
  have hb := hi.str.bot (elemK st.arena h) (by unfold stackK; rw [h1', hnil]; rfl)
  rw [(hi.str.hp h h2).2] at hb
  exact absurd (congrArg Prod.snd hb) (by decide : nHead ≠ nHtml)

/-- `InHeadPhase.endTagHead` in the phase `inHead`: the `head` element leaves the stack, the phase is `afterHead` -/
instance Ph_InHead_endTagHead (tok : Token) : Ph .inHead (InHead_endTagHead tok) := ⟨fun st hi hp => by
  obtain ⟨pre, h, h1, h2, hnin, hne⟩ := inHead_shape hi hp
  unfold InHead_endTagHead
  simp only [Tr_bind, Tr_openPop]
  intro x hx
  have hxh : x = h := by rw [h1] at hx; simpa using hx.symm
  subst hxh
  have hdl : st.openElements.dropLast = pre := by rw [h1, List.dropLast_concat]
  rw [hdl]
  have hxe : IsEl (wo st pre).arena x := (hi.str.hp x h2).1
  simp only [Tr_nameIs hxe, Tr_pyAssert]
  intro _
  unfold setPhase
  simp only [Tr_modify, Tr_pure]
  have hs1 : ST (wo st pre) := ST_prefix (post := [x]) (by rw [← h1]; exact hi.str)
  refine Inv_setPhase_h hs1 (REG_of_F (st := st) rfl hi.reg) .afterHead (by decide)
    ⟨(fun h => nomatch h), (fun h => nomatch h), fun _ => P_ne_nil hs1 hne⟩ ?_ (by decide)
  have he : effP ({ wo st pre with phase := some Phase.afterHead } : PState) = some Phase.afterHead := rfl
  refine ⟨fun h => ?_, fun h => ?_, fun _ h' hh' hm => ?_⟩
  · rw [he] at h; cases h
  · rw [he] at h; cases h
  · have : h' = x := by
      have h3 : st.headPointer = some h' := hh'
      rw [h2] at h3; exact (Option.some.inj h3).symm
    subst this; exact hnin hm⟩
