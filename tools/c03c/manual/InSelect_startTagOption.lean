set_option hygiene false in
/-- `if openElements[-1].name == nm: pop`, then `$rest` from the new state (the two branches of the `if` repeat it) -/
macro "sel_popif" nm:term "then" rest:tacticSeq : tactic => `(tactic|
  (simp only [Tr_bind, Tr_openLast]
   intro x hx
   have hxe := top_el (‹GS st _›).1.1 hx
   simp only [Tr_nameIs hxe]
   split
   · rename_i hname
     simp only [Tr_bind, Tr_openPop]
     intro y hy
     have hname' := beq_iff_eq.1 hname
     have hg' := GS_pop ‹GS st _› hx (by first | exact Or.inl hname' | exact Or.inr hname')
     ($rest)
   · ($rest)))

instance KG_InSelect_startTagOption (tok : Token) [hNs : Fct (NsNone tok)] [hO : Fct (isOptTok tok)] :
    KG (InSelect_startTagOption tok) := ⟨fun st hs => by
  have hg0 : GS st st := GS.refl hs
  unfold InSelect_startTagOption
  dsimp only
  sel_popif "option" then
    simp only [Tr_bind, Tr_pure]
    exact Tr_GS_insertTok tok _ hNs.out hO.out ‹GS st _› _ (fun _ _ h => h)⟩
