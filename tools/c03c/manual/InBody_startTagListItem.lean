theorem Tr_Pn_step {α : Type} (m : M α) (h : Pn m) {st : PState} (hi : Inv st) (hn : NT st)
    (Q : α → PState → Prop) (hq : ∀ a st', Inv st' → NT st' → Q a st') : Tr m st Q :=
  Tr_mono (h.out st hi hn) (fun a st' e => hq a st' e.1 e.2)

theorem Pn_InBody_startTagListItem {r : Rec} {n : Nat} (hr : RecInv r n) (tok : Token) [hNs : Fct (NsNone tok)]
    [hNm : Fct (notPN tok)] (h : 2 < n) : Pn (InBody_startTagListItem r tok) := ⟨fun st hi hn => by
  unfold InBody_startTagListItem
  simp only [Tr_bind, Tr_monadLift]
  cases ht : tok.tag "InBodyPhase.startTagListItem" with
  | error e => have := (ENF_tag tok "InBodyPhase.startTagListItem").out; rw [ht] at this; exact this
  | ok d =>
    simp only [Post_ok]
    haveI : Fct (∀ dns, dOK dns d) := ⟨dOK_of_tag ht hNs.out hNm.out⟩
    refine Tr_Pn_step _ inferInstance hi hn _ ?_
    intro _ st1 hi1 hn1
    split
    · rename_i p hp
      have hst : ∀ nm ∈ p.2, impliedNames.contains nm = true :=
        stopNames_implied p (List.mem_of_find?_eq_some hp)
      simp only [Tr_pure, Tr_bind, Tr_openElems]
      refine Tr_Pn_step _ (Pn_InBody_startTagListItem_loop hr h _ p.2 hst _) hi1 hn1 _ ?_
      intro _ st2 hi2 hn2
      apply Tr_RO; intro b
      split
      · have hpn := RecInv.pnCurE hr "InBodyPhase.startTagListItem" (impliedEnd "p") h rfl Fct.out
          (fun _ => (do let _ ← insertElement d; pure (none : Option Token) : M (Option Token)))
        have := hpn.out st2 hi2 hn2
        simp only [Tr_bind] at this ⊢
        exact this
      · have hpn : Pn (do let _ ← insertElement d; pure (none : Option Token) : M (Option Token)) := inferInstance
        have := hpn.out st2 hi2 hn2
        simp only [Tr_bind] at this ⊢
        exact this
    · simp only [Tr_bind, Tr_throw]; exact NF_keyError _⟩
