instance KP_InTable_startTagForm (tok : Token) [hNs : Fct (NsNone tok)] [hNm : Fct (notPN tok)] :
    KP (InTable_startTagForm tok) := ⟨fun st hs => by
  unfold InTable_startTagForm
  simp only [Tr_bind]
  refine Tr_SV_step _ (KPpost.refl hs) _ ?_
  intro _ st1 hk1 _
  simp only [Tr_get]
  split
  · simp only [Tr_bind]
    refine Tr_mono (insertElementTok_pushed tok _ st1 hk1.1 hNs.out hNm.out) ?_
    rintro x st2 ⟨e, hpu, he, hpe⟩
    simp only [Tr_openLast]
    intro cur hcur
    have hcx : cur = x := by rw [hpu.op] at hcur; simpa using hcur.symm
    subst hcx
    simp only [Tr_modify]
    have hs3 : ST { st2 with formPointer := some cur } := ST_setForm hpu.str (some cur) (fun i hi => by
      cases hi
      exact ⟨hpu.el, by rw [hpu.k]; exact ⟨hpe, fun _ => by rw [he, dnsOf_of_cfg hpu.keep.cf]⟩⟩)
    have hk3 : KPpost st { st2 with formPointer := some cur } :=
      hk1.trans ⟨hs3, ⟨hpu.keep.f, hpu.keep.cf, hpu.keep.ar⟩, hpu.p⟩
    refine Tr_mono (openPop_kp _ _ hs3 ?_) ?_
    · intro y hy
      have hy' : st2.openElements.getLast? = some y := hy
      have : y = cur := by rw [hpu.op] at hy'; simpa using hy'.symm
      subst this
      show prot (elemK st2.arena y) = false
      rw [hpu.k]; exact hpe
    · intro _ st4 hk4; simp only [Tr_pure]; exact hk3.trans hk4
  · simp only [Tr_pure]; exact hk1⟩
