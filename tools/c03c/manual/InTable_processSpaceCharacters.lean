theorem Pk_InTable_processSpaceCharacters {r : Rec} {n : Nat} (hr : RecInv r n) (tok : Token) [hNs : Fct (NsNone tok)] (h : 0 < n) :
    Pk (InTable_processSpaceCharacters r tok) := ⟨fun st hi hn => by
  have hi1 := Pk_enterInTableText.out st hi hn
  unfold enterInTableText at hi1
  simp only [Tr_modify] at hi1
  unfold InTable_processSpaceCharacters enterInTableText
  simp only [Tr_bind, Tr_modify, Tr_curPhase]
  intro p hp
  cases hp
  exact Tr_mono (hr.Sp .inTableText tok (by simpa [needSp] using h) hNs.out _ hi1 rfl) (fun _ _ h => h)⟩
