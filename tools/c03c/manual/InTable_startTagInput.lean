theorem Pk_InTable_startTagInput {r : Rec} {n : Nat} (hr : RecInv r n) (tok : Token) [hNs : Fct (NsNone tok)]
    [hNm : Fct (notPN tok)] (h : needS .inBody tok < n) : Pk (InTable_startTagInput r tok) := ⟨fun st hi hn => by
  unfold InTable_startTagInput
  simp only [Tr_bind, Tr_monadLift]
  cases ht : tok.tag "InTablePhase.startTagInput" with
  | error e => have := (ENF_tag tok "InTablePhase.startTagInput").out; rw [ht] at this; exact this
  | ok d =>
    simp only [Post_ok]
    haveI : Fct (∀ dns, dOK dns d) := ⟨dOK_of_tag ht hNs.out hNm.out⟩
    have hpn : Pk (do parseError "unexpected-hidden-input-in-table"
                      let _ ← insertElement d
                      let _ ← openPop "InTablePhase.startTagInput"
                      pure (none : Option Token) : M (Option Token)) := by
      refine @Pk_of_Pn _ _ (@Pn_of_KP _ _ ?_)
      kp_auto
    have hpk : Pk (InTable_startTagOther r tok) := Pk_InTable_startTagOther hr tok h
    have h1 := hpn.out st hi hn
    have h2 := hpk.out st hi hn
    simp only [Tr_bind, Tr_pure] at h1 h2
    repeat' split
    all_goals first
      | (simp only [Tr_bind, Tr_pure]; exact h1)
      | (simp only [Tr_bind, Tr_pure]; exact h2)⟩
