theorem adjJ_push_table (s : List El) (e : El) (h : adjJ s = true) (he : e.2 = nTable) : adjJ (s ++ [e]) = true := by
  unfold adjJ at h ⊢
  have hej : junk e = false := not_junk_of_name (by rw [he]; decide)
  rw [nj_append, nj_cons_nj hej]
  have : nj ([] : List El) = [] := rfl
  rw [this, adjOK_snoc, h]
  cases (nj s).getLast? with
  | none => rfl
  | some p => simp [pairOK_table p e he]

theorem Pk_InBody_startTagTable {r : Rec} {n : Nat} (hr : RecInv r n) (tok : Token) [hNs : Fct (NsNone tok)]
    [hT : Fct (isTableTok tok)] (h : 0 < n) : Pk (InBody_startTagTable r tok) := by
  have tailPk : Pk (do
      let _ ← insertElementTok tok "InBodyPhase.startTagTable"
      setFramesetOK false
      setPhase .inTable
      pure (none : Option Token)) := ⟨fun st hi hn => by
    simp only [Tr_bind]
    refine Tr_mono (insertElementTok_pushedG tok _ st hi.str hNs.out (adjJ_push_table _ _ hi.str.adj hT.out)) ?_
    intro x st1 hpu
    have hr1 : REG st1 := REG_of_F hpu.keep.f hi.reg
    exact (by pz_auto : Pz (do setFramesetOK false; setPhase .inTable; pure (none : Option Token))).out st1 hpu.str hr1 |>
      fun h => by simpa only [Tr_bind] using h⟩
  unfold InBody_startTagTable
  pk_auto
