theorem ctx_row_notFMT : ∀ n, Gen.Lit.InRowPhase_clearStackToTableRowContext_0.contains n = true →
    FMT.contains n = false ∧ [nTr, nHtml].contains n = true := by
  have h : Gen.Lit.InRowPhase_clearStackToTableRowContext_0.all
      (fun n => !FMT.contains n && [nTr, nHtml].contains n) = true := by decide
  intro n hn
  have := List.all_eq_true.1 h n (by simpa using hn)
  simpa using this

/-- `InRowPhase.startTagTableCell`: the cell sits on `tr` (or `html`); in `inCell` it is in table scope -/
instance Pzn_InRow_startTagTableCell (tok : Token) [hNs : Fct (NsNone tok)] [hC : Fct (isCellTok tok)] :
    Pzn (InRow_startTagTableCell tok) := ⟨fun st hs hr => by
  unfold InRow_startTagTableCell
  simp only [Tr_bind]
  refine Tr_mono (T_InRow_clearStackToTableRowContext st hs) ?_
  intro _ st1 hcl
  obtain ⟨hs1, hk1, t, ht, htn, htd⟩ := hcl.st hs
  obtain ⟨g1, g2⟩ := ctx_row_notFMT _ htn
  have hH : isH t = true := by
    have := isH_dns st1.cfg t.2
    unfold isH at this ⊢; rw [htd]; exact this
  have hname : tokName tok = nTd ∨ tokName tok = nTh := hC.out
  have hnf : FMT.contains (tokName tok) = false := by rcases hname with h | h <;> rw [h] <;> decide
  have hpn : PN.contains (tokName tok) = true := by rcases hname with h | h <;> rw [h] <;> decide
  refine Tr_mono (insertElementTok_on tok _ st1 hs1 hNs.out ht g1 hnf (pairOK_cell _ _ hH g2 hname)) ?_
  intro x st2 hpu
  have hr2 : REG st2 := REG_of_F (hk1.trans hpu.keep).f hr
  have hP : P (stackK st2) = P (stackK st1) ++ [tokName tok] := P_push_prot hpu (prot_dns _ _ hpn)
  unfold setPhase
  simp only [Tr_modify]
  have hi3 : Inv { st2 with phase := some Phase.inCell } :=
    Inv_setPhase hpu.str hr2 _ (by decide) ⟨fun _ => by
      rw [hP]; rcases hname with h | h <;> rw [h]
      · exact CELL_td _
      · exact CELL_th _, (fun h => nomatch h), (fun h => nomatch h)⟩ (by decide) (fun h => nomatch h)
  exact (by pn_auto : Pn (do afeAppend none; pure (none : Option Token) : M (Option Token))).out _ hi3
    ⟨(by decide : NTp (some Phase.inCell)), (by decide : NSel (some Phase.inCell)), (by decide : ¬ headish (some Phase.inCell))⟩⟩
