instance KP_InBody_startTagSvg (tok : Token) : KP (InBody_startTagSvg tok) := ⟨fun st hs => by
  unfold InBody_startTagSvg
  simp only [Tr_bind, Tr_monadLift, Tr_lift]
  refine Post_mono (ENF_tag tok _).out ?_
  intro d _
  refine Tr_KP_step _ (KPpost.refl hs) _ ?_
  intro _ st1 hk1
  cases hn : nsE "svg" with
  | error e => have := (ENF_nsE "svg").out; rw [hn] at this; exact this
  | ok a =>
    simp only [Post_ok]
    have := foreign_insert_kp { adjustForeignAttributes (adjustSVGAttributes d) with ns := some (some a) } a
      (nsE_svg_ne a hn) rfl "InBodyPhase.startTagSvg" hk1
    simp only [Tr_bind] at this
    exact this⟩

