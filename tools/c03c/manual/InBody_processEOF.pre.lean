instance SV_InBody_processEOF_loop : ∀ l, SV (InBody_processEOF.loop l)
  | [] => by unfold InBody_processEOF.loop; infer_instance
  | node :: rest => by
    haveI := SV_InBody_processEOF_loop rest
    unfold InBody_processEOF.loop; sv_auto
