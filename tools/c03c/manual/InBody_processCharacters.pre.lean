/-- `InBodyPhase.processCharacters` (also the target of `InTableTextPhase.flushCharacters`): formatting elements are
reconstructed on top of the stack, nothing else happens to it -/
theorem T_InBody_processCharacters_grown (tok : Token) (st : PState) (hs : ST st) :
    Tr (InBody_processCharacters tok) st (fun _ st' => KPpost st st' ∧ Grown st st') := by
  unfold InBody_processCharacters
  simp only [Tr_bind, Tr_monadLift]
  apply Post_ENF
  intro data
  split
  · simp only [Tr_pure]; exact ⟨KPpost.refl hs, Grown.refl _⟩
  · refine (Tr_bind ..).2 (Tr_mono (reconstruct_spec st hs) ?_)
    rintro _ st1 ⟨hk1, hg1⟩
    refine Tr_SV_step _ hk1 _ ?_
    intro _ st2 hk2 hsame
    exact ⟨hk2, hg1.trans (Grown_of_Same hsame)⟩
