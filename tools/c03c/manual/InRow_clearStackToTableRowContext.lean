theorem T_InRow_clearStackToTableRowContext (st : PState) (hs : ST st) :
    Tr InRow_clearStackToTableRowContext st
      (fun _ st' => Cleared Gen.Lit.InRowPhase_clearStackToTableRowContext_0 st st') := by
  unfold InRow_clearStackToTableRowContext
  exact @clearStack_spec_each _ _ _ (fun n => by sv_auto) st hs

instance KS_InRow_clearStackToTableRowContext : KS InRow_clearStackToTableRowContext :=
  ⟨fun st hs => Tr_mono (T_InRow_clearStackToTableRowContext st hs) (fun _ _ h => ⟨(h.st hs).1, (h.st hs).2.1⟩)⟩
