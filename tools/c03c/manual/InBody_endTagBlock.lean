/-- the name of the token is not one of those that `generateImpliedEndTags` pops -/
def notImplied (tok : Token) : Prop := Gen.Lit.TB_TreeBuilder_generateImpliedEndTags_0.contains (tokName tok) = false

set_option hygiene false in
/-- the body of `InBodyPhase.endTagBlock` after the `pre` special case, from the state `$s` with `$hk : KPpost st $s` -/
macro "block_tail" s:ident hk:ident : tactic => `(tactic|
  (refine Tr_inScope_safe d.name none (Or.inl rfl) hd hdf $s ($hk).1 _ ?_ ?_
   · intro hsafe
     have hg0 : Good [d.name] st $s := ⟨$hk, hsafe⟩
     simp only [if_true, Tr_bind]
     refine Tr_Good_implied none hg0 (fun n hn hi => by
       simp at hn; subst hn; rw [hdi] at hi; cases hi) _ ?_
     intro st2 hg2
     apply Tr_RO; intro _
     apply Tr_RO; intro _
     split
     · simp only [Tr_bind]
       refine Tr_Good_SV _ hg2 _ ?_
       intro _ st3 hg3
       refine Tr_Good_popUntil _ _ hg3 (pred_name_view d.name st3) _ ?_
       intro _ st4 h4; simp only [Tr_pure]; exact h4
     · simp only [Tr_bind, Tr_pure]
       refine Tr_Good_popUntil _ _ hg2 (pred_name_view d.name st2) _ ?_
       intro _ st4 h4; exact h4
   · simp only [Bool.false_eq_true, if_false, Tr_bind, Tr_pure]
     apply Tr_RO; intro _
     apply Tr_RO; intro _
     split
     · exact Tr_SV_step _ $hk _ (fun _ _ h _ => h)
     · exact $hk))

instance KP_InBody_endTagBlock (tok : Token) [hNm : Fct (notPN tok)] [hNi : Fct (notImplied tok)]
    [hNf : Fct (notFMT tok)] :
    KP (InBody_endTagBlock tok) := ⟨fun st hs => by
  unfold InBody_endTagBlock
  simp only [Tr_bind, Tr_monadLift]
  cases ht : tok.tag "InBodyPhase.endTagBlock" with
  | error e => have := (ENF_tag tok "InBodyPhase.endTagBlock").out; rw [ht] at this; exact this
  | ok d =>
    simp only [Post_ok]
    have hd : PN.contains d.name = false := by rw [tag_name ht]; exact hNm.out
    have hdi : Gen.Lit.TB_TreeBuilder_generateImpliedEndTags_0.contains d.name = false := by
      rw [tag_name ht]; exact hNi.out
    have hdf : FMT.contains d.name = false := by rw [tag_name ht]; exact hNf.out
    have hk0 : KPpost st st := KPpost.refl hs
    split
    · simp only [Tr_bind]
      refine @Tr_SV_step _ _ (SV_modify (fun st => { st with inBodyDropNewline := false })
        (fun _ => ⟨rfl, rfl, rfl, rfl, rfl, rfl, Ext.refl _⟩)) _ _ hk0 _ ?_
      intro _ st1 hk1 _
      block_tail st1 hk1
    · simp only [Tr_bind]
      block_tail st hk0⟩
