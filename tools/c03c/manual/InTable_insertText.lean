/-- `InTablePhase.insertText`: the characters go through `InBodyPhase.processCharacters` -/
theorem T_InTable_insertText {r : Rec} {n : Nat} (hr : RecInv r n) (tok : Token) (h : 0 < n) {st0 st : PState}
    (hk : KPpost st0 st ∧ Grown st0 st) :
    Tr (InTable_insertText r tok) st (fun _ st' => KPpost st0 st' ∧ Grown st0 st') := by
  unfold InTable_insertText
  simp only [Tr_bind, Tr_get]
  refine Tr_SV_step _ hk.1 _ ?_; intro _ st1 hk1 hs1
  refine Tr_mono (hr.ChBody tok (by simpa [needCh] using h) st1 hk1.1) ?_
  intro _ st2 hk2
  refine Tr_SV_step _ (hk1.trans hk2.1) _ ?_
  intro _ st3 hk3 hs3
  exact ⟨hk3, (hk.2.trans (Grown_of_Same hs1)).trans (hk2.2.trans (Grown_of_Same hs3))⟩
