instance KP_InBody_startTagA (tok : Token) [hNs : Fct (NsNone tok)] [hF : Fct (isFMT tok)] :
    KP (InBody_startTagA tok) := ⟨fun st hs => by
  have hk0 : KPpost st st := KPpost.refl hs
  have rest : ∀ st1, KPpost st st1 →
      Tr (do reconstructActiveFormattingElements; InBody_addFormattingElement tok; pure (none : Option Token)) st1
        (fun _ st' => KPpost st st') := by
    intro st1 hk1
    exact @Tr_KP_step _ _ (by kp_auto) _ _ hk1 _ (fun _ _ h => h)
  unfold InBody_startTagA
  simp only [Tr_bind]
  refine elementInAfe_spec _ st _ ?_
  intro r hr
  cases r with
  | none =>
    dsimp only
    have := rest st hk0
    simp only [Tr_bind, Tr_pure] at this ⊢
    exact this
  | some x =>
    dsimp only
    have hFx : okF st x := hs.afe x (hr x rfl)
    simp only [Tr_bind]
    refine Tr_SV_step _ hk0 _ ?_
    intro _ st1 hk1 _
    refine Tr_KP_step _ hk1 _ ?_
    intro _ st2 hk2
    have hpx : ∀ st', KPpost st st' → (IsEl st'.arena x → prot (elemK st'.arena x) = false) := by
      intro st' hk' _
      exact (okU_of_okF (okF_of_Keep hk'.2.1 hFx)).1
    apply Tr_RO; intro b1
    have step2 : ∀ st3, KPpost st st3 → Tr (do
        if (← inAfe x) then afeRemove x "InBodyPhase.startTagA"
        reconstructActiveFormattingElements
        InBody_addFormattingElement tok
        pure (none : Option Token)) st3 (fun _ st' => KPpost st st') := by
      intro st3 hk3
      exact @Tr_KP_step _ _ (by kp_auto) _ _ hk3 _ (fun _ _ h => h)
    split
    · simp only [Tr_bind]
      refine Tr_mono (openRemove_kp x _ st2 hk2.1 (hpx st2 hk2)) ?_
      intro _ st3 hk3
      have := step2 st3 (hk2.trans hk3)
      simp only [Tr_bind] at this ⊢
      exact this
    · have := step2 st2 hk2
      simp only [Tr_bind, Tr_pure] at this ⊢
      exact this⟩
