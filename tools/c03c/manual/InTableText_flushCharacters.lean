theorem T_InTableText_flushCharacters {r : Rec} {n : Nat} (hr : RecInv r n) (h : 0 < n) (st : PState) (hs : ST st) :
    Tr (InTableText_flushCharacters r) st (fun _ st' => KPpost st st' ∧ Grown st st') := by
  have hk0 : KPpost st st ∧ Grown st st := ⟨KPpost.refl hs, Grown.refl _⟩
  unfold InTableText_flushCharacters
  simp only [Tr_bind, Tr_get]
  have hfin : ∀ st1, KPpost st st1 ∧ Grown st st1 →
      Tr (modify fun st => { st with characterTokens := #[] } : M PUnit) st1
        (fun _ st' => KPpost st st' ∧ Grown st st') := by
    intro st1 hk1
    exact @Tr_SV_step _ _ (SV_modify (fun st => { st with characterTokens := #[] })
      (fun _ => ⟨rfl, rfl, rfl, rfl, rfl, rfl, Ext.refl _⟩)) _ _ hk1.1 _
      (fun _ _ h hs' => ⟨h, hk1.2.trans (Grown_of_Same hs')⟩)
  split
  · simp only [Tr_bind]
    refine Tr_mono (T_InTable_insertText hr _ h hk0) ?_
    intro _ st1 hk1
    exact hfin st1 hk1
  · split
    · simp only [Tr_bind]
      refine Tr_SV_step _ hk0.1 _ ?_; intro _ st1 hk1 hs1
      exact hfin st1 ⟨hk1, Grown_of_Same hs1⟩
    · first
      | exact hfin st hk0
      | (simp only [Tr_bind, Tr_pure]; exact hfin st hk0)

/-- in the `inTableText` phase: the characters are flushed and the register returns to an ordinary phase -/
theorem T_InTableText_flush_restore {r : Rec} {n : Nat} (hr : RecInv r n) (h : 0 < n) (st : PState)
    (hi : Inv st) (hp : st.phase = some .inTableText) :
    Tr (do InTableText_flushCharacters r; InTableText_restorePhase : M Unit) st (fun _ st' => Inv st' ∧ NT st') := by
  simp only [Tr_bind]
  refine Tr_mono (T_InTableText_flushCharacters hr h st hi.str) ?_
  rintro _ st1 ⟨hk1, _⟩
  have htph := hi.reg.tph hp
  have heff : effP st = st.tableTextOriginalPhase := by
    unfold effP; rw [if_neg (by rw [hp]; decide), if_pos hp]
  have hi1 : Inv st1 := Inv_of_KPg hi (by rw [hp]; decide) (by rw [heff]; exact htph.2.1.2) (by rw [heff]; exact htph.2.2)
    hk1.1 hk1.2.1 hk1.2.2
  have hp1 : st1.phase = some .inTableText := by rw [phase_of_F hk1.2.1.f]; exact hp
  exact restoreTableTextPhase_tr st1 hi1 hp1
