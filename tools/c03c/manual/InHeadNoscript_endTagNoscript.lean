instance Ph_InHeadNoscript_endTagNoscript (tok : Token) :
    Ph .inHeadNoscript (InHeadNoscript_endTagNoscript tok) := ⟨fun st hi hp => by
  have hn : NTp st.phase := by rw [hp]; decide
  obtain ⟨pre, h, n, h1, h2, _⟩ := hi.hsh.2.1 (by rw [effP_eq_phase hn]; exact hp)
  have h1' : st.openElements = (pre ++ [h]) ++ [n] := by
    unfold cIds at h1; rw [if_neg hn.1] at h1; rw [h1]; simp
  unfold InHeadNoscript_endTagNoscript
  simp only [Tr_bind, Tr_openPop]
  intro x hx
  have hdl : st.openElements.dropLast = pre ++ [h] := by rw [h1', List.dropLast_concat]
  rw [hdl]
  apply Tr_RO; intro _
  apply Tr_RO; intro _
  unfold setPhase
  simp only [Tr_modify, Tr_pure]
  have hs1 : ST (wo st (pre ++ [h])) := ST_prefix (post := [n]) (by rw [← h1']; exact hi.str)
  refine Inv_setPhase_h hs1 (REG_of_F (st := st) rfl hi.reg) .inHead (by decide)
    ⟨(fun h => nomatch h), (fun h => nomatch h), (fun h => nomatch h)⟩ ?_ (by decide)
  have he : effP ({ wo st (pre ++ [h]) with phase := some Phase.inHead } : PState) = some Phase.inHead := rfl
  refine ⟨fun _ => ⟨pre, h, ?_, h2⟩, fun h' => ?_, fun h' => ?_⟩
  · show (if some Phase.inHead = some Phase.text then _ else pre ++ [h]) = _
    rw [if_neg (by decide)]
  · rw [he] at h'; cases h'
  · rw [he] at h'; cases h'⟩
