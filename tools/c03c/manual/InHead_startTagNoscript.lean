instance Ph_InHead_startTagNoscript (tok : Token) [hNs : Fct (NsNone tok)] [hNm : Fct (notPN tok)]
    [hNh : Fct (notHead tok)] : Ph .inHead (InHead_startTagNoscript tok) := ⟨fun st hi hp => by
  obtain ⟨pre, h, h1, h2, hnin, hne⟩ := inHead_shape hi hp
  have hn : NTp st.phase := by rw [hp]; decide
  unfold InHead_startTagNoscript
  simp only [Tr_bind, Tr_getCfg]
  split
  · simp only [Tr_bind, Tr_pure]
    exact parseRCDataRawtext_tr tok _ st hi hn hNs.out hNm.out hNh.out
  · simp only [Tr_bind]
    refine Tr_mono (insertElementTok_pushed tok _ st hi.str hNs.out hNm.out) ?_
    rintro x st1 ⟨e, hpu, he, hpe⟩
    unfold setPhase
    simp only [Tr_modify, Tr_pure]
    refine Inv_setPhase_h hpu.str (REG_of_F (st := st) hpu.keep.f hi.reg) .inHeadNoscript (by decide)
      ⟨(fun h => nomatch h), (fun h => nomatch h), (fun h => nomatch h)⟩ ?_ (by decide)
    have he' : effP ({ st1 with phase := some Phase.inHeadNoscript } : PState) = some Phase.inHeadNoscript := rfl
    refine ⟨fun h => ?_, fun _ => ⟨pre, h, x, ?_, ?_, ?_⟩, fun h => ?_⟩
    · rw [he'] at h; cases h
    · show (if some Phase.inHeadNoscript = some Phase.text then _ else st1.openElements) = _
      rw [if_neg (by decide), hpu.op, h1]; simp
    · show st1.headPointer = some h
      rw [hpu.hd]; exact h2
    · show (elemK st1.arena x).1 = dnsOf st1
      rw [hpu.k, he, dnsOf_of_cfg hpu.keep.cf]
    · rw [he'] at h; cases h⟩
