/-- `popWhile` with a test that only holds of unprotected nodes -/
theorem popWhileLoop_unprot (cond : NodeId → M Bool) (site : String) (st : PState)
    (hcond : ∀ l n, n ∈ l → ST (wo st l) → Tr (cond n) (wo st l)
      (fun b st' => st' = wo st l ∧ (b = true → prot (elemK st.arena n) = false))) :
    ∀ fuel (l : List NodeId), ST (wo st l) → l.length + 1 ≤ fuel →
      Tr (popWhileLoop cond (fun _ => pure ()) site fuel) (wo st l) (fun _ st' => ∃ pre post, l = pre ++ post ∧
        st' = wo st pre ∧ ∀ y ∈ post, prot (elemK st.arena y) = false) := by
  intro fuel
  induction fuel with
  | zero => intro l _ h; omega
  | succ fuel ih =>
    intro l hs h
    unfold popWhileLoop
    simp only [Tr_bind, Tr_openLast]
    intro x hx
    refine Tr_mono (hcond l x (List.mem_of_getLast? hx) hs) ?_
    rintro b st' ⟨hst', hb⟩
    subst hst'
    split
    · rename_i hbt
      simp only [Tr_bind, Tr_pure, Tr_openPop]
      intro y hy
      have hl : l = l.dropLast ++ [x] := list_snoc_of_getLast? hx
      have hlen : l.dropLast.length + 1 ≤ fuel := by
        have := getLast?_length_pos hx
        simp; omega
      refine Tr_mono (ih l.dropLast (ST_pop hs) hlen) ?_
      rintro _ st' ⟨pre, post, h1, h2, h3⟩
      refine ⟨pre, post ++ [x], by rw [← List.append_assoc, ← h1]; exact hl, h2, ?_⟩
      intro z hz
      rcases List.mem_append.1 hz with hz | hz
      · exact h3 z hz
      · simp only [List.mem_singleton] at hz; subst hz; exact hb hbt
    · simp only [Tr_pure]
      exact ⟨l, [], by simp, rfl, by simp⟩

/-- `InForeignContentPhase.processStartTag`: foreign elements are pushed / popped -/
theorem T_InForeignContent_processStartTag (tok : Token) (hNs : NsNone tok) (st : PState) (hi : Inv st) (hf : Fgn st) :
    Tr (InForeignContent_processStartTag tok) st (fun _ st' => Inv st') := by
  have hs := hi.str
  unfold InForeignContent_processStartTag
  dsimp only
  simp only [Tr_bind, Tr_openLast]
  intro cur hcur
  have hcure : IsEl st.arena cur := top_el hs hcur
  have hcurf : (elemK st.arena cur).1 ≠ dnsOf st := by
    obtain ⟨e, he, hne⟩ := hf
    rw [stackK_getLast? hcur] at he; cases he; exact hne
  simp only [Tr_monadLift]
  cases ht : tok.tag "InForeignContentPhase.processStartTag" with
  | error e => have := (ENF_tag tok "InForeignContentPhase.processStartTag").out; rw [ht] at this; exact this
  | ok d =>
    simp only [Post_ok]
    split
    · -- an HTML element: the foreign elements are popped
      simp only [Tr_bind]
      refine Tr_SV_keep _ st hi _ ?_
      intro _ st1 hi1 hsame1
      have hf1 : Fgn st1 := by
        obtain ⟨e, he, hne⟩ := hf
        exact ⟨e, by rw [stackK_of_Same hsame1 hs]; exact he, by rw [dnsOf_of_cfg hsame1.cf]; exact hne⟩
      simp only [Tr_getCfg]
      unfold popWhile
      simp only [Tr_bind, Tr_openElems]
      have := popWhileLoop_unprot (fun n => do
          if (← nodeNs n) == st1.cfg.defaultNamespace then return false
          if (← isHTMLIntegrationPoint n) then return false
          if (← isMathMLTextIntegrationPoint n) then return false
          return true) "InForeignContentPhase.processStartTag" st1 ?_ _ st1.openElements hi1.str (Nat.le_refl _)
      · refine Tr_mono this ?_
        rintro _ st2 ⟨pre, post, h1, h2, h3⟩
        subst h2
        simp only [Tr_pure]
        have hs2 : ST (wo st1 pre) := ST_prefix (post := post) (by rw [← h1]; exact hi1.str)
        refine Inv_fgn_step hi1 hf1 ⟨hs2, Keep_wo _ _, by rw [P_prefix (post := post) h3, ← h1]⟩ ?_ rfl
        intro i hi'
        left; rw [h1]; exact List.mem_append_left _ hi'
      · intro l n hn hsl
        have hne : IsEl (wo st1 l).arena n := hsl.elem n hn
        simp only [Tr_bind, Tr_nodeNs hne]
        split
        · simp [Tr_pure]
        · rename_i hns
          have hunp : prot (elemK st1.arena n) = false := by
            refine foreign_unprot (st := wo st1 l) hsl hn ?_
            have hd : dnsOf (wo st1 l) = st1.cfg.defaultNamespace := rfl
            rw [hd]; simpa using hns
          refine Tr_mono (RO.out (wo st1 l)) ?_
          intro b st' hst'
          exact ⟨hst', fun _ => hunp⟩
    · -- a foreign element is inserted
      simp only [Tr_bind, Tr_nodeNs hcure]
      -- whatever the adjusted tag is, its namespace is that of the current node
      have key : ∀ d' : TagData, d'.ns = some (elemK st.arena cur).1 →
          Tr (insertElement d') st (fun _ st1 =>
            Tr (if d'.selfClosing = true then do
                  let _ ← openPop "InForeignContentPhase.processStartTag"
                  acknowledgeSelfClosing d'
                  pure (none : Option Token)
                else pure none) st1 (fun _ st' => Inv st')) := by
        intro d' hd'
        have hok : ∀ dns, dOK dns d' := by
          intro dns
          unfold dOK dEl
          rw [hd']
          have hH : isH ((elemK st.arena cur).1, d'.name) = false := by
            cases hc : isH ((elemK st.arena cur).1, d'.name) with
            | false => rfl
            | true =>
              have hH' : isH (elemK st.arena cur) = true := hc
              exact absurd (hs.ns _ (List.mem_map.2 ⟨cur, List.mem_of_getLast? hcur, rfl⟩) hH') hcurf
          exact ⟨by unfold prot; rw [hH]; rfl, fun h => by rw [hH] at h; cases h⟩
        refine Tr_insertElement_kp d' (KPpost.refl hs) hok _ ?_
        intro x st1 hk1 hpu
        have hsub1 : ∀ i ∈ st1.openElements, i ∈ st.openElements ∨ st.arena.nodes.size ≤ i := by
          intro i hi'
          rw [hpu.op] at hi'
          rcases List.mem_append.1 hi' with h | h
          · exact Or.inl h
          · simp only [List.mem_singleton] at h; rw [h]; exact Or.inr hpu.fresh
        split
        · simp only [Tr_bind, Tr_openPop]
          intro y hy
          have hk2 := hk1.trans (KP_pop hpu.str hy (by
            have hy2 : y = x := by rw [hpu.op] at hy; simpa using hy.symm
            rw [hy2, hpu.k]; exact (hok _).1))
          refine Tr_SV_step _ hk2 _ ?_
          intro _ st3 hk3 hsame3
          simp only [Tr_pure]
          refine Inv_fgn_step hi hf hk3 ?_ ?_
          · intro i hi'
            rw [hsame3.op] at hi'
            exact hsub1 i (List.dropLast_subset _ hi')
          · rw [hsame3.hd]; exact hpu.hd
        · simp only [Tr_pure]
          exact Inv_fgn_step hi hf hk1 hsub1 hpu.hd
      simp only [Tr_lift]
      cases hn : nsE "mathml" with
      | error e => have := (ENF_nsE "mathml").out; rw [hn] at this; exact this
      | ok a =>
        simp only [Post_ok]
        split
        · simp only [Tr_bind]; exact key { adjustForeignAttributes (adjustMathMLAttributes d) with ns := some (elemK st.arena cur).1 } rfl
        · simp only [Tr_bind, Tr_lift]
          cases hn2 : nsE "svg" with
          | error e => have := (ENF_nsE "svg").out; rw [hn2] at this; exact this
          | ok a2 =>
            simp only [Post_ok]
            split
            · simp only [Tr_bind]; exact key { adjustForeignAttributes (adjustSVGAttributes (InForeignContent_adjustSVGTagNames d)) with ns := some (elemK st.arena cur).1 } rfl
            · simp only [Tr_bind]; exact key { adjustForeignAttributes d with ns := some (elemK st.arena cur).1 } rfl
