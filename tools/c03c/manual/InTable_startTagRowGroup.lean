theorem ctx_table_notFMT : ∀ n, Gen.Lit.InTablePhase_clearStackToTableContext_0.contains n = true →
    FMT.contains n = false ∧ [nTable, nHtml].contains n = true := by
  have h : Gen.Lit.InTablePhase_clearStackToTableContext_0.all
      (fun n => !FMT.contains n && [nTable, nHtml].contains n) = true := by decide
  intro n hn
  have := List.all_eq_true.1 h n (by simpa using hn)
  simpa using this

/-- `InTablePhase.startTagRowGroup`: the row group sits on `table` (or `html`) -/
instance Pzn_InTable_startTagRowGroup (tok : Token) [hNs : Fct (NsNone tok)] [hG : Fct (isGroupTok tok)] :
    Pzn (InTable_startTagRowGroup tok) := ⟨fun st hs hr => by
  unfold InTable_startTagRowGroup
  simp only [Tr_bind]
  refine Tr_mono (T_InTable_clearStackToTableContext st hs) ?_
  intro _ st1 hcl
  obtain ⟨hs1, hk1, t, ht, htn, htd⟩ := hcl.st hs
  obtain ⟨g1, g2⟩ := ctx_table_notFMT _ htn
  have hH : isH t = true := by
    have := isH_dns st1.cfg t.2
    unfold isH at this ⊢; rw [htd]; exact this
  have hgn : PN.contains (tokName tok) = true ∧ FMT.contains (tokName tok) = false := by
    have := hG.out
    unfold isGroupTok at this
    simp only [List.contains_cons, List.contains_nil, Bool.or_false, Bool.or_eq_true, beq_iff_eq] at this
    rcases this with h | h | h <;> rw [h] <;> decide
  refine Tr_mono (insertElementTok_on tok _ st1 hs1 hNs.out ht g1 hgn.2 (pairOK_group _ _ hH g2 hG.out)) ?_
  intro x st2 hpu
  have hr2 : REG st2 := REG_of_F (hk1.trans hpu.keep).f hr
  exact Pzn.out (self := by pzn_auto) _ hpu.str hr2⟩
