theorem prot_special {e : El} (h : prot e = true) : Gen.specialElements.contains (tup e) = true := by
  have hall : PN.all (fun n => Gen.specialElements.contains (htmlNs, n)) = true := by decide
  simp only [prot, Bool.and_eq_true] at h
  rw [tup_of h.1]
  exact List.all_eq_true.1 hall _ (by simpa using h.2)

/-- the loop of `InBodyPhase.endTagOther` for an unprotected name: only unprotected elements are popped -/
theorem InBody_endTagOther_loop_kp (site : String) (d : TagData) (hd : PN.contains d.name = false) (st : PState)
    (hs : ST st) : ∀ (l above : List NodeId), st.openElements = l.reverse ++ above →
      (∀ y ∈ above, (elemK st.arena y).2 ≠ d.name ∧ prot (elemK st.arena y) = false) →
      Tr (InBody_endTagOther.loop site d l) st (fun _ st' => KPpost st st')
  | [], _, _, _ => by unfold InBody_endTagOther.loop; exact KPpost.refl hs
  | node :: rest, above, hl, habove => by
    have hmem : node ∈ st.openElements := by rw [hl]; simp
    have hne : IsEl st.arena node := hs.elem node hmem
    unfold InBody_endTagOther.loop
    simp only [Tr_bind, Tr_nodeName hne]
    split
    · rename_i hname
      have hname' : (elemK st.arena node).2 = d.name := by simpa using hname
      have hl' : st.openElements = rest.reverse ++ node :: above := by rw [hl]; simp
      simp only [Tr_bind]
      refine Tr_mono (generateImpliedEndTags_spec (some d.name) st hs.elem) ?_
      rintro _ st1 ⟨pre2, post2, h1, h2, h3⟩
      subst h2
      have hs1 : ST (wo st pre2) := ST_prefix (post := post2) (by rw [← h1]; exact hs)
      have hk1 : KPpost st (wo st pre2) := ⟨hs1, Keep_wo _ _, by
        rw [P_prefix (post := post2) (fun y hy => prot_of_name (implied_unprot _ (h3 y hy).1)), ← h1]⟩
      simp only [Tr_openLast]
      intro top htop
      apply Tr_RO; intro nm
      have fin : ∀ st2, KPpost st st2 → Same (wo st pre2) st2 →
          Tr (popUntil (fun n => pure (n == node)) site) st2 (fun _ st' => KPpost st st') := by
        intro st2 hk2 hsame
        have hop : st2.openElements = pre2 := hsame.op
        refine Tr_mono (popUntil_spec _ site st2 (fun n => n == node) (fun l n _ Q => by simp only [Tr_pure]) hk2.1.elem) ?_
        rintro r st3 ⟨pre, post, g1, g2, g3, g4⟩
        subst g2
        have hr : r = node := by simpa using g3
        subst hr
        rw [hop] at g1
        -- the two splits of the stack at the last occurrence of `node`
        have hnode_above : r ∉ above := by
          intro hm; exact (habove r hm).1 hname'
        have hnode_post : r ∉ post ++ post2 := by
          intro hm
          rcases List.mem_append.1 hm with hm | hm
          · have := g4 r hm; simp at this
          · exact (h3 r hm).2 (by rw [hname'])
        have hsplit : rest.reverse ++ r :: above = pre ++ r :: (post ++ post2) := by
          rw [← hl', h1, g1]; simp
        obtain ⟨e1, e2⟩ := last_split_unique r _ _ _ _ hsplit hnode_above hnode_post
        have hs3 : ST (wo st2 pre) := ST_prefix (post := r :: post) (by rw [← g1, ← hop]; exact hk2.1)
        refine hk2.trans ⟨hs3, Keep_wo _ _, ?_⟩
        have hK : ∀ y ∈ st.openElements, elemK st2.arena y = elemK st.arena y :=
          fun y hy => ((hs.elem y hy).ext hk2.2.1.ar).2
        rw [P_prefix (st := st2) (pre := pre) (post := r :: post) ?_, ← g1, ← hop]
        intro y hy
        rcases List.mem_cons.1 hy with hy | hy
        · subst hy
          rw [hK _ hmem]; exact prot_of_name (by rw [hname']; exact hd)
        · have hya : y ∈ above := by rw [e2]; exact List.mem_append_left _ hy
          rw [hK y (by rw [hl']; simp [hya])]
          exact (habove y hya).2
      split
      · simp only [Tr_bind]
        refine Tr_SV_step _ hk1 _ ?_
        intro _ st2 hk2 hsame
        refine Tr_mono (fin st2 hk2 hsame) ?_
        intro _ st3 h3'; exact h3'
      · simp only [Tr_bind, Tr_pure]
        refine Tr_mono (fin _ hk1 (Same.refl _)) ?_
        intro _ st3 h3'; exact h3'
    · rename_i hname
      have hname' : (elemK st.arena node).2 ≠ d.name := by simpa using hname
      simp only [Tr_bind, Tr_nameTuple hne]
      split
      · exact Tr_SV_step _ (KPpost.refl hs) _ (fun _ _ h _ => h)
      · rename_i hsp
        refine InBody_endTagOther_loop_kp site d hd st hs rest (node :: above) (by rw [hl]; simp) ?_
        intro y hy
        rcases List.mem_cons.1 hy with hy | hy
        · subst hy
          refine ⟨hname', ?_⟩
          cases hp : prot (elemK st.arena y) with
          | false => rfl
          | true => exact absurd (prot_special hp) hsp
        · exact habove y hy

instance KP_InBody_endTagOther (tok : Token) [hNm : Fct (notPN tok)] : KP (InBody_endTagOther tok) := ⟨fun st hs => by
  unfold InBody_endTagOther
  simp only [Tr_bind, Tr_monadLift]
  cases ht : tok.tag "InBodyPhase.endTagOther" with
  | error e => have := (ENF_tag tok "InBodyPhase.endTagOther").out; rw [ht] at this; exact this
  | ok d =>
    simp only [Post_ok, Tr_openElems]
    have hd : PN.contains d.name = false := by rw [tag_name ht]; exact hNm.out
    refine Tr_mono (InBody_endTagOther_loop_kp _ d hd st hs st.openElements.reverse [] (by simp) (fun _ h => nomatch h)) ?_
    intro _ st' h; simp only [Tr_pure]; exact h⟩

instance KS_InBody_endTagOther_loop (site : String) (d : TagData) : ∀ l, KS (InBody_endTagOther.loop site d l)
  | [] => by unfold InBody_endTagOther.loop; infer_instance
  | node :: rest => by
    haveI := KS_InBody_endTagOther_loop site d rest
    unfold InBody_endTagOther.loop; kp_auto

/-- `InBodyPhase.endTagOther` for any name: whatever is popped, the structural part is kept -/
instance KS_InBody_endTagOther (tok : Token) : KS (InBody_endTagOther tok) := by
  unfold InBody_endTagOther; kp_auto

/-- `InBodyPhase.endTagOther`: an unprotected name, or `InBodyPhase` is the current phase -/
theorem T_InBody_endTagOther (tok : Token) (st : PState) (hi : Inv st) (hn : NT st)
    (hC : PN.contains (tokName tok) = true → st.phase = some .inBody) :
    Tr (InBody_endTagOther tok) st (fun _ st' => Inv st' ∧ NT st') := by
  cases hp : PN.contains (tokName tok) with
  | false =>
    haveI : Fct (notPN tok) := ⟨hp⟩
    exact (Pn_of_KP (InBody_endTagOther tok)).out st hi hn
  | true =>
    have hph := hC hp
    refine Tr_mono ((KS_InBody_endTagOther tok).out st hi.str) ?_
    intro _ st' h
    exact ⟨Inv_of_KS_free hi hn (by rw [hph]; decide) h.1 h.2, NT_of_F h.2.f hn⟩
