instance SV_InBody_endTagBody_loop : ∀ l, SV (InBody_endTagBody.loop l)
  | [] => by unfold InBody_endTagBody.loop; infer_instance
  | node :: rest => by
    haveI := SV_InBody_endTagBody_loop rest
    unfold InBody_endTagBody.loop; sv_auto
