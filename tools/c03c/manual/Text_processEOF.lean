/-- `TextPhase.processEOF`: in the `text` phase -/
theorem T_Text_processEOF (st : PState) (hi : Inv st) (hp : st.phase = some .text) :
    Tr Text_processEOF st (fun _ st' => Inv st') := by
  unfold Text_processEOF
  simp only [Tr_bind]
  apply Tr_RO; intro _
  apply Tr_RO; intro _
  refine Tr_SV_keep _ st hi _ ?_; intro _ st1 hi1 h1
  have hp1 : st1.phase = some .text := by rw [phase_of_F h1.f]; exact hp
  unfold restoreOriginalPhase
  simp only [Tr_openPop, Tr_modify, Tr_pure]
  intro x _
  exact textPop_tr st1 hi1 hp1
