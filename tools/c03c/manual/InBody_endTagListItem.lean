instance KP_InBody_endTagListItem (tok : Token) [hNm : Fct (notPN tok)] [hNf : Fct (notFMT tok)] : KP (InBody_endTagListItem tok) := ⟨fun st hs => by
  unfold InBody_endTagListItem
  simp only [Tr_bind, Tr_monadLift]
  cases ht : tok.tag "InBodyPhase.endTagListItem" with
  | error e => have := (ENF_tag tok "InBodyPhase.endTagListItem").out; rw [ht] at this; exact this
  | ok d =>
    simp only [Post_ok, Tr_bind]
    have hd : PN.contains d.name = false := by rw [tag_name ht]; exact hNm.out
    refine Tr_inScope_safe d.name _ (by split; exact Or.inr (Or.inr rfl); exact Or.inl rfl) hd
      (by rw [tag_name ht]; exact hNf.out) st hs _ ?_ ?_
    · intro hsafe
      have hg0 : Good [d.name] st st := Good.init hs hsafe
      simp only [Bool.not_true, Bool.false_eq_true, if_false, Tr_bind]
      refine Tr_Good_implied (some d.name) hg0 (fun n hn _ => by simp at hn; rw [hn]) _ ?_
      intro st2 hg2
      apply Tr_RO; intro _
      apply Tr_RO; intro _
      split
      · simp only [Tr_bind]
        refine Tr_Good_SV _ hg2 _ ?_
        intro _ st3 hg3
        refine Tr_Good_popUntil _ _ hg3 (pred_name_view d.name st3) _ ?_
        intro _ st4 h4; simp only [Tr_pure]; exact h4
      · simp only [Tr_bind, Tr_pure]
        refine Tr_Good_popUntil _ _ hg2 (pred_name_view d.name st2) _ ?_
        intro _ st4 h4; exact h4
    · simp only [Bool.not_false, if_true, Tr_bind, Tr_pure]
      exact Tr_SV_step _ (KPpost.refl hs) _ (fun _ _ h _ => h)⟩
