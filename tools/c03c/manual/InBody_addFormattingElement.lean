instance KP_InBody_addFormattingElement (tok : Token) [hNs : Fct (NsNone tok)] [hF : Fct (isFMT tok)] :
    KP (InBody_addFormattingElement tok) := ⟨fun st hs => by
  unfold InBody_addFormattingElement
  simp only [Tr_bind]
  refine Tr_mono (insertElementTok_pushed tok _ st hs hNs.out (FMT_unprot _ hF.out)) ?_
  rintro x st1 ⟨e, hpu, he, hpe⟩
  simp only [Tr_openLast]
  intro el hel
  have hex : el = x := by rw [hpu.op] at hel; simpa using hel.symm
  subst hex
  simp only [Tr_afe]
  apply Tr_RO; intro matching
  apply Tr_RO; intro _
  have hFx : okF st1 el :=
    ⟨hpu.el, by rw [hpu.k, he, dnsOf_of_cfg hpu.keep.cf], by rw [hpu.k, he]; exact hF.out⟩
  have hkp1 : KPpost st st1 := ⟨hpu.str, hpu.keep, hpu.p⟩
  have fin : ∀ st2, KPpost st1 st2 → Tr (afeAppend (some el)) st2 (fun _ st' => KPpost st st') := by
    intro st2 h2
    refine Tr_mono (afeAppend_kp (some el) st2 h2.1 (fun n hn => by cases hn; exact okF_of_Keep h2.2.1 hFx)) ?_
    intro _ st3 h3
    exact hkp1.trans (h2.trans h3.1)
  split
  · split
    · simp only [Tr_bind]
      refine Tr_mono ((KP_afeRemove _ _).out st1 hpu.str) ?_
      intro _ st2 h2
      exact fin st2 h2
    · simp only [Tr_bind, Tr_throw]; exact NF_indexError _
  · first
      | exact fin st1 (KPpost.refl hpu.str)
      | (simp only [Tr_pure, Tr_bind]; exact fin st1 (KPpost.refl hpu.str))⟩
