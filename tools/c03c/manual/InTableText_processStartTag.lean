theorem T_InTableText_processStartTag {r : Rec} {n : Nat} (hr : RecInv r n) (tok : Token) (h : 0 < n) (st : PState)
    (hi : Inv st) (hp : st.phase = some .inTableText) :
    Tr (InTableText_processStartTag r tok) st (fun _ st' => Inv st' ∧ NT st') := by
  unfold InTableText_processStartTag
  have := T_InTableText_flush_restore hr h st hi hp
  simp only [Tr_bind, Tr_pure] at this ⊢
  exact this
