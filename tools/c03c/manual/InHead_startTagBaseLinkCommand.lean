/-- `insertElement(token); openElements.pop(); acknowledge`: only the arena grows -/
theorem voidInsert_same (d : TagData) (site : String) (st : PState) (hel : ∀ i ∈ st.openElements, IsEl st.arena i) :
    Tr (do let _ ← insertElement d; let _ ← openPop site; acknowledgeSelfClosing d; pure (none : Option Token)) st
      (fun _ st' => Same st st') := by
  simp only [Tr_bind]
  refine Tr_mono (insertElement_spec d st hel) ?_
  rintro x st1 ⟨st0, h0, _, _, _, h1, _⟩
  subst h1
  simp only [Tr_openPop]
  intro y hy
  have hdl : (st.openElements ++ [x]).dropLast = st.openElements := by simp
  refine Tr_mono ((inferInstance : SV (acknowledgeSelfClosing d)).out _) ?_
  intro _ st2 h2
  simp only [Tr_pure]
  refine Same.trans ?_ h2
  exact ⟨h0.f, hdl, h0.af, h0.cf, h0.hd, h0.fm, h0.ar⟩

/-- a handler that only grows the arena, after `head` was pushed back by `AfterHeadPhase.startTagFromHead` -/
theorem FH_of_Same {st st' : PState} {old : List NodeId} {h : NodeId} (hp : FHpre st old h) (e : Same st st') :
    FHpost st' old h := by
  obtain ⟨hs, hr, hph, hop, hhd, hn, hne⟩ := hp
  exact ⟨ST_of_Same e hs, REG_of_F e.f hr, by rw [e.hd]; exact hhd, hn, hne,
    Or.inl ⟨by rw [phase_of_F e.f]; exact hph, by rw [e.op]; exact hop⟩⟩

theorem T_InHead_startTagBaseLinkCommand (tok : Token) (st : PState) (hel : ∀ i ∈ st.openElements, IsEl st.arena i) :
    Tr (InHead_startTagBaseLinkCommand tok) st (fun _ st' => Same st st') := by
  unfold InHead_startTagBaseLinkCommand
  simp only [Tr_bind, Tr_monadLift]
  cases ht : tok.tag "InHeadPhase.startTagBaseLinkCommand" with
  | error e => have := (ENF_tag tok "InHeadPhase.startTagBaseLinkCommand").out; rw [ht] at this; exact this
  | ok d =>
    simp only [Post_ok]
    have := voidInsert_same d "InHeadPhase.startTagBaseLinkCommand" st hel
    simpa only [Tr_bind] using this

instance Pu_InHead_startTagBaseLinkCommand (tok : Token) : Pu (InHead_startTagBaseLinkCommand tok) :=
  ⟨fun st hi => Tr_mono (T_InHead_startTagBaseLinkCommand tok st hi.str.elem) (fun _ _ e => Inv_of_Same e hi)⟩
