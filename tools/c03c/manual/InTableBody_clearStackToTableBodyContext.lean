theorem T_InTableBody_clearStackToTableBodyContext (st : PState) (hs : ST st) :
    Tr InTableBody_clearStackToTableBodyContext st
      (fun _ st' => Cleared Gen.Lit.InTableBodyPhase_clearStackToTableBodyContext_0 st st') := by
  unfold InTableBody_clearStackToTableBodyContext
  dsimp only
  simp only [Tr_bind]
  refine Tr_mono (clearStack_spec_each _ _ (fun _ => pure ()) st hs) ?_
  intro _ st1 h1
  apply Tr_RO; intro _
  apply Tr_RO; intro _
  split
  · simp only [Tr_bind]
    apply Tr_RO; intro _
    apply Tr_RO; intro _
    exact h1
  · exact h1

instance KS_InTableBody_clearStackToTableBodyContext : KS InTableBody_clearStackToTableBodyContext :=
  ⟨fun st hs => Tr_mono (T_InTableBody_clearStackToTableBodyContext st hs) (fun _ _ h => ⟨(h.st hs).1, (h.st hs).2.1⟩)⟩
