/-! #### the select phases -/

/-- computations that keep "`select` is in select scope" (besides the protected part of the stack) -/
class KSel {α : Type} (m : M α) : Prop where
  out : ∀ st, ST st → SEL (dnsOf st) (stackK st) = true →
    Tr m st (fun _ st' => KPpost st st' ∧ SEL (dnsOf st') (stackK st') = true)

instance (priority := 40) KSel_of_SV {α : Type} (m : M α) [h : SV m] : KSel m :=
  ⟨fun st hs hsel => Tr_mono (h.out st) (fun _ st' e =>
    ⟨KPpost_of_Same hs e, by rw [stackK_of_Same e hs, dnsOf_of_cfg e.cf]; exact hsel⟩)⟩
instance KSel_bind {α β : Type} (m : M α) (f : α → M β) [h1 : KSel m] [h2 : ∀ a, KSel (f a)] : KSel (m >>= f) :=
  ⟨fun st hs hsel => (Tr_bind ..).2 (Tr_mono (h1.out st hs hsel)
    (fun a st' e => Tr_mono ((h2 a).out st' e.1.1 e.2) (fun _ _ e' => ⟨e.1.trans e'.1, e'.2⟩)))⟩
instance KSel_ite {α : Type} (c : Prop) [Decidable c] (a b : M α) [h1 : KSel a] [h2 : KSel b] :
    KSel (if c then a else b) := by split <;> assumption

theorem selRev_head {dns : Option Str} {e : El} {r : List El} (h : selRev dns (e :: r) = true) :
    (tup e = (htmlNs, nSelect) ∨ (isOpt e = true ∧ selRev dns r = true)) ∧ e.1 = dns := by
  simp only [selRev] at h
  split at h
  · rename_i h1; exact ⟨Or.inl (beq_iff_eq.1 h1), by simpa using h⟩
  · split at h
    · rename_i h2
      simp only [Bool.and_eq_true, beq_iff_eq] at h
      exact ⟨Or.inr ⟨h2, h.2⟩, h.1⟩
    · cases h

/-- popping an `option` / `optgroup` current node -/
theorem SEL_pop {dns : Option Str} {s : List El} {e : El} (h : SEL dns (s ++ [e]) = true) (he : e.2 = nOption ∨ e.2 = nOptgroup) :
    SEL dns s = true := by
  unfold SEL at h ⊢
  rw [List.reverse_append] at h
  simp only [List.reverse_cons, List.reverse_nil, List.nil_append, List.singleton_append] at h
  obtain ⟨h1, _⟩ := selRev_head h
  rcases h1 with h1 | h1
  · have := (tup_eq h1).2
    rcases he with he | he
    · rw [he] at this; exact absurd this (by decide)
    · rw [he] at this; exact absurd this (by decide)
  · exact h1.2

/-- pushing an `option` / `optgroup` element of the default namespace -/
theorem SEL_push {dns : Option Str} (cfg : Cfg) (hd : dns = cfg.defaultNamespace) {s : List El} (h : SEL dns s = true)
    (n : Str) (hn : n = nOption ∨ n = nOptgroup) : SEL dns (s ++ [(dns, n)]) = true := by
  unfold SEL at h ⊢
  rw [List.reverse_append]
  simp only [List.reverse_cons, List.reverse_nil, List.nil_append, List.singleton_append, selRev]
  have hH := isH_dns cfg n
  rw [← hd] at hH
  have ht : tup (dns, n) = (htmlNs, n) := tup_of hH
  have h1 : (tup (dns, n) == (htmlNs, nSelect)) = false := by
    rw [ht]; rcases hn with hn | hn <;> rw [hn] <;> decide
  have h2 : isOpt (dns, n) = true := by
    unfold isOpt; rw [ht]; rcases hn with hn | hn <;> rw [hn] <;> decide
  rw [h1, h2]
  simp [h]

/-- the protected part is kept, and so is "`select` is in select scope" when it held -/
def GS (st0 st : PState) : Prop :=
  KPpost st0 st ∧ (SEL (dnsOf st0) (stackK st0) = true → SEL (dnsOf st) (stackK st) = true)

theorem GS.refl {st : PState} (hs : ST st) : GS st st := ⟨KPpost.refl hs, fun h => h⟩
theorem GS.trans {a b c : PState} (h1 : GS a b) (h2 : GS b c) : GS a c := ⟨h1.1.trans h2.1, fun h => h2.2 (h1.2 h)⟩

theorem Tr_GS_SV {α : Type} (m : M α) [h : SV m] {st0 st : PState} (hg : GS st0 st)
    (Q : α → PState → Prop) (hq : ∀ a st', GS st0 st' → Q a st') : Tr m st Q :=
  Tr_mono (h.out st) (fun a st' e => hq a st' (hg.trans
    ⟨KPpost_of_Same hg.1.1 e, fun hsel => by rw [stackK_of_Same e hg.1.1, dnsOf_of_cfg e.cf]; exact hsel⟩))

/-- popping an `option` / `optgroup` current node -/
theorem GS_pop {st0 st : PState} (hg : GS st0 st) {x : NodeId} (hx : st.openElements.getLast? = some x)
    (hname : (elemK st.arena x).2 = nOption ∨ (elemK st.arena x).2 = nOptgroup) :
    GS st0 (wo st st.openElements.dropLast) := by
  have hsnoc := list_snoc_of_getLast? hx
  have hK : stackK st = stackK (wo st st.openElements.dropLast) ++ [elemK st.arena x] := by
    unfold stackK; conv => lhs; rw [hsnoc]
    simp
  have hpx : prot (elemK st.arena x) = false := prot_of_name (by
    rcases hname with h | h <;> rw [h] <;> decide)
  refine hg.trans ⟨KP_pop hg.1.1 hx hpx, fun hsel => ?_⟩
  rw [hK] at hsel
  exact SEL_pop hsel hname

/-- the token is `option` / `optgroup` -/
def isOptTok (tok : Token) : Prop := tokName tok = nOption ∨ tokName tok = nOptgroup

theorem Tr_GS_insertTok (tok : Token) (site : String) (hNs : NsNone tok) (hO : isOptTok tok) {st0 st : PState}
    (hg : GS st0 st) (Q : NodeId → PState → Prop) (hq : ∀ a st', GS st0 st' → Q a st') :
    Tr (insertElementTok tok site) st Q := by
  have hnm : notPN tok := by
    unfold notPN; rcases hO with h | h <;> rw [h] <;> decide
  refine Tr_mono (insertElementTok_pushed tok site st hg.1.1 hNs hnm) ?_
  rintro x st1 ⟨e, hpu, he, hpe⟩
  refine hq x st1 (hg.trans ⟨⟨hpu.str, hpu.keep, hpu.p⟩, fun hsel => ?_⟩)
  rw [hpu.stack, he, dnsOf_of_cfg hpu.keep.cf]
  exact SEL_push st.cfg rfl hsel _ hO

/-- a handler of the select phases -/
class KG {α : Type} (m : M α) : Prop where
  out : ∀ st, ST st → Tr m st (fun _ st' => GS st st')

instance (priority := 40) KG_of_SV {α : Type} (m : M α) [h : SV m] : KG m :=
  ⟨fun st hs => Tr_GS_SV m (GS.refl hs) _ (fun _ _ h => h)⟩

/-- in the phase `inSelectInTable` -/
theorem Ph_selT_of_KG {α : Type} (m : M α) [h : KG m] : Ph .inSelectInTable m := ⟨fun st hi hp => by
  have hn : NTp st.phase := by rw [hp]; decide
  have heff : effP st = some .inSelectInTable := by rw [effP_eq_phase hn]; exact hp
  have hsel := hi.sel heff
  unfold selStack at hsel
  rw [if_neg hn.1] at hsel
  refine Tr_mono (h.out st hi.str) ?_
  rintro _ st' ⟨hk, hsel''⟩
  have hsel' := hsel'' hsel
  have hp' : st'.phase = st.phase := phase_of_F hk.2.1.f
  have heff' : effP st' = effP st := effP_of_F hk.2.1.f
  refine ⟨REG_of_F hk.2.1.f hi.reg, hk.1, fun h => absurd (hp' ▸ h) hn.1, ?_, HSH_free (by rw [heff', heff]; decide), ?_⟩
  · rw [heff', hk.2.2]; exact hi.pcl
  · intro _
    unfold selStack
    rw [if_neg (by rw [hp']; exact hn.1)]
    exact hsel'⟩

/-- in the phase `inSelect` (no stack clause) -/
theorem Ph_sel_of_KG {α : Type} (m : M α) [h : KG m] : Ph .inSelect m := ⟨fun st hi hp => by
  have hn : NTp st.phase := by rw [hp]; decide
  have heff : effP st = some .inSelect := by rw [effP_eq_phase hn]; exact hp
  refine Tr_mono (h.out st hi.str) ?_
  intro _ st' hg
  exact Inv_of_KPg hi hn.1 (by rw [heff]; decide) (by rw [heff]; decide) hg.1.1 hg.1.2.1 hg.1.2.2⟩
