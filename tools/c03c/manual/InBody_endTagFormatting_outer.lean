theorem findBlock_spec (st : PState) : ∀ (l : List NodeId), (∀ i ∈ l, IsEl st.arena i) →
    ∀ (Q : Option NodeId → PState → Prop),
    (∀ mid fb top, l = mid ++ fb :: top → (∀ y ∈ mid, Gen.specialElements.contains (tup (elemK st.arena y)) = false) →
      Gen.specialElements.contains (tup (elemK st.arena fb)) = true → Q (some fb) st) →
    ((∀ y ∈ l, Gen.specialElements.contains (tup (elemK st.arena y)) = false) → Q none st) →
    Tr (InBody_endTagFormatting_outer.findBlock l) st Q
  | [], _, Q, _, h2 => by
    unfold InBody_endTagFormatting_outer.findBlock; exact h2 (fun _ h => nomatch h)
  | e :: rest, hel, Q, h1, h2 => by
    have he : IsEl st.arena e := hel e (List.mem_cons_self ..)
    unfold InBody_endTagFormatting_outer.findBlock
    simp only [Tr_bind, Tr_nameTuple he]
    split
    · rename_i hsp
      exact h1 [] e rest rfl (fun _ h => nomatch h) hsp
    · rename_i hne
      have hne' : Gen.specialElements.contains (tup (elemK st.arena e)) = false := by simpa using hne
      refine findBlock_spec st rest (fun i hi => hel i (List.mem_cons_of_mem _ hi)) Q ?_ ?_
      · intro mid fb top hl hmid hfb
        refine h1 (e :: mid) fb top (by rw [hl]; rfl) ?_ hfb
        intro y hy
        rcases List.mem_cons.1 hy with hy | hy
        · rw [hy]; exact hne'
        · exact hmid y hy
      · intro hall
        refine h2 ?_
        intro y hy
        rcases List.mem_cons.1 hy with hy | hy
        · rw [hy]; exact hne'
        · exact hall y hy

/-- inserting a fresh formatting element anywhere above the bottom of the stack -/
theorem ST_insert_junk {st : PState} (hs : ST st) (i : Nat) (c : NodeId) (hc : okF st c)
    (hnin : c ∉ st.openElements) (hi : 0 < i) (hne : st.openElements ≠ []) :
    ST (wo st (listInsert st.openElements i c)) ∧
      P (stackK (wo st (listInsert st.openElements i c))) = P (stackK st) := by
  have hj : junk (elemK st.arena c) = true := by
    unfold junk isH
    rw [hc.2.1, hc.2.2]
    have := isH_dns st.cfg (elemK st.arena c).2
    unfold isH at this
    simp only [dnsOf] at this ⊢
    rw [this]; rfl
  have hpc : prot (elemK st.arena c) = false := junk_unprot hj
  unfold listInsert
  have hsplit : st.openElements = st.openElements.take i ++ st.openElements.drop i := (List.take_append_drop _ _).symm
  have hK : stackK st = (st.openElements.take i).map (elemK st.arena) ++ (st.openElements.drop i).map (elemK st.arena) := by
    unfold stackK; conv => lhs; rw [hsplit]
    simp
  have hK' : stackK (wo st (st.openElements.take i ++ c :: st.openElements.drop i)) =
      (st.openElements.take i).map (elemK st.arena) ++ elemK st.arena c :: (st.openElements.drop i).map (elemK st.arena) := by
    rw [stackK_wo]; simp
  have htake : st.openElements.take i ≠ [] := by
    cases hl : st.openElements with
    | nil => exact absurd hl hne
    | cons x l => cases i with
      | zero => omega
      | succ j => simp
  refine ⟨⟨?_, ?_, hs.hp, hs.fp, ?_, ?_, ?_, hs.afe⟩, by rw [hK', hK, P_remove _ _ _ hpc]⟩
  · intro j hjm
    rcases List.mem_append.1 hjm with h | h
    · exact hs.elem j (List.mem_of_mem_take h)
    · rcases List.mem_cons.1 h with h | h
      · rw [h]; exact hc.1
      · exact hs.elem j (List.mem_of_mem_drop h)
  · have hnd := hs.nodup
    rw [hsplit] at hnd
    obtain ⟨n1, n2, n3⟩ := List.nodup_append.1 hnd
    refine List.nodup_append.2 ⟨n1, List.nodup_cons.2 ⟨fun hm => hnin (List.mem_of_mem_drop hm), n2⟩, ?_⟩
    intro a ha b hb hab
    rcases List.mem_cons.1 hb with hb | hb
    · subst hab; rw [hb] at ha; exact hnin (List.mem_of_mem_take ha)
    · exact n3 a ha b hb hab
  · intro e he
    rw [hK'] at he
    rcases List.mem_append.1 he with h | h
    · exact hs.ns e (by rw [hK]; exact List.mem_append_left _ h)
    · rcases List.mem_cons.1 h with h | h
      · rw [h]; intro _; exact hc.2.1
      · exact hs.ns e (by rw [hK]; exact List.mem_append_right _ h)
  · rw [hK', adjJ_junk _ _ _ hj, ← hK]; exact hs.adj
  · intro e he
    refine hs.bot e ?_
    rw [hK]; rw [hK'] at he
    cases hm : (st.openElements.take i).map (elemK st.arena) with
    | nil => exact absurd (List.map_eq_nil_iff.1 hm) htake
    | cons y r => rw [hm] at he; simpa using he

/-- steps 11–15 of the adoption agency and the next round: a clone of the formatting element goes into the list of
active formatting elements and onto the stack (above the furthest block), the formatting element leaves both -/
theorem aa_final_kp (tok : Token) (n : Nat) (fe fb : NodeId) (bm : Nat) (ih : KP (InBody_endTagFormatting_outer tok n))
    {st0 st : PState} (hk : KPpost st0 st) (hF : okF st fe) :
    Tr (do
        let st ← get
        let (a, clone) ← (st.arena.cloneNode fe : Except PyErr _)
        set { st with arena := a }
        modifyArena (·.reparentChildren fb clone)
        modifyArena (·.appendChild fb clone)
        let feIndex ← afeIndex fe "InBodyPhase.endTagFormatting"
        let bookmark := if bm > feIndex then bm - 1 else bm
        afeRemove fe "InBodyPhase.endTagFormatting"
        setAfe (listInsert (← afe) bookmark (some clone))
        openRemove fe "InBodyPhase.endTagFormatting"
        let fi ← openIndex fb "InBodyPhase.endTagFormatting"
        setOpen (listInsert (← openElems) (fi + 1) clone)
        InBody_endTagFormatting_outer tok n) st (fun _ st' => KPpost st0 st') := by
  simp only [Tr_bind, Tr_get, Tr_monadLift, Tr_lift, Post_bind]
  cases hcl : st.arena.cloneNode fe with
  | error e => have := (ENF_arena_cloneNode st.arena fe).out; rw [hcl] at this; exact this
  | ok r =>
    obtain ⟨a', clone⟩ := r
    simp only [Post_ok, Tr_set]
    obtain ⟨hext, hsz, hkc⟩ := Ext_cloneNode hcl
    have hsame1 : Same st { st with arena := a' } := Same_arena st a' hext
    have hk1 : KPpost st0 { st with arena := a' } := hk.trans (KPpost_of_Same hk.1 hsame1)
    obtain ⟨ns, nm, hkfe⟩ := hF.1
    have hkc' : kindAt a' clone = some (.element ns nm) := by rw [hkc, hkfe]
    have hcK : elemK a' clone = elemK st.arena fe := by unfold elemK; rw [hkc', hkfe]
    have hcnin : clone ∉ st.openElements := by
      intro hmem
      have := IsEl_lt (hk.1.elem clone hmem)
      rw [hsz] at this; exact Nat.lt_irrefl _ this
    refine Tr_SV_step _ hk1 _ ?_
    intro _ st2 hk2 hsame2
    refine Tr_SV_step _ hk2 _ ?_
    intro _ st3 hk3 hsame3
    have hop3 : st3.openElements = st.openElements := by rw [hsame3.op, hsame2.op]
    have hFc : okF st3 clone := by
      have hc1 : IsEl ({ st with arena := a' } : PState).arena clone := ⟨ns, nm, hkc'⟩
      obtain ⟨g1, g2⟩ := hc1.ext (hsame2.ar.trans hsame3.ar)
      have hd : dnsOf st3 = dnsOf st := by rw [dnsOf_of_cfg hsame3.cf, dnsOf_of_cfg hsame2.cf]; rfl
      refine ⟨g1, ?_, ?_⟩
      · rw [g2, hd]; show (elemK a' clone).1 = _; rw [hcK]; exact hF.2.1
      · rw [g2]; show FMT.contains (elemK a' clone).2 = true; rw [hcK]; exact hF.2.2
    have hFfe : okF st3 fe := okF_of_Keep ((Keep_of_Same hsame1).trans ((Keep_of_Same hsame2).trans (Keep_of_Same hsame3))) hF
    apply Tr_RO; intro feIndex
    -- afeRemove
    unfold afeRemove
    simp only [Tr_bind, Tr_afe]
    split
    · simp only [Tr_setAfe, Tr_afe]
      -- the new list of active formatting elements
      generalize hL : listInsert (st3.activeFormattingElements.erase (some fe)) (if bm > feIndex then bm - 1 else bm) (some clone) = L
      have hs4 : ST { st3 with activeFormattingElements := L } := by
        refine ST_setAfe hk3.1 _ ?_
        intro j hj
        rw [← hL] at hj
        unfold listInsert at hj
        rcases List.mem_append.1 hj with hj | hj
        · exact hk3.1.afe j (List.mem_of_mem_erase (List.mem_of_mem_take hj))
        · rcases List.mem_cons.1 hj with hj | hj
          · cases hj; exact hFc
          · exact hk3.1.afe j (List.mem_of_mem_erase (List.mem_of_mem_drop hj))
      have hk4 : KPpost st0 { st3 with activeFormattingElements := L } := ⟨hs4, ⟨hk3.2.1.f, hk3.2.1.cf, hk3.2.1.ar⟩, hk3.2.2⟩
      -- openRemove fe
      unfold openRemove
      simp only [Tr_bind, Tr_openElems]
      split
      · rename_i hc
        have hmem : fe ∈ st3.openElements := by simpa using hc
        obtain ⟨p, q, h1, h2⟩ := erase_split st3.openElements fe hmem
        simp only [Tr_setOpen]
        have h2' : ({ st3 with activeFormattingElements := L } : PState).openElements.erase fe = p ++ q := h2
        rw [h2']
        obtain ⟨q1, q2⟩ := ST_remove hs4 (a := p) (b := q) (x := fe) h1 (okU_of_okF hFfe).1
        have hk5 : KPpost st0 (wo { st3 with activeFormattingElements := L } (p ++ q)) := ⟨q1, ⟨hk3.2.1.f, hk3.2.1.cf, hk3.2.1.ar⟩, by rw [q2]; exact hk3.2.2⟩
        refine Tr_openIndex fb _ _ _ ?_
        intro p' q' hpq' _
        simp only [Tr_setOpen]
        have hcl5 : okF (wo { st3 with activeFormattingElements := L } (p ++ q)) clone := hFc
        have hnin5 : clone ∉ p ++ q := by
          intro hm
          apply hcnin
          rw [← hop3, h1]
          rcases List.mem_append.1 hm with hm | hm
          · exact List.mem_append_left _ hm
          · exact List.mem_append_right _ (List.mem_cons_of_mem _ hm)
        obtain ⟨r1, r2⟩ := ST_insert_junk q1 (p'.length + 1) clone hcl5 hnin5 (by omega)
          (by show p ++ q ≠ []; rw [show p ++ q = p' ++ fb :: q' from hpq']; simp)
        have hk6 : KPpost st0 _ := ⟨r1, ⟨hk3.2.1.f, hk3.2.1.cf, hk3.2.1.ar⟩, by rw [r2, q2]; exact hk3.2.2⟩
        exact Tr_KP_step _ hk6 _ (fun _ _ h => h)
      · simp only [Tr_throw]; exact NF_valueError _
    · simp only [Tr_throw]; exact NF_valueError _

theorem FMT_nonspecial {st : PState} {i : NodeId} (h : okF st i) :
    Gen.specialElements.contains (tup (elemK st.arena i)) = false := by
  have hall : FMT.all (fun n => !Gen.specialElements.contains (htmlNs, n)) = true := by decide
  have hH : isH (elemK st.arena i) = true := by
    have := isH_dns st.cfg (elemK st.arena i).2
    unfold isH at this ⊢
    rw [h.2.1]; exact this
  rw [tup_of hH]
  have := List.all_eq_true.1 hall _ (by simpa using h.2.2)
  simpa using this

set_option hygiene false in
/-- the tail of a round of the adoption agency, at the point where the clone of the formatting element is made -/
macro "aa_tail" : tactic => `(tactic|
  (have hfin := aa_final_kp tok n fe fb s.bookmark ih ‹KPpost st _› (okF_of_Keep (‹KPpost st _›).2.1 hF0)
   simp only [Tr_bind, Tr_get, Tr_set, Tr_monadLift, Tr_lift, Post_bind, Tr_openElems, Tr_afe, Tr_setAfe, Tr_setOpen,
     Tr_pure, Tr_modify] at hfin ⊢
   exact hfin))

set_option hygiene false in
/-- steps 10 of the adoption agency (the tree operations on `lastNode`), then the tail -/
macro "aa_moves" : tactic => `(tactic|
  repeat' (first
    | aa_tail
    | (apply Tr_RO; intro _)
    | (refine Tr_SV_step _ ‹KPpost st _› _ ?_; intro _ _ _ _)
    | split
    | (simp only [Tr_bind])))

set_option hygiene false in
/-- steps 5–15, from the state `$s` (the formatting element is on the stack) -/
macro "aa_main" s:ident hk:ident : tactic => `(tactic|
  (have hFs : okF $s fe := okF_of_Keep ($hk).2.1 hF0
   try simp only [Tr_bind]
   refine Tr_openIndex fe _ _ _ ?_
   intro p q hpq hfep
   simp only [Tr_openElems]
   have hdrop : List.drop p.length ($s).openElements = fe :: q := by rw [hpq]; simp
   rw [hdrop]
   have hnd := ($hk).1.nodup
   rw [hpq] at hnd
   have hfeq : fe ∉ q := (List.nodup_cons.1 (List.nodup_append.1 hnd).2.1).1
   refine findBlock_spec $s (fe :: q) (fun i hi => ($hk).1.elem i (by rw [hpq]; exact List.mem_append_right _ hi)) _ ?_ ?_
   · -- a furthest block
     intro mid fb top hsplit hmid hfbsp
     cases mid with
     | nil =>
       -- the formatting element itself is not special
       simp only [List.nil_append, List.cons.injEq] at hsplit
       rw [← hsplit.1, FMT_nonspecial hFs] at hfbsp
       cases hfbsp
     | cons m0 mid' =>
       simp only [List.cons_append, List.cons.injEq] at hsplit
       obtain ⟨hm0, hq⟩ := hsplit
       subst hm0
       dsimp only
       simp only [Tr_bind, Tr_openElems]
       refine @Tr_RO _ _ (by split <;> infer_instance) _ _ ?_
       intro commonAncestor
       apply Tr_RO; intro bookmark
       refine Tr_openIndex fb _ _ _ ?_
       intro p2 q2 hp2 hfb2
       have hstack : ($s).openElements = (p ++ fe :: mid') ++ fb :: top := by rw [hpq, hq]; simp
       have hnd2 := ($hk).1.nodup
       rw [hstack] at hnd2
       have hfbtop : fb ∉ top := (List.nodup_cons.1 (List.nodup_append.1 hnd2).2.1).1
       have hfbq2 : fb ∉ q2 := by
         have hnd3 := ($hk).1.nodup
         rw [hp2] at hnd3
         exact (List.nodup_cons.1 (List.nodup_append.1 hnd3).2.1).1
       obtain ⟨e1, e2⟩ := last_split_unique fb _ _ _ _ (by rw [← hstack]; exact hp2) hfbtop hfbq2
       subst e1
       refine Tr_mono (InBody_endTagFormatting_inner_kp fe fb 3 _ $s p mid' (fb :: top) ($hk).1
         (by rw [hstack]; simp) (fun y hy => unprot_of_nonspecial (hmid y (List.mem_cons_of_mem _ hy)))
         (by simp; omega) hfeafe) ?_
       intro s st6 hk6'
       have hk6 : KPpost st st6 := ($hk).trans hk6'
       aa_moves
   · -- no furthest block: everything above the formatting element is popped
     intro hall
     dsimp only
     simp only [Tr_bind]
     refine Tr_mono (popUntil_spec _ _ $s (fun e => e == fe) (fun l e _ Q => by simp only [Tr_pure]) ($hk).1.elem) ?_
     rintro r st7 ⟨pre, post, g1, g2, g3, g4⟩
     subst g2
     have hr : r = fe := by simpa using g3
     subst hr
     have hrpost : r ∉ post := fun hm => by have := g4 r hm; simp at this
     obtain ⟨e1, e2⟩ := last_split_unique r _ _ _ _ (by rw [← hpq]; exact g1) hfeq hrpost
     subst e1; subst e2
     have hs7 : ST (wo $s p) := ST_prefix (post := r :: q) (by rw [← hpq]; exact ($hk).1)
     have hk7 : KPpost st (wo $s p) := ($hk).trans ⟨hs7, Keep_wo _ _, by
       rw [P_prefix (st := $s) (pre := p) (post := r :: q) (fun y hy => unprot_of_nonspecial (hall y hy)), ← hpq]⟩
     refine Tr_KP_step _ hk7 _ ?_
     intro _ st8 hk8
     simp only [Tr_pure]
     exact hk8))

theorem InBody_endTagFormatting_outer_kp (tok : Token) [hF : Fct (isFMT tok)] :
    ∀ n, KP (InBody_endTagFormatting_outer tok n)
  | 0 => by unfold InBody_endTagFormatting_outer; infer_instance
  | n + 1 => ⟨fun st hs => by
    have ih := InBody_endTagFormatting_outer_kp tok n
    have hk0 : KPpost st st := KPpost.refl hs
    unfold InBody_endTagFormatting_outer
    simp only [Tr_bind, Tr_monadLift]
    cases ht : tok.tag "InBodyPhase.endTagFormatting" with
    | error e => have := (ENF_tag tok "InBodyPhase.endTagFormatting").out; rw [ht] at this; exact this
    | ok d =>
      simp only [Post_ok]
      refine elementInAfe_spec d.name st _ ?_
      intro fe? hfe
      cases fe? with
      | none =>
        dsimp only
        simp only [Tr_bind]
        refine Tr_KP_step _ hk0 _ ?_
        intro _ st1 hk1; simp only [Tr_pure]; exact hk1
      | some fe =>
        dsimp only
        have hfeafe0 : some fe ∈ st.activeFormattingElements := hfe fe rfl
        have hF0 : okF st fe := hs.afe fe hfeafe0
        simp only [Tr_bind, Tr_nodeName hF0.1]
        unfold inOpen
        simp only [Tr_bind, Tr_openElems, Tr_pure]
        by_cases hc : st.openElements.contains fe = true
        · rw [hc]
          simp only [if_true, Tr_bind]
          apply Tr_RO; intro b
          simp only [Tr_pure, Bool.true_and]
          cases b with
          | false =>
            simp only [Bool.not_false, if_true, Tr_bind]
            refine Tr_KP_step _ hk0 _ ?_
            intro _ st1 hk1; simp only [Tr_pure]; exact hk1
          | true =>
            simp only [Bool.not_true, Bool.false_eq_true, if_false, Tr_bind]
            apply Tr_RO; intro b2
            split
            · simp only [Tr_bind, Tr_pure]
              exact Tr_SV_step _ hk0 _ (fun _ _ h _ => h)
            · simp only [Tr_bind]
              apply Tr_RO; intro last
              split
              · simp only [Tr_bind]
                refine Tr_SV_step _ hk0 _ ?_
                intro _ st1 hk1 hsame1
                have hfeafe : some fe ∈ st1.activeFormattingElements := by rw [hsame1.af]; exact hfeafe0
                aa_main st1 hk1
              · have hfeafe : some fe ∈ st.activeFormattingElements := hfeafe0
                aa_main st hk0
        · have hc' : st.openElements.contains fe = false := by simpa using hc
          rw [hc']
          simp only [Bool.false_eq_true, if_false, Tr_pure, Bool.false_and, Bool.not_false, if_true, Tr_bind]
          refine Tr_SV_step _ hk0 _ ?_
          intro _ st1 hk1 _
          refine Tr_KP_step _ hk1 _ ?_
          intro _ st2 hk2; exact hk2⟩

instance KP_InBody_endTagFormatting (tok : Token) [hF : Fct (isFMT tok)] : KP (InBody_endTagFormatting tok) := by
  unfold InBody_endTagFormatting
  haveI := InBody_endTagFormatting_outer_kp tok 8
  kp_auto
