theorem T_InForeignContent_processEndTag {r : Rec} {n : Nat} (hr : RecInv r n) (tok : Token) (hNs : NsNone tok)
    (h : 2 < n) (st : PState) (hi : Inv st) (hf : Fgn st) :
    Tr (InForeignContent_processEndTag r tok) st (fun _ st' => Inv st') := by
  unfold InForeignContent_processEndTag
  simp only [Tr_bind, Tr_monadLift, Tr_lift, Post_bind, Tr_openElems, Tr_openLast]
  apply Post_ENF
  intro d x hx
  have hpos := getLast?_length_pos hx
  apply Tr_RO
  intro nm
  have hfin : ∀ st1, Same st st1 →
      Tr (InForeignContent_processEndTag_loop r tok d.name (2 * st.openElements.length + 2)
        (↑st.openElements.length - 1) x) st1 (fun _ st' => Inv st') := by
    intro st1 he
    have hi1 : Inv st1 := Inv_of_Same he hi
    have hK : stackK st1 = stackK st := stackK_of_Same he hi.str
    have hf1 : Fgn st1 := by
      obtain ⟨e, he1, hne⟩ := hf
      exact ⟨e, by rw [hK]; exact he1, by rw [dnsOf_of_cfg he.cf]; exact hne⟩
    have hx1 : st1.openElements.getLast? = some x := by rw [he.op]; exact hx
    have hl := list_snoc_of_getLast? hx1
    have hcast : ((st.openElements.length : Int) - 1) = (st1.openElements.dropLast.length : Int) := by
      rw [he.op]; simp; omega
    rw [hcast]
    refine T_InForeignContent_processEndTag_loop hr h tok hNs d.name st1 hi1 hf1 _ _ x [] hl ?_ ?_
    · intro y hy
      simp only [List.mem_singleton] at hy
      subst hy
      obtain ⟨e, he1, hne⟩ := hf1
      rw [stackK_getLast? hx1] at he1; cases he1; exact hne
    · rw [← he.op]; simp; omega
  split
  · simp only [Tr_bind]
    refine Tr_mono ((inferInstance : SV (parseError _ _)).out st) ?_
    intro _ st1 he
    exact hfin st1 he
  · exact hfin st (Same.refl _)
