instance KG_InSelect_startTagOptgroup (tok : Token) [hNs : Fct (NsNone tok)] [hO : Fct (isOptTok tok)] :
    KG (InSelect_startTagOptgroup tok) := ⟨fun st hs => by
  have hg0 : GS st st := GS.refl hs
  unfold InSelect_startTagOptgroup
  dsimp only
  sel_popif "option" then
    sel_popif "optgroup" then
      simp only [Tr_bind, Tr_pure]
      exact Tr_GS_insertTok tok _ hNs.out hO.out ‹GS st _› _ (fun _ _ h => h)⟩
