/-- the token is named `select` -/
def isSelectTok (tok : Token) : Prop := tokName tok = nSelect

theorem SEL_push_select (dns : Option Str) (cfg : Cfg) (hd : dns = cfg.defaultNamespace) (s : List El) :
    SEL dns (s ++ [(dns, nSelect)]) = true := by
  unfold SEL
  rw [List.reverse_append]
  simp only [List.reverse_cons, List.reverse_nil, List.nil_append, List.singleton_append, selRev]
  have hH := isH_dns cfg nSelect
  rw [← hd] at hH
  rw [tup_of hH]
  simp

instance Pk_InBody_startTagSelect (tok : Token) [hNs : Fct (NsNone tok)] [hS : Fct (isSelectTok tok)] :
    Pk (InBody_startTagSelect tok) := ⟨fun st hi hn => by
  have hnm : notPN tok := by unfold notPN; rw [hS.out]; decide
  unfold InBody_startTagSelect
  simp only [Tr_bind]
  refine Tr_KP_step _ (KPpost.refl hi.str) _ ?_
  intro _ st1 hk1
  refine Tr_mono (insertElementTok_pushed tok _ st1 hk1.1 hNs.out hnm) ?_
  rintro x st2 ⟨e, hpu, he, hpe⟩
  refine Tr_SV_step _ (hk1.trans ⟨hpu.str, hpu.keep, hpu.p⟩) _ ?_
  intro _ st3 hk3 hsame3
  have hr3 : REG st3 := REG_of_F hk3.2.1.f hi.reg
  have hstack3 : stackK st3 = stackK st1 ++ [(dnsOf st3, nSelect)] := by
    rw [stackK_of_Same hsame3 hpu.str, hpu.stack, he, hS.out, dnsOf_of_cfg hsame3.cf, dnsOf_of_cfg hpu.keep.cf]
  have hsel : SEL (dnsOf st3) (stackK st3) = true := by
    rw [hstack3]; exact SEL_push_select _ st3.cfg rfl _
  simp only [Tr_getPhase]
  unfold setPhase
  split
  · simp only [Tr_bind, Tr_modify, Tr_pure]
    exact Inv_setPhase hk3.1 hr3 _ (by decide) ⟨(fun h => nomatch h), (fun h => nomatch h), (fun h => nomatch h)⟩ (by decide)
      (fun _ => hsel)
  · simp only [Tr_bind, Tr_modify, Tr_pure]
    exact Inv_setPhase hk3.1 hr3 _ (by decide) (PCL_free (by decide) _) (by decide) (fun h => nomatch h)⟩
