instance KG_InSelect_endTagOption (tok : Token) : KG (InSelect_endTagOption tok) := ⟨fun st hs => by
  have hg0 : GS st st := GS.refl hs
  unfold InSelect_endTagOption
  dsimp only
  simp only [Tr_bind, Tr_openLast]
  intro x hx
  have hxe := top_el hs hx
  simp only [Tr_nameIs hxe]
  split
  · rename_i hname
    simp only [Tr_bind, Tr_openPop, Tr_pure]
    intro y hy
    exact GS_pop hg0 hx (Or.inl (by show (elemK st.arena x).2 = lit "option"; simpa using hname))
  · simp only [Tr_bind, Tr_pure]
    exact Tr_GS_SV _ hg0 _ (fun _ _ h => h)⟩
