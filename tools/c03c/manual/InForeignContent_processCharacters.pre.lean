/-! #### foreign content -/

/-- the current node is not in the default namespace -/
def Fgn (st : PState) : Prop := ∃ e, (stackK st).getLast? = some e ∧ e.1 ≠ dnsOf st

/-- when `mainLoop` chooses `InForeignContentPhase` the phase is not `text`, and not one of those in which the
invariant says what the current node is -/
theorem fgn_facts {st : PState} (hi : Inv st) (hf : Fgn st) :
    st.phase ≠ some .text ∧ effP st ≠ some .inSelectInTable ∧ effP st ≠ some .inHead ∧
      effP st ≠ some .inHeadNoscript := by
  obtain ⟨e, he, hne⟩ := hf
  have hnt : st.phase ≠ some .text := by
    intro hp
    obtain ⟨e', he', hok⟩ := hi.txt hp
    rw [he] at he'; cases he'; exact hne hok.1
  have hcids : cIds st = st.openElements := by unfold cIds; rw [if_neg hnt]
  have hsels : selStack st = stackK st := by unfold selStack; rw [if_neg hnt]
  refine ⟨hnt, ?_, ?_, ?_⟩
  · intro h
    have hsel := hi.sel h
    rw [hsels] at hsel
    unfold SEL at hsel
    have hrev : (stackK st).reverse = e :: (stackK st).dropLast.reverse := by
      conv => lhs; rw [list_snoc_of_getLast? he]
      simp
    rw [hrev] at hsel
    exact hne (selRev_head hsel).2
  · intro h
    obtain ⟨pre, hd, h1, h2⟩ := hi.hsh.1 h
    rw [hcids] at h1
    have : (stackK st).getLast? = some (elemK st.arena hd) := by unfold stackK; rw [h1]; simp
    rw [he] at this; cases this
    rw [(hi.str.hp hd h2).2] at hne; exact hne rfl
  · intro h
    obtain ⟨pre, hd, n, h1, h2, h3⟩ := hi.hsh.2.1 h
    rw [hcids] at h1
    have : (stackK st).getLast? = some (elemK st.arena n) := by unfold stackK; rw [h1]; simp
    rw [he] at this; cases this
    exact hne h3

/-- a foreign element is not protected -/
theorem foreign_unprot {st : PState} (hs : ST st) {y : NodeId} (hy : y ∈ st.openElements)
    (h : (elemK st.arena y).1 ≠ dnsOf st) : prot (elemK st.arena y) = false := by
  cases hp : prot (elemK st.arena y) with
  | false => rfl
  | true =>
    have hH : isH (elemK st.arena y) = true := by simp only [prot, Bool.and_eq_true] at hp; exact hp.1
    exact absurd (hs.ns _ (List.mem_map.2 ⟨y, hy, rfl⟩) hH) h

/-- a step of `InForeignContentPhase`: the protected part of the stack is kept, nodes are only popped or freshly
pushed -/
theorem Inv_fgn_step {st st' : PState} (hi : Inv st) (hf : Fgn st) (hk : KPpost st st')
    (hsub : ∀ i ∈ st'.openElements, i ∈ st.openElements ∨ st.arena.nodes.size ≤ i)
    (hhd : st'.headPointer = st.headPointer) : Inv st' := by
  obtain ⟨h1, h2, h3, h4⟩ := fgn_facts hi hf
  have hph : st'.phase = st.phase := phase_of_F hk.2.1.f
  have he : effP st' = effP st := effP_of_F hk.2.1.f
  refine ⟨REG_of_F hk.2.1.f hi.reg, hk.1, fun h => absurd (hph ▸ h) h1, ?_, ?_, ?_⟩
  · rw [he, hk.2.2]; exact hi.pcl
  · unfold HSH
    rw [he]
    refine ⟨fun h => absurd h h3, fun h => absurd h h4, fun h hd hhd' hm => ?_⟩
    have hhd0 : st.headPointer = some hd := by rw [← hhd]; exact hhd'
    rcases hsub hd hm with hm' | hm'
    · exact hi.hsh.2.2 h hd hhd0 hm'
    · exact absurd (IsEl_lt (hi.str.hp hd hhd0).1) (Nat.not_lt.2 hm')
  · rw [he]; intro h; exact absurd h h2

/-- the pop loop of `InForeignContentPhase.processEndTag` -/
theorem popTo_spec (node : NodeId) (st : PState) : ∀ fuel (l : List NodeId), l.length + 1 ≤ fuel →
    Tr (InForeignContent_popTo node fuel) (wo st l) (fun _ st' => ∃ pre post, l = pre ++ node :: post ∧
      node ∉ post ∧ st' = wo st pre) := by
  intro fuel
  induction fuel with
  | zero => intro l h; omega
  | succ fuel ih =>
    intro l h
    unfold InForeignContent_popTo
    simp only [Tr_bind, Tr_openPop]
    intro x hx
    have hl : l = l.dropLast ++ [x] := list_snoc_of_getLast? hx
    split
    · rename_i hne
      simp only [Tr_bind, Tr_openElems]
      apply Tr_RO; intro _
      have hlen : l.dropLast.length + 1 ≤ fuel := by
        have := getLast?_length_pos hx
        simp; omega
      refine Tr_mono (ih l.dropLast hlen) ?_
      rintro _ st' ⟨pre, post, h1, h2, h3⟩
      refine ⟨pre, post ++ [x], ?_, ?_, h3⟩
      · rw [show pre ++ node :: (post ++ [x]) = (pre ++ node :: post) ++ [x] by simp, ← h1]; exact hl
      · intro hm
        rcases List.mem_append.1 hm with hm | hm
        · exact h2 hm
        · simp only [List.mem_singleton] at hm
          rw [hm] at hne; simp at hne
    · rename_i heq
      have : x = node := by simpa using heq
      subst this
      simp only [Tr_pure]
      exact ⟨l.dropLast, [], hl, by simp, rfl⟩
