theorem Pk_InTable_processCharacters {r : Rec} {n : Nat} (hr : RecInv r n) (tok : Token) [hNs : Fct (NsNone tok)] (h : 0 < n) :
    Pk (InTable_processCharacters r tok) := ⟨fun st hi hn => by
  have hi1 := Pk_enterInTableText.out st hi hn
  unfold enterInTableText at hi1
  simp only [Tr_modify] at hi1
  unfold InTable_processCharacters enterInTableText
  simp only [Tr_bind, Tr_modify, Tr_curPhase]
  intro p hp
  cases hp
  exact Tr_mono (hr.Ch .inTableText tok (by simpa [needCh] using h) hNs.out _ hi1 rfl) (fun _ _ h => h)⟩
