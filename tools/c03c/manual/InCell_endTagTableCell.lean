/-- `InCellPhase.endTagTableCell`: the cell (with what is above it) leaves the stack — or stays, when a foreign element
of the same name is hit first —, and in both cases the clause of `inRow` holds -/
instance Pu_InCell_endTagTableCell (tok : Token) [hC : Fct (isCellTok tok)] : Pu (InCell_endTagTableCell tok) := ⟨fun st hi => by
  have hs := hi.str
  unfold InCell_endTagTableCell
  simp only [Tr_bind, Tr_monadLift]
  cases ht : tok.tag "InCellPhase.endTagTableCell" with
  | error e => have := (ENF_tag tok "InCellPhase.endTagTableCell").out; rw [ht] at this; exact this
  | ok d =>
    simp only [Post_ok]
    have hnm : d.name = nTd ∨ d.name = nTh := by rw [tag_name ht]; exact hC.out
    rw [Tr_elementInScope d.name (some "table") [mHtml, mTable] false (by rw [listElements_table, scTable_eq]) st hs.elem]
    intro b hb
    cases b with
    | false =>
      simp only [Bool.false_eq_true, if_false, Tr_bind, Tr_pure]
      exact Tr_SV_keep _ st hi _ (fun _ _ h _ => h)
    | true =>
      simp only [if_true, Tr_bind]
      -- the cell in table scope
      have hne : st.openElements ≠ [] := by
        intro h; unfold stackK at hb; rw [h] at hb; simp [scopeRev] at hb
      have hadj : adjRev (nj (stackK st).reverse) = true := by
        rw [nj_reverse, ← adjOK_eq_adjRev]; exact hs.adj
      have hbot : ∃ b, (stackK st).reverse.getLast? = some b ∧ junk b = false ∧ b.2 = nHtml := by
        cases hk : stackK st with
        | nil => unfold stackK at hk; exact absurd (List.map_eq_nil_iff.1 hk) hne
        | cons y ys =>
          have hy := hs.bot y (by rw [hk]; rfl)
          refine ⟨y, by simp, ?_, by rw [hy]⟩
          rw [hy]
          exact prot_not_junk (prot_html st.cfg)
      obtain ⟨above, t, below, e1, e2, e3, e4, p0, q, hq, e5⟩ := cell_scope hnm _ hadj hbot hb
      have hK : stackK st = below.reverse ++ t :: above.reverse := by
        have := congrArg List.reverse e1
        simpa using this
      -- the same split of the list of nodes
      unfold stackK at hK
      obtain ⟨B, XA, hB1, hB2, hB3⟩ := List.map_eq_append_iff.1 hK
      obtain ⟨x, A, hX1, hX2, hX3⟩ := List.map_eq_cons_iff.1 hB3
      subst hX1
      have hop : st.openElements = B ++ x :: A := hB1
      have hAun : ∀ y ∈ A, prot (elemK st.arena y) = false := by
        intro y hy
        apply e4
        rw [← List.mem_reverse, ← hX3]
        exact List.mem_map.2 ⟨y, hy, rfl⟩
      have hxn : (elemK st.arena x).2 = d.name := by rw [hX2]; exact e2
      have hxp : prot (elemK st.arena x) = true := by rw [hX2]; exact e3
      have hPB : P (B.map (elemK st.arena)) = p0 ++ [q] := by rw [hB2]; exact e5
      -- any stack `B ++ C` with `C` a prefix of `x :: A` is fine for `inRow`
      have fin : ∀ (C D : List NodeId) (st5 : PState), x :: A = C ++ D → ST st5 → Keep st st5 →
          stackK st5 = (B ++ C).map (elemK st.arena) →
          Tr (do clearActiveFormattingElements; setPhase .inRow; pure (none : Option Token) : M (Option Token)) st5
            (fun _ st' => Inv st') := by
        intro C D st5 hCD hs5 hk5 hsk5
        simp only [Tr_bind]
        refine Tr_mono ((KP_clearActiveFormattingElements).out st5 hs5) ?_
        intro _ st6 h6
        unfold setPhase
        simp only [Tr_modify, Tr_pure]
        have hr6 : REG st6 := REG_of_F (hk5.trans h6.2.1).f hi.reg
        refine Inv_setPhase h6.1 hr6 _ (by decide) ⟨(fun h => nomatch h), fun _ => ?_, (fun h => nomatch h)⟩ (by decide)
          (fun h => nomatch h)
        rw [h6.2.2, hsk5, List.map_append, P_append, hPB]
        cases C with
        | nil => simp only [List.map_nil, P, List.filter_nil, List.append_nil]; exact (ROW_after_cell p0 q d.name hq hnm).1
        | cons c C' =>
          simp only [List.cons_append, List.cons.injEq] at hCD
          obtain ⟨hc, hA⟩ := hCD
          subst hc
          have hC'un : ∀ y ∈ C', prot (elemK st.arena y) = false := fun y hy => hAun y (by rw [hA]; exact List.mem_append_left _ hy)
          have : P ((x :: C').map (elemK st.arena)) = [d.name] := by
            rw [List.map_cons, show elemK st.arena x :: C'.map (elemK st.arena) = [elemK st.arena x] ++ C'.map (elemK st.arena) from rfl,
              P_append_unprot _ _ (by intro e he; obtain ⟨y, hy, rfl⟩ := List.mem_map.1 he; exact hC'un y hy)]
            simp [P, hxp, hxn]
          rw [this]; exact (ROW_after_cell p0 q d.name hq hnm).2
      -- generateImpliedEndTags
      refine Tr_mono (generateImpliedEndTags_spec (some d.name) st hs.elem) ?_
      rintro _ st1 ⟨pre2, post2, h1, h2, h3⟩
      subst h2
      have hxpost2 : x ∉ post2 := fun hm => (h3 x hm).2 (by rw [hxn])
      obtain ⟨A1, hA1, hpre2⟩ := split_after B x A pre2 post2 (by rw [← hop]; exact h1) hxpost2
      have hs1 : ST (wo st pre2) := ST_prefix (post := post2) (by rw [← h1]; exact hs)
      simp only [Tr_openLast]
      intro top htop
      have htopel : IsEl (wo st pre2).arena top := hs1.elem top (List.mem_of_getLast? htop)
      simp only [Tr_nodeName htopel]
      split
      · -- the current node has another name: pop until the name
        simp only [Tr_bind]
        refine Tr_SV_keep_ST _ hs1 _ ?_
        intro _ st2 hs2 hsame2
        refine Tr_mono (popUntil_spec _ _ st2 (fun n => (elemK st2.arena n).2 == d.name) (fun l n hn Q => by
          have hn' : IsEl (wo st2 l).arena n := hn
          simp only [Tr_bind, Tr_nodeName hn', Tr_pure]) hs2.elem) ?_
        rintro u st3 ⟨pre, post, g1, g2, g3, g4⟩
        subst g2
        have hop2 : st2.openElements = B ++ x :: A1 := by rw [hsame2.op]; exact hpre2
        have hK2 : ∀ y ∈ st.openElements, elemK st2.arena y = elemK st.arena y := fun y hy =>
          ((hs.elem y hy).ext (show Ext st.arena st2.arena from hsame2.ar)).2
        have hxpost : x ∉ post := by
          intro hm
          have := g4 x hm
          rw [hK2 x (by rw [hop]; simp), hxn] at this
          simp at this
        obtain ⟨A1', hA1', hpre'⟩ := split_after B x A1 (pre ++ [u]) post (by rw [← hop2, g1]; simp) hxpost
        have hs3 : ST (wo st2 pre) := ST_prefix (post := u :: post) (by rw [← g1]; exact hs2)
        have hk3 : Keep st (wo st2 pre) := ⟨hsame2.f, hsame2.cf, hsame2.ar⟩
        -- `pre = B ++ C`
        rcases List.eq_nil_or_concat A1' with hnil | ⟨A1'', a, hconc⟩
        · subst hnil
          have hpre : pre = B := by
            have := congrArg List.dropLast hpre'
            simpa using this
          have := fin [] (x :: A) (wo st2 pre) rfl hs3 hk3 (by
            rw [stackK_wo, hpre]; simp only [List.append_nil]
            exact List.map_congr_left (fun y hy => hK2 y (by rw [hop]; exact List.mem_append_left _ hy)))
          simpa only [Tr_bind] using this
        · rw [List.concat_eq_append] at hconc
          subst hconc
          have hpre : pre = B ++ x :: A1'' := by
            have := congrArg List.dropLast hpre'
            rw [List.dropLast_concat] at this
            rw [this]
            rw [show B ++ x :: (A1'' ++ [a]) = (B ++ x :: A1'') ++ [a] by simp, List.dropLast_concat]
          have hsub : ∀ y ∈ B ++ x :: A1'', y ∈ st.openElements := by
            intro y hy
            rw [hop, hA1, hA1']
            rcases List.mem_append.1 hy with hy | hy
            · exact List.mem_append_left _ hy
            · rcases List.mem_cons.1 hy with hy | hy
              · rw [hy]; simp
              · simp [hy]
          have := fin (x :: A1'') ([a] ++ post ++ post2) (wo st2 pre) (by rw [hA1, hA1']; simp) hs3 hk3 (by
            rw [stackK_wo, hpre]
            exact List.map_congr_left (fun y hy => hK2 y (hsub y hy)))
          simpa only [Tr_bind] using this
      · -- the current node has the name: it is popped
        simp only [Tr_bind, Tr_openPop]
        intro y hy
        have hs3 : ST (wo (wo st pre2) pre2.dropLast) := ST_pop hs1
        rcases List.eq_nil_or_concat A1 with hnil | ⟨A1'', a, hconc⟩
        · subst hnil
          have hdl : pre2.dropLast = B := by rw [hpre2]; simp
          have := fin [] (x :: A) (wo (wo st pre2) pre2.dropLast) rfl hs3 ⟨rfl, rfl, Ext.refl _⟩ (by
            rw [stackK_wo, hdl]; simp)
          simpa only [Tr_bind] using this
        · rw [List.concat_eq_append] at hconc
          subst hconc
          have hdl : pre2.dropLast = B ++ x :: A1'' := by
            rw [hpre2, show B ++ x :: (A1'' ++ [a]) = (B ++ x :: A1'') ++ [a] by simp, List.dropLast_concat]
          have := fin (x :: A1'') ([a] ++ post2) (wo (wo st pre2) pre2.dropLast) (by rw [hA1]; simp) hs3
            ⟨rfl, rfl, Ext.refl _⟩ (by rw [stackK_wo, hdl])
          simpa only [Tr_bind] using this⟩
