theorem heading_notFMT : ∀ nm, Gen.headingElements.contains nm = true → FMT.contains nm = false := by
  have h : Gen.headingElements.all (fun n => !FMT.contains n) = true := by decide
  intro nm hn
  have := List.all_eq_true.1 h nm (by simpa using hn)
  simpa using this

theorem anyInScope_spec (st : PState) (hs : ST st) : ∀ (l : List Str) (Q : Bool → PState → Prop),
    (∀ n ∈ l, PN.contains n = false ∧ FMT.contains n = false) → (∀ n ∈ l, SafeN [n] st → Q true st) → Q false st →
    Tr (InBody_endTagHeading.anyInScope l) st Q
  | [], Q, _, _, hf => by unfold InBody_endTagHeading.anyInScope; exact hf
  | item :: rest, Q, hl, ht, hf => by
    unfold InBody_endTagHeading.anyInScope
    simp only [Tr_bind]
    refine Tr_inScope_safe item none (Or.inl rfl) (hl item (List.mem_cons_self ..)).1
      (hl item (List.mem_cons_self ..)).2 st hs _ ?_ ?_
    · intro hsafe; simp only [if_true, Tr_pure]; exact ht item (List.mem_cons_self ..) hsafe
    · simp only [Bool.false_eq_true, if_false]
      exact anyInScope_spec st hs rest Q (fun n hn => hl n (List.mem_cons_of_mem _ hn))
        (fun n hn => ht n (List.mem_cons_of_mem _ hn)) hf

instance RO_anyInScope : ∀ l, RO (InBody_endTagHeading.anyInScope l)
  | [] => by unfold InBody_endTagHeading.anyInScope; infer_instance
  | item :: rest => by
    haveI := RO_anyInScope rest
    unfold InBody_endTagHeading.anyInScope; tb_auto

set_option hygiene false in
macro "heading_tail2" s:ident hk:ident : tactic => `(tactic|
  (refine anyInScope_spec $s ($hk).1 _ _ (fun n hn => ⟨heading_unprot n (by simpa using hn), heading_notFMT n (by simpa using hn)⟩) ?_ ?_
   · intro item hitem hsafe
     simp only [if_true, Tr_bind]
     have hsafe' : SafeN Gen.headingElements $s := SafeN_sub (by
       intro n hn; simp at hn; subst hn; simpa using hitem) hsafe
     refine Tr_Good_popUntil _ _ ⟨$hk, hsafe'⟩ (fun l n hn Q => by
       have hn' : IsEl (wo $s l).arena n := hn
       simp only [Tr_bind, Tr_nodeName hn', Tr_pure]) _ ?_
     intro _ st3 h3; simp only [Tr_pure]; exact h3
   · simp only [Bool.false_eq_true, if_false]
     exact $hk))

set_option hygiene false in
macro "heading_tail" s:ident hk:ident : tactic => `(tactic|
  (apply Tr_RO; intro _
   apply Tr_RO; intro _
   split
   · simp only [Tr_bind]
     refine Tr_SV_step _ $hk _ ?_
     intro _ st2 hk2 _
     heading_tail2 st2 hk2
   · simp only [Tr_bind]
     heading_tail2 $s $hk))

instance KP_InBody_endTagHeading (tok : Token) : KP (InBody_endTagHeading tok) := ⟨fun st hs => by
  unfold InBody_endTagHeading
  simp only [Tr_bind, Tr_monadLift]
  cases ht : tok.tag "InBodyPhase.endTagHeading" with
  | error e => have := (ENF_tag tok "InBodyPhase.endTagHeading").out; rw [ht] at this; exact this
  | ok d =>
    simp only [Post_ok, Tr_bind]
    have hk0 : KPpost st st := KPpost.refl hs
    apply Tr_RO; intro b1
    split
    · simp only [Tr_bind]
      refine Tr_KP_step _ hk0 _ ?_
      intro _ st1 hk1
      heading_tail st1 hk1
    · simp only [Tr_bind]
      heading_tail st hk0⟩
