instance Pf_InTableBody_endTagTableRowGroup (tok : Token) : Pf (InTableBody_endTagTableRowGroup tok) := by
  unfold InTableBody_endTagTableRowGroup; pf_auto
