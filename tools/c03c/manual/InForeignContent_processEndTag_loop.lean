/-- the `while True` loop of `InForeignContentPhase.processEndTag`: the nodes visited so far (`node` and those above
it) are foreign elements; nothing has been changed yet -/
theorem T_InForeignContent_processEndTag_loop {r : Rec} {n : Nat} (hr : RecInv r n) (h : 2 < n) (tok : Token)
    (hNs : NsNone tok) (name : Str) (st : PState) (hi : Inv st) (hf : Fgn st) :
    ∀ (fuel : Nat) (pre : List NodeId) (node : NodeId) (post : List NodeId),
      st.openElements = pre ++ node :: post → (∀ y ∈ node :: post, (elemK st.arena y).1 ≠ dnsOf st) →
      pre.length + 1 ≤ fuel →
      Tr (InForeignContent_processEndTag_loop r tok name fuel (pre.length : Int) node) st (fun _ st' => Inv st') := by
  have hs := hi.str
  intro fuel
  induction fuel with
  | zero => intro pre node post _ _ h2; omega
  | succ fuel ih =>
    intro pre node post hop hfor h2
    have hunp : ∀ y ∈ node :: post, prot (elemK st.arena y) = false := by
      intro y hy
      exact foreign_unprot hs (by rw [hop]; exact List.mem_append_right _ hy) (hfor y hy)
    unfold InForeignContent_processEndTag_loop
    simp only [Tr_bind]
    apply Tr_RO
    intro nm
    split
    · simp only [Tr_bind, Tr_getPhase]
      split
      · rename_i hph
        have hp : st.phase = some .inTableText := by simpa using hph
        simp only [Tr_bind]
        refine Tr_mono (T_InTableText_flushCharacters hr (by omega) st hs) ?_
        rintro _ st1 ⟨hk1, extra, hg1⟩
        have htph := hi.reg.tph hp
        have heff : effP st = st.tableTextOriginalPhase := by
          unfold effP; rw [if_neg (by rw [hp]; decide), if_pos hp]
        have hi1 : Inv st1 := Inv_of_KPg hi (by rw [hp]; decide) (by rw [heff]; exact htph.2.1.2)
          (by rw [heff]; exact htph.2.2) hk1.1 hk1.2.1 hk1.2.2
        have hp1 : st1.phase = some .inTableText := by rw [phase_of_F hk1.2.1.f]; exact hp
        have hr2 := restoreTableTextPhase_tr st1 hi1 hp1
        unfold InTableText_restorePhase at hr2 ⊢
        simp only [Tr_modify] at hr2 ⊢
        obtain ⟨hi2, hnt2⟩ := hr2
        generalize hst2 : ({ st1 with phase := st1.tableTextOriginalPhase } : PState) = st2 at hi2 hnt2 ⊢
        have hop2 : st2.openElements = pre ++ node :: (post ++ extra) := by
          rw [← hst2]; show st1.openElements = _; rw [hg1, hop]; simp
        have har2 : st2.arena = st1.arena := by rw [← hst2]
        simp only [Tr_bind, Tr_pure, Tr_openElems]
        refine Tr_mono (popTo_spec node st2 _ st2.openElements (Nat.le_refl _)) ?_
        rintro _ st3 ⟨pre3, post3, h31, h32, h33⟩
        have hnd : (pre ++ node :: (post ++ extra)).Nodup := by rw [← hop2]; exact hi2.str.nodup
        have hnin : node ∉ post ++ extra := by
          have := (List.nodup_append.1 hnd).2.1
          exact (List.nodup_cons.1 this).1
        obtain ⟨e1, _⟩ := last_split_unique node _ _ _ _ (hop2.symm.trans h31) hnin h32
        subst e1
        subst h33
        have hs3 : ST (wo st2 pre) := ST_prefix (post := node :: post3) (by rw [← h31]; exact hi2.str)
        refine Inv_of_KPg hi2 hnt2.1.1 (fun he => ?_) (fun he => ?_) hs3 (Keep_wo _ _) ?_
        · exact hnt2.2.1.2 (by rw [← effP_eq_phase hnt2.1]; exact he)
        · exact hnt2.2.2 (by rw [← effP_eq_phase hnt2.1]; exact he)
        · -- the protected part is that of `pre`
          have hK : ∀ y ∈ st.openElements, elemK st2.arena y = elemK st.arena y := by
            intro y hy; rw [har2]; exact ((hs.elem y hy).ext hk1.2.1.ar).2
          have e2 : P (stackK st2) = P (stackK st) := by
            rw [← hk1.2.2, ← hst2]; rfl
          rw [e2, stackK_wo]
          show _ = P (st.openElements.map (elemK st.arena))
          rw [hop, List.map_append, P_append_unprot _ _ (by
            intro e he
            obtain ⟨y, hy, rfl⟩ := List.mem_map.1 he
            exact hunp y hy)]
          congr 1
          apply List.map_congr_left
          intro y hy
          exact hK y (by rw [hop]; exact List.mem_append_left _ hy)
      · simp only [Tr_bind, Tr_pure, Tr_openElems]
        refine Tr_mono (popTo_spec node st _ st.openElements (Nat.le_refl _)) ?_
        rintro _ st3 ⟨pre3, post3, h31, h32, h33⟩
        have hnd : (pre ++ node :: post).Nodup := by rw [← hop]; exact hs.nodup
        have hnin : node ∉ post := (List.nodup_cons.1 (List.nodup_append.1 hnd).2.1).1
        obtain ⟨e1, e2⟩ := last_split_unique node _ _ _ _ (hop.symm.trans h31) hnin h32
        subst e1; subst e2; subst h33
        refine Inv_fgn_step hi hf ⟨ST_prefix (post := node :: post) (by rw [← hop]; exact hs), Keep_wo _ _, ?_⟩ ?_ rfl
        · rw [P_prefix (post := node :: post) hunp, ← hop]
        · intro i hi'; left; rw [hop]; exact List.mem_append_left _ hi'
    · simp only [Tr_bind, Tr_openElems]
      -- the node below
      rcases List.eq_nil_or_concat pre with hpre | ⟨pre1, x, hpre⟩
      · -- `node` would be the root element
        exfalso
        subst hpre
        have hb := hs.bot (elemK st.arena node) (by unfold stackK; rw [hop]; rfl)
        exact hfor node (List.mem_cons_self ..) (by rw [hb])
      · rw [List.concat_eq_append] at hpre
        subst hpre
        have hidx : pyIndex st.openElements (((pre1 ++ [x]).length : Int) - 1) = some x := by
          have : (((pre1 ++ [x]).length : Int) - 1) = (pre1.length : Int) := by simp
          rw [this, pyIndex_nat, hop]; simp
        rw [hidx]
        simp only [Tr_pure]
        have hxm : x ∈ st.openElements := by rw [hop]; simp
        simp only [Tr_nodeNs (hs.elem x hxm), Tr_getCfg]
        have hcast : (((pre1 ++ [x]).length : Int) - 1) = (pre1.length : Int) := by simp
        rw [hcast]
        split
        · rename_i hne
          refine ih pre1 x (node :: post) (by rw [hop]; simp) ?_ (by simp at h2; omega)
          intro y hy
          rcases List.mem_cons.1 hy with hy | hy
          · subst hy; simpa [dnsOf] using hne
          · exact hfor y hy
        · simp only [Tr_bind, Tr_curPhase]
          intro p hp
          have hne : p ≠ .inForeignContent := by
            intro he; rw [he] at hp; exact hi.reg.ph.1 hp
          exact hr.E p tok (needE_lt tok hne h) hNs st hi (entryK_cur hi hp) (CE_of_phase hp)
