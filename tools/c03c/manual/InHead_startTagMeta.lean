theorem T_InHead_startTagMeta (tok : Token) (st : PState) (hel : ∀ i ∈ st.openElements, IsEl st.arena i) :
    Tr (InHead_startTagMeta tok) st (fun _ st' => Same st st') := by
  unfold InHead_startTagMeta
  simp only [Tr_bind, Tr_monadLift]
  cases ht : tok.tag "InHeadPhase.startTagMeta" with
  | error e => have := (ENF_tag tok "InHeadPhase.startTagMeta").out; rw [ht] at this; exact this
  | ok d =>
    simp only [Post_ok]
    have := voidInsert_same d "InHeadPhase.startTagMeta" st hel
    simpa only [Tr_bind] using this

instance Pu_InHead_startTagMeta (tok : Token) : Pu (InHead_startTagMeta tok) :=
  ⟨fun st hi => Tr_mono (T_InHead_startTagMeta tok st hi.str.elem) (fun _ _ e => Inv_of_Same e hi)⟩
