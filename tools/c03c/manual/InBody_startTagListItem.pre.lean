/-- the names that `InBodyPhase.startTagListItem` closes are among the implied ones -/
theorem stopNames_implied : ∀ p ∈ Gen.Lit.InBodyPhase_startTagListItem_0, ∀ nm ∈ p.2, impliedNames.contains nm = true := by
  decide

theorem Pn_InBody_startTagListItem_loop {r : Rec} {n : Nat} (hr : RecInv r n) (h : 2 < n) (site : String)
    (stopNames : List Str) (hst : ∀ nm ∈ stopNames, impliedNames.contains nm = true) :
    ∀ l, Pn (InBody_startTagListItem.loop r site stopNames l)
  | [] => by unfold InBody_startTagListItem.loop; infer_instance
  | node :: rest => by
    have ih := Pn_InBody_startTagListItem_loop hr h site stopNames hst rest
    unfold InBody_startTagListItem.loop
    refine @Pn_bind _ _ _ _ inferInstance ?_
    intro nm
    split
    · rename_i hc
      have hi : isImplied (impliedEndS nm) := hst nm (by simpa using hc)
      have := RecInv.pnCurE hr site (impliedEndS nm) h rfl hi (fun _ => (pure () : M Unit))
      exact this
    · pn_auto
