instance KP_InBody_endTagForm (tok : Token) : KP (InBody_endTagForm tok) := ⟨fun st hs => by
  unfold InBody_endTagForm
  simp only [Tr_bind, Tr_get, Tr_modify]
  have hs1 : ST { st with formPointer := none } := ST_setForm hs none (fun _ h => nomatch h)
  have hk1 : KPpost st { st with formPointer := none } := ⟨hs1, ⟨rfl, rfl, Ext.refl _⟩, rfl⟩
  refine @Tr_RO _ _ (by split <;> infer_instance) _ _ ?_
  intro bad
  split
  · simp only [Tr_bind, Tr_pure]
    exact Tr_SV_step _ hk1 _ (fun _ _ h _ => h)
  · split
    · simp only [Tr_pure]; exact hk1
    · rename_i node hnode
      obtain ⟨hel, hu⟩ := hs.fp node hnode
      simp only [Tr_bind]
      refine Tr_KP_step _ hk1 _ ?_
      intro _ st2 hk2
      apply Tr_RO; intro _
      have fin : ∀ st3, KPpost st st3 → Tr (openRemove node "InBodyPhase.endTagForm") st3 (fun _ st' => KPpost st st') := by
        intro st3 hk3
        refine Tr_mono (openRemove_kp node _ st3 hk3.1 ?_) ?_
        · intro _
          rw [(IsEl_of_Keep hk3.2.1 hel).2]; exact hu.1
        · intro _ st4 hk4; exact hk3.trans hk4
      split
      · simp only [Tr_bind]
        refine Tr_SV_step _ hk2 _ ?_
        intro _ st3 hk3 _
        exact fin st3 hk3
      · simp only [Tr_bind, Tr_pure]
        exact fin st2 hk2⟩
