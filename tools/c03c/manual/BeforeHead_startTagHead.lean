/-- the token is named `head` -/
def isHeadTok (tok : Token) : Prop := tokName tok = nHead
instance (a s) : Fct (isHeadTok (impliedStart "head" a s)) := ⟨rfl⟩

theorem head_notPN : PN.contains nHead = false := by decide

/-- `BeforeHeadPhase.startTagHead`: the `head` element becomes the current node, the phase `inHead` -/
instance Pz_BeforeHead_startTagHead (tok : Token) [hNs : Fct (NsNone tok)] [hH : Fct (isHeadTok tok)] :
    Pz (BeforeHead_startTagHead tok) := ⟨fun st hs hr => by
  have hnm : notPN tok := by unfold notPN; rw [hH.out]; exact head_notPN
  unfold BeforeHead_startTagHead
  simp only [Tr_bind]
  refine Tr_mono (insertElementTok_pushed tok _ st hs hNs.out hnm) ?_
  rintro x st1 ⟨e, hpu, he, hpe⟩
  simp only [Tr_openLast]
  intro cur hcur
  have hcx : cur = x := by rw [hpu.op] at hcur; simpa using hcur.symm
  subst hcx
  unfold setPhase
  simp only [Tr_modify, Tr_pure]
  have hk : elemK st1.arena cur = (dnsOf st1, nHead) := by
    rw [hpu.k, he, dnsOf_of_cfg hpu.keep.cf, hH.out]
  have hs2 : ST { st1 with headPointer := some cur } := ST_setHead hpu.str cur hpu.el hk
  have hr2 : REG { st1 with headPointer := some cur } := REG_of_F (st := st) hpu.keep.f hr
  refine Inv_setPhase_h hs2 hr2 .inHead (by decide) ⟨(fun h => nomatch h), (fun h => nomatch h), (fun h => nomatch h)⟩
    ?_ (by decide)
  refine ⟨fun _ => ⟨st.openElements, cur, ?_, rfl⟩, (fun h => ?_), (fun h => ?_)⟩
  · show (if some Phase.inHead = some Phase.text then _ else st1.openElements) = _
    rw [if_neg (by decide), hpu.op]
  · have : effP ({ st1 with headPointer := some cur, phase := some Phase.inHead } : PState) = some Phase.inHead := rfl
    rw [this] at h; cases h
  · have : effP ({ st1 with headPointer := some cur, phase := some Phase.inHead } : PState) = some Phase.inHead := rfl
    rw [this] at h; cases h⟩
