/-- a handler that pushes an element and enters the `text` phase, after `head` was pushed back by
`AfterHeadPhase.startTagFromHead` -/
theorem FH_toText_push {st st2 : PState} {old : List NodeId} {h : NodeId} (hp : FHpre st old h) (hs2 : ST st2)
    (hk : Keep st st2) {e : El} (he : e.1 = dnsOf st) (hpe : prot e = false) (hne : e.2 ≠ nHead) {x : NodeId}
    (hkx : elemK st2.arena x = e) (hop : st2.openElements = st.openElements ++ [x])
    (hhd : st2.headPointer = st.headPointer) (hfresh : st.arena.nodes.size ≤ x) :
    FHpost { st2 with originalPhase := st2.phase, phase := some .text } old h := by
  obtain ⟨hs, hr, hph, hop0, hhd0, hn, hne0⟩ := hp
  have hph2 : st2.phase = some .afterHead := by rw [phase_of_F hk.f]; exact hph
  have hr2 : REG st2 := REG_of_F hk.f hr
  have hd : dnsOf st2 = dnsOf st := dnsOf_of_cfg hk.cf
  refine ⟨ST_of_same (st := st2) rfl rfl rfl rfl rfl (Ext.refl _) hs2,
    ⟨⟨by simp, (by show st2.phase ≠ _; rw [hph2]; decide), hr2.ph.2.2⟩, fun _ => (by show NTp st2.phase; rw [hph2]; decide), by simp⟩,
    by rw [← hhd0]; exact hhd, hn, hne0, Or.inr ⟨rfl, hph2, x, ?_, ?_, ?_⟩⟩
  · show st2.openElements = _
    rw [hop, hop0]; simp
  · show txtOK (dnsOf st2) (elemK st2.arena x)
    rw [hkx, hd]; exact ⟨he, hpe, hne⟩
  · intro hx
    have := IsEl_lt (hs.hp h hhd0).1
    rw [← hx] at this
    exact absurd this (Nat.not_lt.2 hfresh)

theorem FH_parseRCDataRawtext (t : Token) (c : String) {st : PState} {old : List NodeId} {h : NodeId}
    (hp : FHpre st old h) (hns : NsNone t) (hpn : notPN t) (hh : notHead t) :
    Tr (parseRCDataRawtext t c) st (fun _ st' => FHpost st' old h) := by
  unfold parseRCDataRawtext
  simp only [Tr_bind]
  apply Tr_RO; intro _
  refine Tr_mono (insertElementTok_pushed t _ st hp.1 hns hpn) ?_
  rintro x st1 ⟨e, hpu, he, hpe⟩
  have fin : ∀ s, Tr (do setTokState s; modify (fun st => { st with originalPhase := st.phase }); setPhase .text : M Unit)
      st1 (fun _ st' => FHpost st' old h) := by
    intro s
    unfold setTokState setPhase
    simp only [Tr_bind, Tr_modify]
    exact FH_toText_push (st2 := { st1 with tokSwitch := some s }) hp
      (ST_of_same (st := st1) rfl rfl rfl rfl rfl (Ext.refl _) hpu.str) ⟨hpu.keep.f, hpu.keep.cf, hpu.keep.ar⟩
      (by rw [he]) hpe (by rw [he]; exact hh) hpu.k hpu.op hpu.hd hpu.fresh
  split
  · have := fin .rawtext; simpa only [Tr_bind] using this
  · have := fin .rcdata; simpa only [Tr_bind] using this

theorem FH_InHead_startTagScript (tok : Token) {st : PState} {old : List NodeId} {h : NodeId}
    (hp : FHpre st old h) (hns : NsNone tok) (hpn : notPN tok) (hh : notHead tok) :
    Tr (InHead_startTagScript tok) st (fun _ st' => FHpost st' old h) := by
  unfold InHead_startTagScript
  simp only [Tr_bind]
  refine Tr_mono (insertElementTok_pushed tok _ st hp.1 hns hpn) ?_
  rintro x st1 ⟨e, hpu, he, hpe⟩
  unfold setTokState setPhase
  simp only [Tr_bind, Tr_modify, Tr_pure]
  exact FH_toText_push (st2 := { st1 with tokSwitch := some .scriptData }) hp
    (ST_of_same (st := st1) rfl rfl rfl rfl rfl (Ext.refl _) hpu.str) ⟨hpu.keep.f, hpu.keep.cf, hpu.keep.ar⟩
    (by rw [he]) hpe (by rw [he]; exact hh) hpu.k hpu.op hpu.hd hpu.fresh

theorem FH_InHead_startTagTitle (tok : Token) {st : PState} {old : List NodeId} {h : NodeId}
    (hp : FHpre st old h) (hns : NsNone tok) (hpn : notPN tok) (hh : notHead tok) :
    Tr (InHead_startTagTitle tok) st (fun _ st' => FHpost st' old h) := by
  unfold InHead_startTagTitle
  simp only [Tr_bind, Tr_pure]
  exact FH_parseRCDataRawtext tok _ hp hns hpn hh

theorem FH_InHead_startTagNoFramesStyle (tok : Token) {st : PState} {old : List NodeId} {h : NodeId}
    (hp : FHpre st old h) (hns : NsNone tok) (hpn : notPN tok) (hh : notHead tok) :
    Tr (InHead_startTagNoFramesStyle tok) st (fun _ st' => FHpost st' old h) := by
  unfold InHead_startTagNoFramesStyle
  simp only [Tr_bind, Tr_pure]
  exact FH_parseRCDataRawtext tok _ hp hns hpn hh

theorem FH_InHead_startTagBaseLinkCommand (tok : Token) {st : PState} {old : List NodeId} {h : NodeId}
    (hp : FHpre st old h) : Tr (InHead_startTagBaseLinkCommand tok) st (fun _ st' => FHpost st' old h) :=
  Tr_mono (T_InHead_startTagBaseLinkCommand tok st hp.1.elem) (fun _ _ e => FH_of_Same hp e)

theorem FH_InHead_startTagMeta (tok : Token) {st : PState} {old : List NodeId} {h : NodeId}
    (hp : FHpre st old h) : Tr (InHead_startTagMeta tok) st (fun _ st' => FHpost st' old h) :=
  Tr_mono (T_InHead_startTagMeta tok st hp.1.elem) (fun _ _ e => FH_of_Same hp e)
