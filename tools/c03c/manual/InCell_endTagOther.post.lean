/-! ### the `endTagOther` handlers of the table phases stay in the ordinary phases (for the implied end tags of
`InBodyPhase.startTagListItem` / `startTagOpt`, and for what `InBodyPhase.processEndTag` is asked by them) -/

theorem implied_notPN {tok : Token} (h : isImplied tok) : notPN tok := by
  unfold isImplied at h; unfold notPN
  have key : ∀ nm, impliedNames.contains nm = true → PN.contains nm = false := by
    have h0 : impliedNames.all (fun nm => !PN.contains nm) = true := by decide
    intro nm hn
    have := List.all_eq_true.1 h0 nm (by simpa using hn)
    simpa using this
  exact key _ h

theorem StayNT_InTable_endTagOther {r : Rec} {n : Nat} (hr : RecInv r n) (tok : Token) (hNs : NsNone tok)
    (hNm : notPN tok) (h : needE .inBody tok < n) : Pn (InTable_endTagOther r tok) := by
  haveI := hr.EnBody tok h hNs hNm
  haveI : Fct (NsNone tok) := ⟨hNs⟩
  unfold InTable_endTagOther; pn_auto

theorem StayNT_InCaption_endTagOther {r : Rec} {n : Nat} (hr : RecInv r n) (tok : Token) (hNs : NsNone tok)
    (hNm : notPN tok) (h : needE .inBody tok < n) : Pn (InCaption_endTagOther r tok) := by
  unfold InCaption_endTagOther; exact hr.EnBody tok h hNs hNm

theorem StayNT_InCell_endTagOther {r : Rec} {n : Nat} (hr : RecInv r n) (tok : Token) (hNs : NsNone tok)
    (hNm : notPN tok) (h : needE .inBody tok < n) : Pn (InCell_endTagOther r tok) := by
  unfold InCell_endTagOther; exact hr.EnBody tok h hNs hNm

theorem StayNT_InTableBody_endTagOther {r : Rec} {n : Nat} (hr : RecInv r n) (tok : Token) (hNs : NsNone tok)
    (hI : isImplied tok) (h : needE .inTable tok < n) : Pn (InTableBody_endTagOther r tok) := by
  unfold InTableBody_endTagOther; exact hr.EnTable tok hI h hNs

theorem StayNT_InRow_endTagOther {r : Rec} {n : Nat} (hr : RecInv r n) (tok : Token) (hNs : NsNone tok)
    (hI : isImplied tok) (h : needE .inTable tok < n) : Pn (InRow_endTagOther r tok) := by
  unfold InRow_endTagOther; exact hr.EnTable tok hI h hNs
