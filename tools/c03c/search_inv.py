#!/usr/bin/env python3
"""C03c: adversarial random search on the REAL html5lib for violations of the candidate invariant clauses of
H5.Props.C03c (tested at the start of EVERY round of mainLoop's reprocess loop, through the `debug` log hook) and for
hangs.  Biased towards tables / select / foreign elements that share names with table parts / integration points.
usage: PYTHONPATH=$H5_REPO python search_inv.py SEED N"""
import random, sys, signal
from html5lib import html5parser, treebuilders
from html5lib.constants import namespaces

SEED = sys.argv[1] if len(sys.argv) > 1 else "0"
N = int(sys.argv[2]) if len(sys.argv) > 2 else 20000
rng = random.Random(SEED)
TABLE = ["table", "tbody", "thead", "tfoot", "tr", "td", "th", "caption", "colgroup", "col"]
SEL = ["select", "option", "optgroup", "input", "keygen", "textarea", "script"]
FOREIGN = ["svg", "math", "foreignObject", "desc", "title", "mi", "mtext", "annotation-xml", "mglyph", "malignmark"]
OTHER = ["html", "head", "body", "frameset", "frame", "p", "div", "b", "a", "button", "form", "li", "dd", "h1", "nobr",
         "applet", "marquee", "object", "plaintext", "style", "noscript", "br", "hr", "image", "isindex", "font", "ruby",
         "rt", "pre", "listing", "xmp", "iframe", "noembed", "noframes", "section", "span", "template", "i", "em"]
CONT = [None] * 5 + ["div", "td", "th", "tr", "tbody", "thead", "table", "select", "html", "head", "body", "caption",
                     "colgroup", "svg", "math", "title", "textarea", "script", "frameset", "option", "optgroup",
                     "foreignObject", "desc", "mi", "annotation-xml", "p", "li", "button", "object", "tfoot"]
H = namespaces["html"]


class Hit(Exception):
    pass


def in_scope(t, name, variant):
    return t.elementInScope(name, variant=variant)


def clauses(p):
    """names of violated clauses"""
    t = p.tree
    ph = type(p.phase).__name__
    bad = []
    frag = bool(p.innerHTML)
    ts = lambda n: in_scope(t, n, "table")
    if ph == "InSelectInTablePhase" and not in_scope(t, "select", "select"):
        bad.append("G1:inSelectInTable-without-select-in-select-scope")
    if ph == "InSelectPhase" and not in_scope(t, "select", "select") and not frag:
        bad.append("sel:inSelect-without-select(non-fragment)")
    if ph == "InCellPhase":
        cell = ts("td") or ts("th")
        if not cell and any(ts(n) for n in ("table", "tbody", "tfoot", "thead", "tr")):
            bad.append("G2:inCell-stuck-precondition")
        if not cell and not frag:
            bad.append("cell:inCell-without-cell(non-fragment)")
    if ph == "InRowPhase":
        if not ts("tr") and any(ts(n) for n in ("tbody", "tfoot", "thead")):
            bad.append("G5:inRow-stuck-precondition")
        if not ts("tr") and not frag:
            bad.append("row:inRow-without-tr(non-fragment)")
    if ph == "InTableBodyPhase" and not any(ts(n) for n in ("tbody", "tfoot", "thead")) and not frag:
        bad.append("tbody:inTableBody-without-group(non-fragment)")
    if ph == "InCaptionPhase" and not ts("caption") and not frag:
        bad.append("caption:inCaption-without-caption(non-fragment)")
    if ph in ("InTablePhase", "InTableBodyPhase", "InRowPhase", "InCellPhase", "InCaptionPhase", "InColumnGroupPhase",
              "InTableTextPhase") and not ts("table") and not frag:
        bad.append("table:%s-without-table(non-fragment)" % ph)
    if ph == "InTableTextPhase":
        o = type(p.phase.originalPhase).__name__
        if o == "InTableTextPhase":
            bad.append("G3:inTableText-originalPhase-itself")
        if o not in ("InTablePhase", "InTableBodyPhase", "InRowPhase"):
            bad.append("tt:inTableText-originalPhase=%s" % o)
    if ph == "TextPhase":
        o = type(p.originalPhase).__name__
        if o == "TextPhase":
            bad.append("text:originalPhase-is-text")
    if ph == "InForeignContentPhase":
        bad.append("G4:phase-register-inForeignContent")
    # structure of the stack: html-namespace table parts sit on their parents
    oe = t.openElements
    for i, n in enumerate(oe):
        if i == 0 or n.namespace != H and n.namespace is not None:
            continue
        below = oe[i - 1]
        bn = (below.namespace, below.name)
        root = (i - 1 == 0)
        if n.name == "tr" and not (bn[1] in ("tbody", "thead", "tfoot") and bn[0] in (H, None)) and not root:
            bad.append("struct:tr-not-on-group")
        if n.name in ("tbody", "thead", "tfoot") and not (bn[1] == "table" and bn[0] in (H, None)) and not root:
            bad.append("struct:group-not-on-table")
        if n.name in ("td", "th") and not (bn[1] == "tr" and bn[0] in (H, None)) and not root:
            bad.append("struct:cell-not-on-tr")
        if n.name == "caption" and not (bn[1] == "table" and bn[0] in (H, None)) and not root:
            bad.append("struct:caption-not-on-table")
    if len(set(map(id, oe))) != len(oe):
        bad.append("dup:node-twice-on-the-stack")
    if ph == "AfterHeadPhase" and t.headPointer is not None and any(n is t.headPointer for n in oe):
        bad.append("hd:headPointer-on-stack-in-afterHead")
    if ph == "AfterHeadPhase" and len(oe) != 1:
        bad.append("shape:afterHead-stack-not-singleton")
    if ph == "InHeadPhase" and not (len(oe) == 2 and oe[1] is t.headPointer) and not frag:
        bad.append("shape:inHead-stack-not-[html,head](non-fragment)")
    return bad


class Log(list):
    def __init__(self, p):
        self.p = p

    def append(self, x):
        if self.p.tree.openElements:
            b = clauses(self.p)
            if b:
                raise Hit(b)


class P(html5parser.HTMLParser):
    """`self.log` is replaced by the checker (reset() assigns a fresh list on every parse)"""
    @property
    def log(self):
        return self._chk

    @log.setter
    def log(self, v):
        self._chk = Log(self)


def gen():
    n = rng.randint(1, 18)
    out = []
    for _ in range(n):
        r = rng.random()
        pool = rng.choice([TABLE, TABLE, SEL, FOREIGN, OTHER, TABLE + FOREIGN])
        t = rng.choice(pool)
        if r < 0.6:
            out.append("<%s%s>" % (t, rng.choice(["", "", " type=hidden", " encoding=text/html", "/", " color=x"])))
        elif r < 0.9:
            out.append("</%s>" % t)
        elif r < 0.96:
            out.append(rng.choice(["x", " ", "\n", "&amp;", "\0", "x y"]))
        else:
            out.append("<!--c-->")
    return "".join(out)


def alarm(*a):
    raise TimeoutError()


signal.signal(signal.SIGALRM, alarm)
hits, hangs, count = {}, [], 0
for i in range(N):
    s = gen()
    c = rng.choice(CONT)
    p = P(tree=treebuilders.getTreeBuilder("dom"))
    p.debug = True
    signal.alarm(4)
    try:
        if c is None:
            p.parse(s)
        else:
            p.parseFragment(s, container=c)
    except Hit as h:
        for k in h.args[0]:
            if k not in hits or len(s) < len(hits[k][0]):
                hits[k] = (s, c)
    except TimeoutError:
        hangs.append((s, c))
    except Exception:
        pass
    signal.alarm(0)
print("cases", N, "seed", SEED)
for k in sorted(hits):
    print("  VIOLATED", k, "witness", repr(hits[k]))
print("  hangs", hangs[:5])
