#!/usr/bin/env python3
"""Generates lean/H5/Props/C03cRet.lean: every handler returns `None` or the token it was given (so the token that the
reprocess loop of `mainLoop` hands on is the one the tokenizer made).  Hand-written proofs: tools/c03c/manual_ret/."""
import re, os
HERE = os.path.dirname(os.path.abspath(__file__))
ROOT = os.path.join(HERE, '..', '..', 'lean', 'H5', '')
out = open(os.path.join(HERE, 'ret_header.lean')).read()
n = 0
for src in ('Phases1', 'InBody', 'Tables', 'Rest'):
    text = open(ROOT + 'Model/TreeBuilder/' + src + '.lean').read()
    for chunk in re.split(r'^(?=def |partial def |private def )', text, flags=re.M):
        m = re.match(r'def (\w+)(.*?):=', chunk, re.S)
        if not m:
            continue
        name, sig = m.group(1), ' '.join(m.group(2).split())
        if not sig.endswith(': M (Option Token)'):
            continue
        man = os.path.join(HERE, 'manual_ret', name + '.lean')
        if os.path.exists(man):
            out += open(man).read().rstrip() + '\n\n'
            n += 1
            continue
        if '(tok : Token)' not in sig and '(_tok : Token)' not in sig:
            print('no tok:', name, sig)
            continue
        bs = re.findall(r'\((\w+) : ([^()]+)\)', sig[:sig.rfind(': M')])
        args = ' '.join(f'({a.lstrip("_")} : {t})' for a, t in bs)
        call = ' '.join(a.lstrip('_') for a, _ in bs)
        rinst = ' [hr : RecRT r]' if ('r', 'Rec') in bs else ''
        out += f'instance RT_{name} {args}{rinst} : RT tok ({name} {call}) := by\n  unfold {name}; rt_auto\n\n'
        n += 1
out += open(os.path.join(HERE, 'ret_footer.lean')).read()
open(ROOT + 'Props/C03cRet.lean', 'w').write(out)
print(n)
