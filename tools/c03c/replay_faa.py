#!/usr/bin/env python3
"""Finding F-AA (C03c), replayed on the REAL html5lib (PYTHONPATH=<repo>): the invariant clause "a `tr` sits directly on
a `tbody`/`thead`/`tfoot`, those directly on a `table`, a cell directly on a `tr`" is FALSE in reachable states.  The
adoption agency looks for the formatting element by NAME (`elementInScope(formattingElement.name)`), and `</td>` pops
to the nearest element NAMED td — here an SVG `td` — so a clone of `<b>` ends up between table parts.
Prints the stack of open elements and the phase after each input."""
from html5lib import html5parser, treebuilders


def stack_before_eof(doc):
    p = html5parser.HTMLParser(tree=treebuilders.getTreeBuilder("etree"))
    seen = {}
    orig = p.mainLoop

    def patched():
        # run the token loop only (no EOF processing): copy of mainLoop's first half via the tokenizer
        for token in p.tokenizer:
            prev = None
            new_token = token
            while new_token is not None:
                prev = new_token
                currentNode = p.tree.openElements[-1] if p.tree.openElements else None
                currentNodeNamespace = currentNode.namespace if currentNode else None
                currentNodeName = currentNode.name if currentNode else None
                type = new_token["type"]
                from html5lib.constants import tokenTypes, namespaces
                if type == tokenTypes["ParseError"]:
                    p.parseError(new_token["data"], new_token.get("datavars", {}))
                    new_token = None
                else:
                    if (len(p.tree.openElements) == 0 or currentNodeNamespace == p.tree.defaultNamespace or
                        (p.isMathMLTextIntegrationPoint(currentNode) and
                         ((type == tokenTypes["StartTag"] and token["name"] not in frozenset(["mglyph", "malignmark"])) or
                          type in (tokenTypes["Characters"], tokenTypes["SpaceCharacters"]))) or
                        (currentNodeNamespace == namespaces["mathml"] and currentNodeName == "annotation-xml" and
                         type == tokenTypes["StartTag"] and token["name"] == "svg") or
                        (p.isHTMLIntegrationPoint(currentNode) and
                         type in (tokenTypes["StartTag"], tokenTypes["Characters"], tokenTypes["SpaceCharacters"]))):
                        phase = p.phase
                    else:
                        phase = p.phases["inForeignContent"]
                    if type == tokenTypes["Characters"]:
                        new_token = phase.processCharacters(new_token)
                    elif type == tokenTypes["SpaceCharacters"]:
                        new_token = phase.processSpaceCharacters(new_token)
                    elif type == tokenTypes["StartTag"]:
                        new_token = phase.processStartTag(new_token)
                    elif type == tokenTypes["EndTag"]:
                        new_token = phase.processEndTag(new_token)
                    elif type == tokenTypes["Comment"]:
                        new_token = phase.processComment(new_token)
                    elif type == tokenTypes["Doctype"]:
                        new_token = phase.processDoctype(new_token)
        seen["stack"] = [(e.name, "svg" if e.namespace and e.namespace.endswith("svg") else "html") for e in p.tree.openElements]
        seen["phase"] = type_name(p.phase)
    p.mainLoop = patched
    p.parse(doc)
    return seen


def type_name(ph):
    return ph.__class__.__name__


for k in (5, 6, 7):
    doc = "<b>" + "<div>" * k + "<table><tr><td><b><svg><td><desc><p></td></b>"
    r = stack_before_eof(doc)
    names = [n if ns == "html" else "svg:" + n for n, ns in r["stack"]]
    print("k=%d" % k, r["phase"], " ".join(names))
r = stack_before_eof("<b><table><tr><td><b><svg><td><desc><p></td>")
print("cell left open:", r["phase"], " ".join(n if ns == "html" else "svg:" + n for n, ns in r["stack"]))
