# handlers whose class / tactic is not the default one; NONAME: push their token's element but need no name hypothesis
# (protected pushes proved by hand); NEEDNAME: need the name hypothesis for another reason
CLS = {
    # enter the text phase
    'InBody_startTagIFrame': 'Pk', 'InBody_startTagNoscript': 'Pk', 'InBody_startTagRawtext': 'Pk',
    'InBody_startTagXmp': 'Pk',
    'InBody_startTagOpt': 'Pn',
    'InTable_clearStackToTableContext': 'KS', 'InTableBody_clearStackToTableBodyContext': 'KS',
    'InRow_clearStackToTableRowContext': 'KS', 'InTable_endTagTable': 'Pu', 'InSelect_endTagSelect': 'Pu', 'InSelect_startTagSelect': 'Pu', 'InSelect_startTagInput': 'Pu',
    'InSelect_startTagScript': 'Pe', 'InFrameset_endTagFrameset': 'Pf',
    'InSelectInTable_processEOF': 'Ph:inSelectInTable', 'InSelectInTable_processCharacters': 'Ph:inSelectInTable',
    'InSelectInTable_endTagOther': 'Ph:inSelectInTable', 'InSelectInTable_startTagTable': 'Ph:inSelectInTable',
    'InSelectInTable_startTagOther': 'Ph:inSelectInTable', 'InSelectInTable_endTagTable': 'Ph:inSelectInTable', 'InCell_closeCell': 'Pu', 'InCell_startTagTableOther': 'Pu', 'InCell_endTagImply': 'Pu',
    'InTableBody_closeRowGroup': 'Pf', 'InTableBody_startTagTableOther': 'Pf', 'InTableBody_endTagTable': 'Pf',
    # pop, then assign the phase register
    'BeforeHtml_insertHtmlElement': 'Pzn',
    # the phases around `head`
    'BeforeHead_processEOF': 'Pk', 'BeforeHead_processCharacters': 'Pk', 'BeforeHead_startTagOther': 'Pk',
    'BeforeHead_endTagImplyHead': 'Pk',
    'InHead_anythingElse': 'Ph:inHead', 'InHead_processEOF': 'Ph:inHead', 'InHead_processCharacters': 'Ph:inHead',
    'InHead_startTagOther': 'Ph:inHead', 'InHead_endTagHtmlBodyBr': 'Ph:inHead',
    'InHeadNoscript_anythingElse': 'Ph:inHeadNoscript', 'InHeadNoscript_processEOF': 'Ph:inHeadNoscript',
    'InHeadNoscript_processCharacters': 'Ph:inHeadNoscript', 'InHeadNoscript_startTagOther': 'Ph:inHeadNoscript',
    'InHeadNoscript_endTagBr': 'Ph:inHeadNoscript',
    'InHeadNoscript_startTagBaseLinkCommand': 'Pe', 'InHeadNoscript_processComment': 'Pu',
    'InHeadNoscript_processSpaceCharacters': 'Pu', 'InHeadNoscript_startTagHtml': 'Pu', 'InHead_startTagHtml': 'Pu',
    'BeforeHead_startTagHtml': 'Pu', 'AfterHead_startTagHtml': 'Pu',
    'InHead_startTagTitle': 'Pe', 'InHead_startTagNoFramesStyle': 'Pe',
    'AfterHead_anythingElse': 'Pzn', 'AfterHead_processEOF': 'Pzn', 'AfterHead_processCharacters': 'Pzn',
    'AfterHead_startTagBody': 'Pzn', 'AfterHead_startTagFrameset': 'Pzn', 'AfterHead_startTagOther': 'Pzn',
    'AfterHead_endTagHtmlBodyBr': 'Pzn',
}
TAC = {
    'InTable_clearStackToTableContext': 'infer_instance', 'InTableBody_clearStackToTableBodyContext': 'infer_instance',
    'InRow_clearStackToTableRowContext': 'infer_instance',
}
NONAME = {'InSelect_startTagOption', 'InSelect_startTagOptgroup', 'InBody_startTagTable', 'InTable_startTagRowGroup', 'InTableBody_startTagTr', 'InRow_startTagTableCell'}
NEEDNAME = {'InTable_endTagOther', 'InCaption_endTagOther', 'InCell_endTagOther'}
FMTNAME = {'InBody_startTagA', 'InBody_startTagFormatting', 'InBody_startTagNobr'}
NOTFMT = {'InBody_endTagBlock', 'InBody_endTagListItem', 'InBody_endTagAppletMarqueeObject'}
NOTIMPL = {'InBody_endTagBlock'}
HTMLNAME = {'InHeadNoscript_startTagHtml', 'InHead_startTagHtml', 'BeforeHead_startTagHtml', 'AfterHead_startTagHtml'}
HEADLEAF = {'AfterFrameset_startTagNoframes', 'AfterAfterFrameset_startTagNoFrames', 'InSelect_startTagScript', 'InHeadNoscript_startTagBaseLinkCommand', 'InBody_startTagProcessInHead', 'InTable_startTagStyleScript'}
