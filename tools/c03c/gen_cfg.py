#!/usr/bin/env python3
"""Generates lean/H5/Props/C03cCfg.lean: every computation of the model keeps `PState.cfg`.
Hand-written proofs: tools/c03c/manual_cfg/<name>.lean."""
import re, os
HERE = os.path.dirname(os.path.abspath(__file__))
ROOT = os.path.join(HERE, '..', '..', 'lean', 'H5', '')

# recursive definitions: (owner definition before which the lemma is emitted, params, instance hypotheses, call,
# [(arg binders, patterns, ih argument or None)])
L = 'List NodeId'
REC = {
 'afeAppendScan': ('(node : NodeId)', '', 'node', [('[], _', None), ('none :: _, _', None), ('some e :: rest, n', 'rest')], '(l : List (Option NodeId)) (n : Nat)'),
 'elementInScopeLoop': ('(isTarget : NodeId → M Bool) (elems : List (Str × Str)) (invert : Bool)', '[hT : ∀ x, KC cf0 (isTarget x)]', 'isTarget elems invert', [('[]', None), ('node :: rest', 'rest')], '(l : List NodeId)'),
 'getTableMisnestedNodePosition.findTable': ('', '', '', [('[]', None), ('e :: rest', 'rest')], '(l : List NodeId)'),
 'generateImpliedEndTagsAux': ('(exclude : Option Str)', '', 'exclude', [('0', None), ('fuel + 1', 'fuel')], '(fuel : Nat)'),
 'reconstructRewind': ('(l : List (Option NodeId))', '', 'l', [('0, entry', None), ('i + 1, entry', 'i')], '(i : Nat) (entry : Option NodeId)'),
 'reconstructLoop': ('', '', '', [('0, _', None), ('fuel + 1, i', 'fuel')], '(fuel : Nat) (i : Nat)'),
 'elementInActiveFormattingElements.loop': ('(name : Str)', '', 'name', [('[]', None), ('none :: _', None), ('some item :: rest', 'rest')], '(l : List (Option NodeId))'),
 'resetInsertionModeLoop': ('(bottom : NodeId)', '', 'bottom', [('[], _', None), ('node :: rest, last', 'rest')], '(l : List NodeId) (last : Bool)'),
 'mergeAttrsInto': ('(idx : Nat) (site : String)', '', 'idx site', [('[]', None), ('(attr, value) :: rest', 'rest')], '(l : List (AttrKey × Str))'),
 'AfterHead_startTagFromHead.loop': ('', '', '', [('[]', None), ('node :: rest', 'rest')], '(l : List NodeId)'),
 'popUntilLoop': ('(pred : NodeId → M Bool) (site : String)', '[hT : ∀ x, KC cf0 (pred x)]', 'pred site', [('0', None), ('fuel + 1', 'fuel')], '(fuel : Nat)'),
 'popWhileLoop': ('(cond : NodeId → M Bool) (each : NodeId → M Unit) (site : String)', '[hT : ∀ x, KC cf0 (cond x)] [hE : ∀ x, KC cf0 (each x)]', 'cond each site', [('0', None), ('fuel + 1', 'fuel')], '(fuel : Nat)'),
 'InBody_addFormattingElement.scan': ('(element : NodeId)', '', 'element', [('[], acc', None), ('none :: _, acc', None), ('some node :: rest, acc', 'rest')], '(l : List (Option NodeId)) (acc : List NodeId)'),
 'InBody_processEOF.loop': ('', '', '', [('[]', None), ('node :: rest', 'rest')], '(l : List NodeId)'),
 'InBody_endTagP_startTagCloseP': ('', '', '', [('0, _, _', None), ('depth + 1, true, tok', 'depth'), ('depth + 1, false, tok', 'depth')], '(depth : Nat) (b : Bool) (tok : Token)'),
 'InBody_startTagListItem.loop': ('(r : Rec) (site : String) (stopNames : List Str)', '[hr : RecKC cf0 r]', 'r site stopNames', [('[]', None), ('node :: rest', 'rest')], '(l : List NodeId)'),
 'InBody_endTagOther.loop': ('(site : String) (d : TagData)', '', 'site d', [('[]', None), ('node :: rest', 'rest')], '(l : List NodeId)'),
 'InBody_endTagBody.loop': ('', '', '', [('[]', None), ('node :: rest', 'rest')], '(l : List NodeId)'),
 'InBody_endTagFormatting_inner': ('(formattingElement furthestBlock : NodeId)', '', 'formattingElement furthestBlock', [('0, s', None), ('n + 1, s', 'n')], '(n : Nat) (s : AAInner)'),
 'InBody_endTagFormatting_outer.findBlock': ('', '', '', [('[]', None), ('e :: rest', 'rest')], '(l : List NodeId)'),
 'InBody_endTagFormatting_outer': ('(tok : Token)', '', 'tok', [('0', None), ('n + 1', 'n')], '(n : Nat)'),
 'InBody_endTagHeading.anyInScope': ('', '', '', [('[]', None), ('item :: rest', 'rest')], '(l : List Str)'),
 'InForeignContent_popTo': ('(node : NodeId)', '', 'node', [('0', None), ('fuel + 1', 'fuel')], '(fuel : Nat)'),
 'InForeignContent_processEndTag_loop': ('(r : Rec) (tok : Token) (name : Str)', '[hr : RecKC cf0 r]', 'r tok name', [('0, _, _', None), ('fuel + 1, i, node', 'fuel')], '(fuel : Nat) (i : Int) (node : NodeId)'),
}
# local definitions are emitted before their owner
OWNER = {'getTableMisnestedNodePosition.findTable': 'getTableMisnestedNodePosition',
         'elementInActiveFormattingElements.loop': 'elementInActiveFormattingElements',
         'AfterHead_startTagFromHead.loop': 'AfterHead_startTagFromHead', 'InBody_addFormattingElement.scan': 'InBody_addFormattingElement',
         'InBody_processEOF.loop': 'InBody_processEOF', 'InBody_startTagListItem.loop': 'InBody_startTagListItem',
         'InBody_endTagOther.loop': 'InBody_endTagOther', 'InBody_endTagBody.loop': 'InBody_endTagBody',
         'InBody_endTagFormatting_outer.findBlock': 'InBody_endTagFormatting_outer',
         'InBody_endTagHeading.anyInScope': 'InBody_endTagHeading'}


def rec_lemma(name):
    params, insts, call, cases, argb = REC[name]
    lname = name.replace('.', '_')
    argn = ' '.join(re.findall(r'\((\w+) :', argb))
    o = f'set_option maxHeartbeats 3200000 in\ntheorem KC_{lname}_aux {{cf0 : Cfg}} {params} {insts} : ∀ {argb}, KC cf0 ({name} {call} {argn})\n'
    for pat, iha in cases:
        ih = f'have ih := KC_{lname}_aux (cf0 := cf0) {call} {iha}; ' if iha else ''
        o += f'  | {pat} => by {ih}unfold {name}; kc_auto\n'
    o += f'instance KC_{lname} {{cf0 : Cfg}} {params} {insts} {argb} : KC cf0 ({name} {call} {argn}) := KC_{lname}_aux {call} {argn}\n\n'
    return o

out = open(os.path.join(HERE, 'cfg_header.lean')).read()
n = 0
skipped = []
for src in ('State', 'Helpers', 'Phases1', 'InBody', 'Tables', 'Rest'):
    text = open(ROOT + 'Model/TreeBuilder/' + src + '.lean').read()
    for chunk in re.split(r'^(?=def |partial def |private def )', text, flags=re.M):
        m0 = re.match(r'def ([\w.]+)', chunk)
        if not m0:
            continue
        # end of the signature: the first `:=` or `\n  |` at parenthesis depth 0
        depth, k, end, kind = 0, m0.end(), None, None
        while k < len(chunk):
            ch = chunk[k]
            if ch in '([{':
                depth += 1
            elif ch in ')]}':
                depth -= 1
            elif depth == 0 and chunk.startswith(':=', k):
                end, kind = k, ':='
                break
            elif depth == 0 and chunk.startswith('\n  |', k):
                end, kind = k, '|'
                break
            k += 1
        if end is None:
            continue
        class _M:
            def __init__(s, a): s.a = a
            def group(s, i): return s.a[i]
        m = _M({1: m0.group(1), 2: chunk[m0.end():end], 3: kind})
        name, sig = m.group(1), ' '.join(m.group(2).split())
        if ': M ' not in sig and '→ M ' not in sig:
            continue
        lname = name.replace('.', '_')
        for loc, own in OWNER.items():
            if own == name:
                out += rec_lemma(loc)
                n += 1
        if name in REC:
            out += rec_lemma(name)
            n += 1
            continue
        man = os.path.join(HERE, 'manual_cfg', lname + '.lean')
        if os.path.exists(man):
            out += open(man).read().rstrip() + '\n\n'
            n += 1
            continue
        if m.group(3) != ':=' or '→' in sig[sig.rfind(': M'):] or name == 'fail':
            skipped.append(name)
            continue
        idx = sig.rfind(': M ')
        bs = []
        pre, k = sig[:idx], 0
        while k < len(pre):
            if pre[k] in '([{':
                op, d, j = pre[k], 1, k + 1
                while d:
                    if pre[j] in '([{':
                        d += 1
                    elif pre[j] in ')]}':
                        d -= 1
                    j += 1
                inner = pre[k + 1:j - 1]
                k = j
                if ':' not in inner.split(':=')[0]:
                    if op == '[':
                        bs.append(('[', '', inner))
                    continue
                names, ty = inner.split(':', 1)
                ty = ty.split(':=')[0].strip()
                for a in names.split():
                    bs.append((op, a.lstrip('_') or 'x', ty))
            else:
                k += 1
        args = ' '.join(('{%s : %s}' % (a, t)) if b == '{' else ('[%s]' % t if b == '[' else '(%s : %s)' % (a, t)) for b, a, t in bs)
        call = ' '.join(a for b, a, t in bs if b == '(')
        rinst = ' [hr : RecKC cf0 r]' if any(a == 'r' and t == 'Rec' for _, a, t in bs) else ''
        finst = ''.join(f' [∀ x, KC cf0 ({a} x)]' for b, a, t in bs if b == '(' and re.match(r'\w+ → M ', t))
        finst += ''.join(f' [KC cf0 {a}]' for b, a, t in bs if b == '(' and re.match(r'M ', t))
        qn = 'TB.orM' if name == 'orM' else name
        out += f'instance KC_{lname} {{cf0 : Cfg}} {args}{rinst}{finst} : KC cf0 ({qn} {call}) := by\n  unfold {qn}; kc_auto\n\n'
        n += 1
out += open(os.path.join(HERE, 'cfg_footer.lean')).read()
open(ROOT + 'Props/C03cCfg.lean', 'w').write(out)
print(n, 'skipped:', skipped)
