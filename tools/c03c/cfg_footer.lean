/-! ### the dispatcher and `mainLoop` -/

theorem KC_dite {cf0 : Cfg} {α : Type} {p : Prop} [Decidable p] (t : p → M α) (e : ¬p → M α)
    (ht : ∀ h, KC cf0 (t h)) (he : ∀ h, KC cf0 (e h)) : KC cf0 (dite p t e) := by
  by_cases hc : p
  · rw [dif_pos hc]; exact ht _
  · rw [dif_neg hc]; exact he _

set_option maxHeartbeats 4000000 in
instance KC_runTagHandler {cf0 : Cfg} (r : Rec) [hr : RecKC cf0 r] (h : String) (tok : Token) :
    KC cf0 (runTagHandler r h tok) := by
  delta runTagHandler
  delta runTagHandler.match_1
  repeat (refine KC_dite _ _ (fun heq => ?_) (fun _ => ?_); (· subst heq; dsimp only [Eq.ndrec_symm]; infer_instance))
  exact KC_throw _

set_option maxHeartbeats 4000000 in
instance KC_runProcessPlain {cf0 : Cfg} (r : Rec) [hr : RecKC cf0 r] (h : String) (tok : Token) :
    KC cf0 (runProcessPlain r h tok) := by
  delta runProcessPlain
  delta runProcessPlain.match_1
  repeat (refine KC_dite _ _ (fun heq => ?_) (fun _ => ?_); (· subst heq; dsimp only [Eq.ndrec_symm]; infer_instance))
  exact KC_throw _

set_option maxHeartbeats 4000000 in
instance KC_runEOF {cf0 : Cfg} (r : Rec) [hr : RecKC cf0 r] (h : String) : KC cf0 (runEOF r h) := by
  delta runEOF
  delta runEOF.match_1
  repeat (refine KC_dite _ _ (fun heq => ?_) (fun _ => ?_); (· subst heq; dsimp only [Eq.ndrec_symm]; infer_instance))
  exact KC_throw _

instance KC_Phase_processStartTag {cf0 : Cfg} (r : Rec) [hr : RecKC cf0 r] (ph : Phase) (tok : Token) :
    KC cf0 (Phase_processStartTag r ph tok) := by
  unfold Phase_processStartTag; kc_auto

instance KC_Phase_processEndTag {cf0 : Cfg} (r : Rec) [hr : RecKC cf0 r] (ph : Phase) (tok : Token) :
    KC cf0 (Phase_processEndTag r ph tok) := by
  unfold Phase_processEndTag; kc_auto

instance KC_runProcess {cf0 : Cfg} (r : Rec) [hr : RecKC cf0 r] (ph : Phase) (m : String) (tok : Token) :
    KC cf0 (runProcess r ph m tok) := by
  unfold runProcess; kc_auto

instance KC_runProcessEOF {cf0 : Cfg} (r : Rec) [hr : RecKC cf0 r] (ph : Phase) : KC cf0 (runProcessEOF r ph) := by
  unfold runProcessEOF; kc_auto

instance mkRec_KC (cf0 : Cfg) : ∀ n, RecKC cf0 (mkRec n)
  | 0 => ⟨fun _ _ => KC_throw _, fun _ _ => KC_throw _, fun _ _ => KC_throw _, fun _ _ => KC_throw _,
    fun _ _ => KC_throw _, fun _ _ => KC_throw _, fun _ => KC_throw _⟩
  | n + 1 =>
    haveI := mkRec_KC cf0 n
    ⟨fun ph tok => KC_runProcess (mkRec n) ph _ tok, fun ph tok => KC_runProcess (mkRec n) ph _ tok,
     fun ph tok => KC_runProcess (mkRec n) ph _ tok, fun ph tok => KC_runProcess (mkRec n) ph _ tok,
     fun ph tok => KC_runProcess (mkRec n) ph _ tok, fun ph tok => KC_runProcess (mkRec n) ph _ tok,
     fun ph => KC_runProcessEOF (mkRec n) ph⟩

instance KC_useCurrentPhase {cf0 : Cfg} (tok : Token) : KC cf0 (useCurrentPhase tok) := by
  unfold useCurrentPhase; kc_auto

theorem KC_reprocessLoop {cf0 : Cfg} (r : Rec) [hr : RecKC cf0 r] : ∀ (fuel : Nat) (tok : Token),
    KC cf0 (reprocessLoop r fuel tok)
  | 0, _ => by unfold reprocessLoop; kc_auto
  | fuel + 1, tok => by have ih := KC_reprocessLoop (cf0 := cf0) r fuel; unfold reprocessLoop; kc_auto

/-- **the configuration is read-only**: handling a token does not change it -/
theorem KC_stepM (cf0 : Cfg) (t : TTok) : KC cf0 (stepM t) := by
  unfold stepM
  refine KC_bind _ _ (KC_modify _ (fun _ => rfl)) ?_
  intro _
  split
  · infer_instance
  · split
    · exact KC_pure _
    · refine KC_get_bind_cfg _ ?_
      intro cfg hcfg
      refine KC_bind _ _ (@KC_reprocessLoop cf0 _ (mkRec_KC cf0 _) _ _) ?_
      intro _
      kc_auto

end H5.Props.C03c
