"""Gen.Dispatch and Gen.ParserLiterals (tree-construction tables), written by the tree-model work package."""
import ast
import os
import sys

from extract import (register, HEADER, FOOTER, lean_str, lean_str_c, strlist, ostr, blocks, setlist, sha, src,
                     TranslationError, REPO)
import pylite



# --------------------------------------------------------------------------------------
# Tree construction: dispatch tables (evaluated) and in-body literals (from the AST)

PROCESS_METHODS = ("processEOF", "processComment", "processDoctype", "processCharacters",
                   "processSpaceCharacters", "processStartTag", "processEndTag")


def lean_string(s):
    """Lean `String` literal (identifiers / ASCII only)"""
    assert all(32 <= ord(c) < 127 and c not in '"\\' for c in s), s
    return '"%s"' % s


def phase_classes():
    """(key, class) for every tree-construction phase, in the order of the parser's own table"""
    from html5lib import html5parser as P
    if hasattr(P, "getPhases"):
        phases = P.getPhases(False)
    else:
        phases = P._phases
    return list(phases.items())


def dispatcher_of(cls, attr):
    """the MethodDispatcher stored under `attr` somewhere in the MRO (None if the class has none)"""
    for k in cls.__mro__:
        if attr in vars(k):
            return vars(k)[attr]
    return None


@register("Dispatch")
def gen_dispatch():
    import inspect
    out = HEADER % "html5lib/html5parser.py (phase classes, evaluated)"
    phases = phase_classes()
    out += "/-- `phases` key ↦ class name -/\n"
    out += "def phaseClasses : List (String × String) := [\n  %s]\n\n" % ",\n  ".join(
        "(%s, %s)" % (lean_string(k), lean_string(c.__name__)) for k, c in phases)
    # which function each process* method resolves to (by MRO); a slot (instance attribute) is "<slot>"
    rows = []
    for k, c in phases:
        ms = []
        for m in PROCESS_METHODS:
            f = inspect.getattr_static(c, m, None)
            if f is None:
                q = "<missing>"
            elif inspect.isfunction(f):
                q = f.__qualname__
            else:
                q = "%s.<slot>" % c.__name__
            ms.append("(%s, %s)" % (lean_string(m), lean_string(q)))
        rows.append("(%s, [%s])" % (lean_string(c.__name__), ", ".join(ms)))
    out += "/-- class ↦ process method ↦ qualified name of the function it resolves to -/\n"
    out += "def processMethods : List (String × List (String × String)) := [\n  %s]\n\n" % ",\n  ".join(rows)
    for attr in ("startTagHandler", "endTagHandler"):
        rows = []
        for k, c in phases:
            d = dispatcher_of(c, attr)
            if d is None:
                continue
            items = ", ".join("(%s, %s)" % (lean_str_c(t), lean_string(f.__qualname__)) for t, f in dict.items(d))
            default = "none" if d.default is None else "(some %s)" % lean_string(d.default.__qualname__)
            rows.append("(%s, ([%s], %s))" % (lean_string(c.__name__), items, default))
        out += "/-- class ↦ (tag name ↦ handler, default handler) -/\n"
        out += "def %ss : List (String × (List (Str × String) × Option String)) := [\n  %s]\n\n" % (
            attr, ",\n  ".join(rows))
    return out + FOOTER


def _const_str(n):
    return isinstance(n, ast.Constant) and isinstance(n.value, str)


def _literal_value(n):
    """python value of a pure string-collection literal node, else None.
    tuple/list/set of str -> list[str]; dict str->str or str->list[str] -> list of pairs;
    frozenset(<collection>) -> list[str]"""
    if isinstance(n, (ast.Tuple, ast.List, ast.Set)) and n.elts and all(_const_str(e) for e in n.elts):
        return ("strs", [e.value for e in n.elts])
    if isinstance(n, ast.Dict) and n.keys and all(k is not None and _const_str(k) for k in n.keys):
        if all(_const_str(v) for v in n.values):
            return ("dict", [(k.value, v.value) for k, v in zip(n.keys, n.values)])
        if all(isinstance(v, (ast.List, ast.Tuple)) and all(_const_str(e) for e in v.elts) for v in n.values):
            return ("dictl", [(k.value, [e.value for e in v.elts]) for k, v in zip(n.keys, n.values)])
    return None


def function_literals(fn):
    """string-collection literals of a function body in source order (outermost only)"""
    found = []

    def visit(n):
        v = _literal_value(n)
        if v is not None:
            found.append((n.lineno, n.col_offset, v))
            return
        for c in ast.iter_child_nodes(n):
            visit(c)
    for stmt in fn.body:
        visit(stmt)
    found.sort(key=lambda t: (t[0], t[1]))
    return found


def emit_literal(name, line, v):
    kind, val = v
    if kind == "strs":
        return "/-- line %d -/\ndef %s : List Str := %s\n" % (line, name, strlist(val))
    if kind == "dict":
        return "/-- line %d -/\ndef %s : List (Str × Str) := [\n  %s]\n" % (
            line, name, ",\n  ".join("(%s, %s)" % (lean_str_c(k), lean_str_c(x)) for k, x in val))
    return "/-- line %d -/\ndef %s : List (Str × List Str) := [\n  %s]\n" % (
        line, name, ",\n  ".join("(%s, [%s])" % (lean_str_c(k), ", ".join(lean_str_c(x) for x in xs)) for k, xs in val))


@register("ParserLiterals")
def gen_parser_literals():
    """Every tuple/list/set/dict literal made only of strings that occurs inside a function body of
    html5parser.py / treebuilders/base.py, named <Class>_<function>_<ordinal in source order>
    (module-level functions: <function>_<ordinal>).  Plus evaluated class/module-level tables."""
    out = "-- GENERATED by tools/extract.py from html5lib/html5parser.py, html5lib/treebuilders/base.py (AST + evaluated) -- do not edit\n"
    out += "import H5.Basic\nnamespace H5.Gen.Lit\nopen H5\n\n"
    for rel, prefix in (("html5lib/html5parser.py", ""), ("html5lib/treebuilders/base.py", "TB_")):
        tree = ast.parse(src(rel))
        out += "-- ===== %s =====\n" % rel
        for top in tree.body:
            fns = []
            if isinstance(top, ast.FunctionDef):
                fns.append((top.name, top))
            elif isinstance(top, ast.ClassDef):
                for it in top.body:
                    if isinstance(it, ast.FunctionDef):
                        fns.append(("%s_%s" % (top.name, it.name), it))
            for qn, fn in fns:
                for k, (line, _col, v) in enumerate(function_literals(fn)):
                    out += emit_literal("%s%s_%d" % (prefix, qn.replace("__", "U"), k), line, v) + "\n"
        out += "-- fingerprint %s %s\n\n" % (rel, sha(ast.dump(tree)))
    # evaluated tables
    from html5lib import html5parser as P
    from html5lib.treebuilders import base as B
    phases = dict(phase_classes())
    out += "/-- InForeignContentPhase.breakoutElements (evaluated) -/\n"
    out += "def breakoutElements : List Str := %s\n\n" % setlist(phases["inForeignContent"].breakoutElements)
    rows = []
    for variant, (elems, invert) in B.listElementsMap.items():
        rows.append("(%s, ([%s], %s))" % (
            ostr(variant), ", ".join("(%s, %s)" % (lean_str_c(a), lean_str_c(b)) for a, b in sorted(elems)),
            "true" if invert else "false"))
    out += "/-- treebuilders.base.listElementsMap (evaluated): variant ↦ (name tuples, invert) -/\n"
    out += "def listElementsMap : List (Option Str × (List (Str × Str) × Bool)) := [\n  %s]\n\n" % ",\n  ".join(rows)
    out += "/-- treebuilders.base.Marker is None -/\ndef markerIsNone : Bool := %s\n" % ("true" if B.Marker is None else "false")
    from html5lib import treebuilders
    tbcls = treebuilders.getTreeBuilder("dom")
    for flag in (True, False):
        out += "/-- TreeBuilder(namespaceHTMLElements=%s).defaultNamespace (evaluated on the dom builder) -/\n" % flag
        out += "def defaultNamespace%s : Option Str := %s\n" % (flag, ostr(tbcls(flag).defaultNamespace))
    import inspect
    sig = inspect.signature(P.impliedTagToken)
    out += "/-- default `type` argument of impliedTagToken -/\ndef impliedTagTokenDefaultType : Str := %s\n" % lean_str_c(
        sig.parameters["type"].default)
    out += "/-- HTMLParser.parseError default errorcode -/\ndef parseErrorDefaultCode : Str := %s\n" % lean_str_c(
        inspect.signature(P.HTMLParser.parseError).parameters["errorcode"].default)
    return out + "\nend H5.Gen.Lit\n"


