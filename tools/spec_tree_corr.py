#!/venv/bin/python
"""Differential test: tree-construction SPEC (H5.Spec.TreeConstruction, written from the WHATWG standard)
against the MODEL of html5lib's tree builder (H5.Model.TreeBuilder), on the token sequences the REAL
html5lib parser consumed.

  PYTHONPATH=/repo /venv/bin/python tools/spec_tree_corr.py SEED COUNT [--jobs N] [--no-exh] [--out f.json]
                                                           [--one TEXT [--container c] [--scripting]]

For every generated case (generators of tools/tree_corr.py + tools/props/_tree.py `targeted` + EXTRA below)
the real parser (dom builder) is run, the exact token sequence it consumed is sent to the driver op
`treecmp` (model and spec in one process, namespaceHTMLElements = true).  Every difference is SHRUNK to a
1-minimal input (delta debugging on the HTML text, the real parser re-run for every candidate), the
minimal witness is CLASSIFIED with a stable label computed from its tokens, and a table
class / count / minimal witness / model tree / spec tree is printed.
"""
import argparse
import itertools
import json
import os
import random
import re
import subprocess
import sys
import time
from multiprocessing import Pool

HERE = os.path.dirname(os.path.abspath(__file__))
sys.path.insert(0, HERE)
sys.path.insert(0, os.path.join(HERE, "props"))
import tree_corr as T          # noqa: E402
from h5 import lean as L       # noqa: E402
from h5.wire import enc_ostr, enc_bool, enc_list  # noqa: E402

TOK = T.TOK

# ------------------------------------------------------------------------------------------------
# extra inputs aimed at the places where the standard (mid-2020) and html5lib are known / suspected to differ

EXTRA = [
    "<template>x</template>y", "<template><td>x</template>", "<table><template><tr><td>x</template></table>",
    "<template><template></template>x", "<select><template>x</template>", "<head><template><p>", "<body><template>",
    "<template></template><frameset>", "<template><frame>", "<div><template><b>x</div>y",
    "<b><main>x</b>y", "<b><summary>x</b>y", "<b><figcaption>x</b>y", "<b><hgroup>x</b>y", "<b><details>x</b>y",
    "<b><source>x</b>y", "<b><track>x</b>y", "<b><template>x</b>y", "<b><figure>x</b>y", "<b><keygen>x</b>y",
    "<b><menuitem>x</b>y", "<b><command>x</b>y", "<b><dialog>x</b>y", "<b><search>x</b>y", "<b><article>x</b>y",
    "<li><main><li>", "<li><summary><li>", "<dd><figcaption><dt>", "<main></foo>", "<summary><x></summary>",
    "<p><dialog>x", "<p><search>x", "<dialog><p></dialog>x", "<p><main>", "<p><summary>", "<p><figcaption>",
    "<p><hgroup>", "<p><details>", "<p><menu>", "<p><dir>", "<p><nav>", "<p><section>", "<p><fieldset>",
    "<command>x", "<head><command>x", "<p><command>x</p>", "</head><command>", "<menuitem>x<menuitem>y",
    "<p><menuitem>x</p>y", "<li><menuitem><li>", "<isindex>", "<isindex prompt=a action=b c=d>", "<form><isindex>",
    "<p><isindex>x", "<table><isindex>", "<select><isindex>", "<svg><isindex>",
    "<ruby>a<rb>b<rt>c<rtc>d<rp>e</ruby>", "<ruby><rb><rb>", "<ruby><rtc><rt><rb>", "<ruby><rt><rtc>", "<ruby><rtc><rp>",
    "<ruby><rb><rt>", "<ruby><rb><rtc>", "<ruby><rp><rb>", "<div><rb></div>", "<ruby><rb></ruby>x", "<ruby><rtc></ruby>x",
    "<ruby><span><rtc>", "<ruby><rtc><span><rt>",
    "<frameset>x y</frameset>z", "<frameset></frameset>x y", "<frameset></frameset></html>x y", "<frameset> \x00x",
    "<svg>\x00</svg>", "<math>a\x00b", "<svg><foreignObject>\x00x", "<svg><desc>\x00", "<select>\x00x", "<table>\x00x",
    "<table>a\x00b", "\x00", "<p>\x00x", "<head>\x00", "<title>\x00</title>", "<frameset>\x00",
    "<svg xml:base=a xml:lang=b xml:space=c>", "<svg xlink:actuate=a xlink:arcrole=b xlink:role=c xlink:show=d xlink:type=e>",
    "<math xml:base=q>", "<svg contentscripttype=a contentstyletype=b externalresourcesrequired=c filterres=d>",
    "<svg><fedropshadow><fespotlight><altglyph>", "<svg xmlns=x xmlns:xlink=y xmlns:foo=z>",
    "<svg><p>", "<svg><font color=a>", "<svg><font>", "<math><mi><p>", "<svg></p>", "<svg></br>", "<math></p>x",
    "<svg><b>x", "<svg><span>", "<svg><sub>", "<svg><ruby>", "<svg><var>",
    "<math><annotation-xml encoding=TeXt/Html><p>", "<math><annotation-xml><svg>", "<math><mi><mglyph><p>",
    "<svg><script/>x", "<svg><script>x</script>y", "<svg><title><p>", "<math><mtext><malignmark><b>",
    "<select><hr>", "<select><option><hr>", "<select><keygen>", "<select><p>x", "<select><b>x</select>",
    "<table><select><tr>", "<table><td><select></td>x", "<select><svg>", "<select><math>", "<select><script>x</script>",
    "<button><button>", "<a><button><a>", "<p><button><p></button>", "<button><div></button>x",
    "<h1><h2>", "<h1><div><h2>", "<nobr><nobr>", "<a><a>", "<a><table><a>", "<table><a><a>",
    "<form><form>", "<form><div></form>x", "<form><table><form>", "<table><form><form>", "<div><form></div></form>x",
    "<table><input type=hidden>", "<table><input type=HIDDEN><input type=text>", "<table><input type=' hidden'>",
    "<input type=hidden><frameset>", "<input><frameset>", "<br><frameset>", "x<frameset>", " <frameset>",
    "<p><frameset>", "<div><frameset>", "<object><frameset>", "<pre><frameset>", "<li><frameset>", "<button><frameset>",
    "<area><frameset>", "<embed><frameset>", "<select><frameset>", "<hr><frameset>", "<table><frameset>",
    "<textarea></textarea><frameset>", "<xmp></xmp><frameset>", "<iframe></iframe><frameset>", "<dd><frameset>",
    "<noembed></noembed><frameset>", "<plaintext>", "<applet><frameset>", "<svg><frameset>", "<math>x</math><frameset>",
    "<param><frameset>", "<source><frameset>", "<track><frameset>", "<keygen><frameset>", "<wbr><frameset>",
    "<img><frameset>", "<image><frameset>", "<listing><frameset>", "<marquee><frameset>",
    "<!DOCTYPE html><p><table>", "<p><table>", "<!DOCTYPE html PUBLIC \"-//W3C//DTD HTML 4.01 Transitional//EN\"><p><table>",
    "<!DOCTYPE html PUBLIC \"-//W3C//DTD XHTML 1.0 Transitional//EN\"><p><table>", "<!DOCTYPE html SYSTEM \"x\"><p><table>",
    "<!DOCTYPE foo><p><table>", "<!DOCTYPE html PUBLIC \"-//W3C//DTD HTML 4.01 Frameset//EN\" \"\"><p><table>",
    "<!DOCTYPE html PUBLIC \"html\"><p><table>", "<!DOCTYPE html PUBLIC \"-//IETF//DTD HTML//EN\"><p><table>",
    "<!DOCTYPE html PUBLIC \"-//W3C//DTD HTML 3.2 Final//EN\"><p><table>", "<!DOCTYPE html><!DOCTYPE foo><p><table>",
    "</br>", "</p>", "<table></br>", "<head></br>", "</body></br>", "<select></br>", "<frameset></br>",
    "<head><noscript><br>", "<head><noscript></br>", "<head><noscript><p>", "<head><noscript><!--c--></noscript>",
    "<head><noscript><noscript>", "<head><noscript><head>", "<head><noscript>x", "<head><noscript> ",
    "<html><head></head><head>", "</head></head>", "</head><head>", "</head><title>x</title>y", "</head><script></script>",
    "</head><base><meta><link><style></style>x", "</body><!--c-->", "</html><!--c-->", "</body>x", "</html>x",
    "</body> ", "</html> ", "</html></html>", "</body></body>", "</body><html a=b>", "</html><html a=b>",
    "<body></body></html><p>", "<frameset></frameset></html><noframes>x</noframes>", "<frameset></frameset><noframes>",
    "<frameset><frame><frameset></frameset></frameset>x", "<frameset></frameset></html><p>",
    "<pre>\n\nx", "<textarea>\n\nx", "<listing>\nx", "<pre>\n<b>\n", "<pre><!--c-->\n", "<div><pre>\n</pre>\n",
    "<table><caption><table>", "<table><caption></table>x", "<table><caption><td>", "<table><caption></body></caption>",
    "<table><colgroup><col><td>", "<table><colgroup>x", "<table><colgroup> x", "<table><colgroup></col>", "<table><col>",
    "<table><colgroup><template>", "<table><tbody></table>", "<table><tr></tbody>", "<table><tr></thead>x",
    "<table><td></tr>x", "<table><td></table>x", "<table><td></tbody>", "<table><td><td>", "<table><td></th>",
    "<table><th></td>x", "<table>x<td>y</td>z", "<table> <td>", "<table>x y<b>z</b>", "<table><b>x</b>y<tr>",
    "<table><p>x</table>", "<table><tr><p>", "<table><tbody>x", "<table><tr>x", "<table><td>x<tr>y",
    "<table></table></table>", "<table><table>", "<table><tr><table>", "<table><td><table></td>",
    "<table><style>x</style>y", "<table><script>x</script>y", "<table><title>x</title>y", "<table><textarea>x</textarea>y",
    "<a><p></a>x", "<b><p></b>x</p>y", "<b><i><p></b>x", "<a><div><div><div></a>x", "<i><b><div></i>x</div>y",
    "<b><button></b>x", "<b><object></b>x", "<b><table><td></b>x", "<b><svg><desc></b>x", "<b><math><mi></b>x",
    "<b><svg><p></b>x", "<font><p></font>x", "<nobr><p></nobr>x<nobr>", "<b id=1><b id=1><b id=1><b id=1><p>x",
    "<applet><b></applet>x", "<marquee><b></marquee>x", "<object><b></object>x", "<td><b></td>", "<caption><b>",
    "<option><optgroup>", "<optgroup><option><optgroup>", "<select><option><optgroup><option></optgroup>x",
    "<option>x<option>y", "<p><option><p>", "<option><div><option>", "<optgroup><optgroup>", "<option></p>",
    "<li><ul><li></li>x", "<li><div><li>", "<li><p><li>", "<li><address><li>", "<li><span><li>", "<li><b><li>",
    "<dd><dt><dd>", "<dd><div><dt>", "<dd><ul><dt>", "<li><button><li>", "<li><svg><li>", "<li><table><li>",
    "<ul><li></ul></li>x", "<ol><li></li></ol></li>", "<li></ol>", "<dd></dl></dd>",
    "<body><body a=1>", "<p><body a=1>", "<html a=1><html a=2 b=3>", "<head><html c=1>", "<table><html d=1>",
    "<table><body a=b>", "<select><html a=b>", "<frameset><html a=b>", "</html><html a=b>",
    "<xmp><b>", "<p><xmp>x</xmp>", "<b><xmp></xmp>x", "<iframe>x</iframe>y", "<noembed>x</noembed>y", "<noframes>x</noframes>y",
    "<noscript>x</noscript>y", "<noscript><p>x</noscript>y", "<head><noscript><link></noscript>x", "<textarea><p>",
    "<title><p>", "<style><p>", "<script><p>", "<plaintext><p></plaintext>", "<table><plaintext>x", "<select><plaintext>",
    "<p><hr>", "<p><pre>", "<p><listing>", "<p><form>", "<p><plaintext>", "<p><table>", "<p><ul>", "<p><h1>", "<p><li>",
    "<p><dd>", "<p><address>", "<p><blockquote>", "<p><center>", "<p><xmp>", "<p><div>", "<p><p>", "<p><span><p>",
    "<p><button><p>", "<p><object><p>", "<p><table><p>", "<p><svg><p>", "<p><svg><foreignObject><p>",
    "<p><math><mi><p>", "<p><math><annotation-xml><p>", "<p><marquee></p>", "<p><applet></p>x",
    "<image>", "<image src=a/>", "<svg><image>", "<table><image>", "<select><image>",
    "<math definitionurl=a>", "<svg definitionurl=a viewbox=b>", "<math viewbox=a>", "<math><mi definitionurl=a>",
    "<svg><foreignObject><svg viewbox=a>", "<svg><desc><math definitionurl=a>",
    "<math><annotation-xml encoding=text/html><svg viewbox=a>", "<svg></svg>x", "<svg/>x", "<math/>x", "<svg><g/>x",
    "<svg><g></svg>x", "<svg><g></G>", "<svg><foreignObject></foreignobject>x", "<svg><foreignObject></foreignObject>x",
    "<svg><foreignObject><p></svg>x", "<svg><desc></svg>x", "<svg><desc><b></svg>x", "<svg><desc></desc>x",
    "<svg><title>x</title>y", "<svg><textarea>x</textarea>", "<svg><style>x</style>", "<svg><![CDATA[x]]>y",
    "<div><![CDATA[x]]>y", "<math><![CDATA[x]]>", "<svg><foreignObject><![CDATA[x]]>",
]
EXTRA_FRAG = [
    ("<form>x</form>y", "form"), ("<p><form>x", "form"), ("x</form>y", "form"), ("<div><form>", "div"),
    ("<p>", "svg"), ("<svg><p>", "div"), ("<svg><b>x", "td"), ("<math><p>", "div"), ("<svg><font color=a>", "div"),
    ("<svg><table>", "table"), ("x", "template"), ("<td>x", "template"), ("<tr><td>", "template"), ("<col>", "template"),
    ("<template>x", "div"), ("</template>x", "template"), ("<caption>", "template"), ("<frameset>", "template"),
    ("<td>x</td>", "tr"), ("<tr>", "tbody"), ("<tr>", "table"), ("x<td>", "table"), ("<caption>x", "table"),
    ("<col>", "colgroup"), ("x", "colgroup"), ("</colgroup>x", "colgroup"), ("<option>x", "select"),
    ("</select>x", "select"), ("<input>", "select"), ("<select>", "select"), ("<tr>", "select"), ("<p>x", "select"),
    ("<body a=b>x", "html"), ("<head>x", "html"), ("<frameset><frame>", "html"), ("x", "html"), (" <!--c-->", "html"),
    ("</html>x", "html"), ("</body>x", "html"), ("</body>x", "body"), ("</html>x", "div"), ("</body></html>x", "div"),
    ("<frame>", "frameset"), ("</frameset>x", "frameset"), ("<frameset>", "frameset"), ("x y", "frameset"),
    ("<body><p>", "div"), ("<html a=b>", "div"), ("<head>x", "div"), ("<td>x", "div"), ("<tr><td>", "div"),
    ("<p>x</b>", "title"), ("<p>x</b>", "textarea"), ("<p>x", "script"), ("<p>x", "style"), ("<p>x", "xmp"),
    ("<p>x", "iframe"), ("<p>x", "noembed"), ("<p>x", "noframes"), ("<p>x", "noscript"), ("<p>x", "plaintext"),
    ("<td>x", "td"), ("<td>x", "th"), ("</td>x", "td"), ("<tr>x", "td"), ("</table>x", "td"), ("<caption>x", "caption"),
    ("</caption>x", "caption"), ("<td>", "caption"), ("</table>x", "caption"), ("x", "head"), ("<title>x</title>y", "head"),
    ("</head>x", "head"), ("<body>", "head"), ("<p>x", "foreignobject"), ("<p>x", "math"), ("<p>x", "annotation-xml"),
    ("<b><table><td></b>x", "div"), ("<table>x", "div"), ("<table><b>x", "div"), ("<li><li>", "ul"), ("</li>x", "li"),
    ("</p>x", "p"), ("</div>x", "div"), ("</b>x", "b"), ("</a>x", "a"), ("<a>x", "a"), ("<nobr>", "nobr"),
    ("<button>", "button"), ("</button>x", "button"), ("<option>", "option"), ("<optgroup>", "optgroup"),
]


def extra_cases():
    for t in EXTRA:
        yield (t, None, False, True)
        if any(k in t for k in ("noscript",)):
            yield (t, None, True, True)
    for t, c in EXTRA_FRAG:
        yield (t, c, False, True)
        yield (t, c, True, True)
    # every element name of the standard in the positions where categories matter
    names = sorted(set(T.ALLNAMES) | {"search", "slot", "picture", "menuitem", "command", "data", "time", "output",
                                       "meter", "progress", "bdi", "mark", "ruby", "rb", "rtc", "summary", "main"})
    for n in names:
        for pat in ("<b><%s>x</b>y", "<p><%s>x", "<li><%s><li>x", "<%s><p></%s>y", "<p><%s></p>x", "<a><%s><a>",
                    "<table><%s>x", "<select><%s>x", "<svg><%s>x", "<%s></foo>x", "<div><%s></div>x", "<head><%s>x",
                    "</head><%s>x", "<table><td><%s><td>", "<dd><%s><dt>", "<button><%s></button>x", "<ruby><%s>x",
                    "<%s><frameset>", "<template><%s>x", "<math><mi><%s>x", "<b><%s></%s>x</b>"):
            yield (pat.replace("%s", n), None, False, True)
        yield ("<%s>x" % n, n, False, True)
        yield ("</%s>x" % n, n, False, True)


# ------------------------------------------------------------------------------------------------
# persistent driver (one per worker process)

class Driver:
    def __init__(self):
        self.p = None

    def ask(self, line):
        if self.p is None or self.p.poll() is not None:
            self.p = subprocess.Popen([L.DRIVER], stdin=subprocess.PIPE, stdout=subprocess.PIPE, text=True, bufsize=1)
        self.p.stdin.write(line + "\n")
        self.p.stdin.flush()
        out = self.p.stdout.readline()
        if not out:
            self.p = None
            return "driver-died"
        return out.rstrip("\n")


DRV = Driver()


def norm_case(case):
    text, container, scripting, _ns = case
    return (text, container, bool(scripting), True)


def req_tail(case, toks):
    text, container, scripting, _ = case
    return "%s %s %s" % (enc_ostr(None if container is None else container.lower()), enc_bool(scripting),
                         enc_list(T.enc_ttok(t) for t in toks))


def treecmp(case):
    """returns (tokens, real response, treecmp response)"""
    toks, real = T.run_real("dom", case)
    return toks, real, DRV.ask("treecmp " + req_tail(case, toks))


def explained_by(case, toks):
    """a function flags -> bool: does the spec with these NON-STANDARD switches reproduce the model?"""
    tail = req_tail(case, toks)
    return lambda flags: DRV.ask("treecmp-dev %s %s" % (",".join(flags) if flags else "-", tail)) == "same"


# ------------------------------------------------------------------------------------------------
# shrinking: delta debugging over atoms (a tag / comment / doctype is one atom, any other character is one atom)

ATOM = re.compile(r"<!--.*?-->|<!\[CDATA\[.*?\]\]>|<[^<>]*>|.", re.S)


def atoms(text):
    return ATOM.findall(text)


def ddmin(items, test):
    n = 2
    while len(items) >= 2:
        chunk = max(1, len(items) // n)
        subsets = [items[i:i + chunk] for i in range(0, len(items), chunk)]
        reduced = False
        for i in range(len(subsets)):
            comp = [x for j, s in enumerate(subsets) if j != i for x in s]
            if comp and test(comp):
                items = comp
                n = max(n - 1, 2)
                reduced = True
                break
        if not reduced:
            if n >= len(items):
                break
            n = min(len(items), n * 2)
    return items


TAGRE = re.compile(r"^<(/?)([^\s/>]+)([^>]*)>$", re.S)


def shrink(case, budget=400):
    """1-minimal case that still shows a difference"""
    text, container, scripting, ns = case
    calls = [0]

    def differs(c):
        calls[0] += 1
        if calls[0] > budget:
            return False
        return treecmp(c)[2].startswith("diff ")

    items = atoms(text)
    items = ddmin(items, lambda its: differs(("".join(its), container, scripting, ns)))
    # simplify single atoms: drop attributes / self-closing flag, lower-case names
    changed = True
    while changed and calls[0] <= budget:
        changed = False
        for i, a in enumerate(items):
            m = TAGRE.match(a)
            if not m:
                continue
            cands = []
            if m.group(3):
                cands.append("<%s%s>" % (m.group(1), m.group(2)))
                parts = m.group(3).split()
                if len(parts) > 1:
                    for j in range(len(parts)):
                        cands.append("<%s%s %s>" % (m.group(1), m.group(2), " ".join(parts[:j] + parts[j + 1:])))
            if m.group(2) != m.group(2).lower():
                cands.append("<%s%s%s>" % (m.group(1), m.group(2).lower(), m.group(3)))
            for cnd in cands:
                its = items[:i] + [cnd] + items[i + 1:]
                if differs(("".join(its), container, scripting, ns)):
                    items = its
                    changed = True
                    break
            if changed:
                break
    text = "".join(items)
    if scripting and differs((text, container, False, ns)):
        scripting = False
    if container is not None:
        if differs((text, None, scripting, ns)):
            container = None
        elif container != "div" and differs((text, "div", scripting, ns)):
            container = "div"
    # one more ddmin pass after the simplifications
    items = ddmin(atoms(text), lambda its: differs(("".join(its), container, scripting, ns)))
    return ("".join(items), container, scripting, ns)


# ------------------------------------------------------------------------------------------------
# classification of a (minimal) witness

def tag_names(toks):
    st = [t["name"] for t in toks if t["type"] == TOK["StartTag"]]
    en = [t["name"] for t in toks if t["type"] == TOK["EndTag"]]
    return st, en


def split_resp(resp):
    """'diff <model> || <spec>' -> (model, spec)"""
    assert resp.startswith("diff ")
    m, s = resp[5:].split(" || ")
    return m, s


def classify(case, toks, resp):
    from spec_tree_classes import classify as c
    return c(case, toks, resp)


def work(args):
    cases, do_shrink = args
    import resource
    resource.setrlimit(resource.RLIMIT_AS, (6 << 30, 6 << 30))
    import spec_tree_classes as C
    n = 0
    diffs = []
    for case in cases:
        case = norm_case(case)
        n += 1
        toks, real, resp = treecmp(case)
        if resp == "same":
            continue
        if not resp.startswith("diff "):
            diffs.append({"class": "harness:" + resp[:40], "orig": case, "min": case, "model": "", "spec": "", "real": real})
            continue
        mcase = shrink(case) if do_shrink else case
        mtoks, mreal, mresp = treecmp(mcase)
        if not mresp.startswith("diff "):       # budget ran out in the middle of a step: keep the original
            mcase, mtoks, mreal, mresp = case, toks, real, resp
        m, s = split_resp(mresp)
        diffs.append({"class": C.classify(mcase, mtoks, m, s, explained_by(mcase, mtoks)), "orig": case, "min": mcase,
                      "model": m, "spec": s, "real": mreal})
    return n, diffs


class Ctx:
    def __init__(self, seed):
        self.rng = random.Random("spec-tree/%s" % seed)
        self.tier = "thorough"
        self.seed = seed


class _PP(T._P):
    """tree printer that shows a nested `frag` (template contents) as `content`"""

    def tree(self, out, ind, top=True):
        assert self.next() == "("
        k = self.next()
        pad = "| " + "  " * ind
        if k in ("doc", "frag"):
            if top:
                out.append("#" + k)
                for _ in range(int(self.next())):
                    self.tree(out, ind, False)
            else:
                out.append(pad + "content")
                for _ in range(int(self.next())):
                    self.tree(out, ind + 1, False)
        elif k == "dt":
            out.append("%s<!DOCTYPE %r %r %r>" % (pad, self.ostr(), self.ostr(), self.ostr()))
        elif k == "t":
            out.append("%s%r" % (pad, self.ostr()))
        elif k == "c":
            out.append("%s<!-- %r -->" % (pad, self.ostr()))
        elif k == "el":
            ns = self.ostr()
            name = self.ostr()
            short = {None: "(no ns) ", "http://www.w3.org/1999/xhtml": "", "http://www.w3.org/2000/svg": "svg ",
                     "http://www.w3.org/1998/Math/MathML": "math "}.get(ns, "{%s}" % ns)
            out.append("%s<%s%s>" % (pad, short, name))
            for _ in range(int(self.next())):
                ans, an, av = self.ostr(), self.ostr(), self.ostr()
                out.append("%s  %s%s=%r" % (pad, "" if ans is None else "{%s}" % ans, an, av))
            for _ in range(int(self.next())):
                self.tree(out, ind + 1, False)
        assert self.next() == ")"


def pretty_tree(resp):
    """'ok <tree> | sw | init' -> indented text"""
    if not resp.startswith("ok "):
        return resp
    parts = resp[3:].split(" | ")
    out = []
    try:
        _PP(parts[0]).tree(out, 0)
    except Exception as e:  # noqa
        return resp[:300] + " [unparsed %s]" % e
    return "\n        ".join(out) + "\n        switches: %s   initial: %s" % (parts[1], parts[2])


def main():
    ap = argparse.ArgumentParser()
    ap.add_argument("seed", nargs="?", default="0")
    ap.add_argument("count", type=int, nargs="?", default=20000)
    ap.add_argument("--jobs", type=int, default=os.cpu_count() or 4)
    ap.add_argument("--no-exh", action="store_true")
    ap.add_argument("--no-shrink", action="store_true")
    ap.add_argument("--exh-len", type=int, default=3)
    ap.add_argument("--out")
    ap.add_argument("--one")
    ap.add_argument("--container")
    ap.add_argument("--scripting", action="store_true")
    ap.add_argument("--show", type=int, default=1, help="witnesses printed per class")
    o = ap.parse_args()

    if o.one is not None:
        import spec_tree_classes as C
        text = o.one.encode().decode("unicode_escape") if "\\" in o.one else o.one
        case = (text, o.container, o.scripting, True)
        toks, real, resp = treecmp(case)
        print("case :", T.describe(case))
        print("tokens:", " ".join(T.TOKNAME[t["type"]] + ":" + str(t.get("name", t.get("data"))) for t in toks))
        print("real :", T.pretty(real) if not T.OPTS_VARS else real)
        if resp.startswith("diff "):
            m, s = split_resp(resp)
            print("class:", C.classify(case, toks, m, s, explained_by(case, toks)))
            print("model:", pretty_tree(m))
            print("spec :", pretty_tree(s))
        else:
            print(resp)
        return 0

    ctx = Ctx(o.seed)
    import _tree

    def stream():
        for c in T.FIXED_CASES:
            yield c
        for c in extra_cases():
            yield c
        for c in _tree.targeted(ctx, T):
            yield c
        for i in range(o.count):
            yield T.gen_case(o.seed, i)
        if not o.no_exh:
            for c in T.exh_cases(o.exh_len):
                yield c

    t0 = time.time()
    total = 0
    classes = {}
    pool = Pool(o.jobs)
    s = stream()
    while True:
        batch = list(itertools.islice(s, 40000))
        if not batch:
            break
        chunk = max(1, min(500, len(batch) // (o.jobs * 4)))
        parts = [(batch[i:i + chunk], not o.no_shrink) for i in range(0, len(batch), chunk)]
        for n, diffs in pool.imap_unordered(work, parts):
            total += n
            for d in diffs:
                classes.setdefault(d["class"], []).append(d)
        print("[%7.1fs] %d cases, %d differences in %d classes" % (
            time.time() - t0, total, sum(len(v) for v in classes.values()), len(classes)), flush=True)
    pool.close()

    ndiff = sum(len(v) for v in classes.values())
    print("\n=== spec vs model: %d cases, %d differences, %d classes ===\n" % (total, ndiff, len(classes)))
    rows = sorted(classes.items(), key=lambda kv: (-len(kv[1]), kv[0]))
    for cls, ds in rows:
        print("%7d  %s" % (len(ds), cls))
    print()
    for cls, ds in rows:
        ds.sort(key=lambda d: (len(d["min"][0]), d["min"][0]))
        print("== %s  (%d)" % (cls, len(ds)))
        seen = set()
        shown = 0
        for d in ds:
            if d["min"] in seen:
                continue
            seen.add(d["min"])
            print("   witness: %s" % T.describe(d["min"]))
            print("     model: %s" % pretty_tree(d["model"]))
            print("     spec : %s" % pretty_tree(d["spec"]))
            shown += 1
            if shown >= o.show:
                break
    if o.out:
        json.dump({"seed": o.seed, "count": total, "differences": ndiff,
                   "classes": {cls: {"n": len(ds), "witnesses": [{"min": d["min"], "orig": d["orig"], "model": d["model"],
                                                                  "spec": d["spec"]} for d in ds[:5]]}
                               for cls, ds in rows}, "wall_s": round(time.time() - t0, 1)}, open(o.out, "w"), indent=1)
    return 0


if __name__ == "__main__":
    sys.exit(main())
