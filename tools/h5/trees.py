"""Direct traversal of real minidom / ElementTree results into the abstract tree, and its wire encoding.

abstract tree = ("doc", kids) | ("frag", kids) | ("doctype", name, pub, sys) | ("elem", ns, name, attrs, kids)
              | ("text", s) | ("comment", s);   attrs = [(ns, name, value)]
Never uses html5lib's own walkers or testSerializer.
"""
import re
from xml.dom import Node

from . import wire

TAG_RE = re.compile(r"{([^}]*)}(.*)", re.S)


def split_tag(tag):
    m = TAG_RE.match(tag)
    if m:
        return m.group(1), m.group(2)
    return None, tag


def from_dom(node, merge_text=False):
    t = node.nodeType
    if t in (Node.DOCUMENT_NODE, Node.DOCUMENT_FRAGMENT_NODE):
        return ("doc" if t == Node.DOCUMENT_NODE else "frag", kids_dom(node, merge_text))
    if t == Node.DOCUMENT_TYPE_NODE:
        return ("doctype", node.name, node.publicId, node.systemId)
    if t in (Node.TEXT_NODE, Node.CDATA_SECTION_NODE):
        return ("text", node.nodeValue)
    if t == Node.COMMENT_NODE:
        return ("comment", node.nodeValue)
    if t == Node.ELEMENT_NODE:
        attrs = []
        for k in list(node.attributes.keys()):
            a = node.getAttributeNode(k)
            if a.namespaceURI:
                attrs.append((a.namespaceURI, a.localName, a.value))
            else:
                attrs.append((None, a.name, a.value))
        return ("elem", node.namespaceURI, node.nodeName, attrs, kids_dom(node, merge_text))
    raise ValueError("unexpected DOM node type %r" % t)


def kids_dom(node, merge_text):
    out = []
    for c in node.childNodes:
        k = from_dom(c, merge_text)
        if merge_text and k[0] == "text" and out and out[-1][0] == "text":
            out[-1] = ("text", out[-1][1] + k[1])
        else:
            out.append(k)
    return out


def from_etree(el, comment_tag=None):
    """el: an ElementTree element as html5lib's etree builder produces it (or hand-made)"""
    import xml.etree.ElementTree as ET
    comment_tag = comment_tag or ET.Comment
    if not hasattr(el, "tag"):
        el = el.getroot()
    if el.tag in ("DOCUMENT_ROOT", "DOCUMENT_FRAGMENT"):
        return ("doc" if el.tag == "DOCUMENT_ROOT" else "frag", kids_etree(el, comment_tag))
    if el.tag == "<!DOCTYPE>":
        return ("doctype", el.text, el.get("publicId"), el.get("systemId"))
    if el.tag is comment_tag:
        return ("comment", el.text)
    ns, name = split_tag(el.tag)
    attrs = []
    for k, v in list(el.attrib.items()):
        ans, an = split_tag(k)
        attrs.append((ans, an, v))
    return ("elem", ns, name, attrs, kids_etree(el, comment_tag))


def kids_etree(el, comment_tag):
    out = []
    if el.text and el.tag is not comment_tag and el.tag != "<!DOCTYPE>":
        out.append(("text", el.text))
    for c in el:
        out.append(from_etree(c, comment_tag))
        if c.tail:
            out.append(("text", c.tail))
    return out


def merge_text(t):
    """adjacent text nodes merged, empty text dropped (the abstract tree of C01/C04)"""
    if t[0] in ("doc", "frag"):
        return (t[0], _merge_kids(t[1]))
    if t[0] == "elem":
        return ("elem", t[1], t[2], t[3], _merge_kids(t[4]))
    return t


def _merge_kids(kids):
    out = []
    for k in kids:
        k = merge_text(k)
        if k[0] == "text":
            if k[1] == "":
                continue
            if out and out[-1][0] == "text":
                out[-1] = ("text", out[-1][1] + k[1])
                continue
        out.append(k)
    return out


def enc_attrs(attrs):
    return wire.enc_list("%s %s %s" % (wire.enc_ostr(ns), wire.enc_str(n), wire.enc_str(v)) for ns, n, v in attrs)


def enc_tree(t):
    """prefix encoding read by H5.Wire.tree"""
    k = t[0]
    if k in ("doc", "frag"):
        return "%s %s" % ("d" if k == "doc" else "f", wire.enc_list(enc_tree(c) for c in t[1]))
    if k == "doctype":
        return "y %s %s %s" % (wire.enc_ostr(t[1]), wire.enc_ostr(t[2]), wire.enc_ostr(t[3]))
    if k == "elem":
        return "e %s %s %s %s" % (wire.enc_ostr(t[1]), wire.enc_str(t[2]), enc_attrs(t[3]),
                                   wire.enc_list(enc_tree(c) for c in t[4]))
    if k == "text":
        return "t " + wire.enc_str(t[1])
    if k == "comment":
        return "c " + wire.enc_str(t[1])
    raise ValueError(k)


def enc_tree_sexpr(t):
    """the s-expression H5.Wire.encTree prints (for comparing result trees)"""
    k = t[0]
    if k in ("doc", "frag"):
        return "(%s %s)" % (k, wire.enc_list(enc_tree_sexpr(c) for c in t[1]))
    if k == "doctype":
        return "(dt %s %s %s)" % (wire.enc_ostr(t[1]), wire.enc_ostr(t[2]), wire.enc_ostr(t[3]))
    if k == "elem":
        return "(el %s %s %s %s)" % (wire.enc_ostr(t[1]), wire.enc_str(t[2]), enc_attrs(t[3]),
                                      wire.enc_list(enc_tree_sexpr(c) for c in t[4]))
    if k == "text":
        return "(t %s)" % wire.enc_str(t[1])
    if k == "comment":
        return "(c %s)" % wire.enc_str(t[1])
    raise ValueError(k)


def size(t):
    if t[0] in ("doc", "frag"):
        return 1 + sum(size(c) for c in t[1])
    if t[0] == "elem":
        return 1 + sum(size(c) for c in t[4])
    return 1
