"""Primitive scripts on the REAL back-end wrapper classes (html5lib.treebuilders.etree / dom), their wire encoding for
the Lean ops `prims:etree` / `prims:dom` (lean/Driver/BackendOps.lean), a shadow model with the intended common
semantics that (a) generates scripts, (b) decides which calls are inside the contract the tree builder keeps.

script = (ns_html: bool, full_tree: bool, [call]);  call = tuple, first item the op letter (see BackendOps.lean).
Handles are creation-order numbers, handle 0 is the document.
"""
import itertools
import xml.dom
import xml.dom.minidom
import xml.etree.ElementTree as ET

from . import trees, wire

HTML_NS = "http://www.w3.org/1999/xhtml"
SVG_NS = "http://www.w3.org/2000/svg"
XLINK_NS = "http://www.w3.org/1999/xlink"
XML_NS = "http://www.w3.org/XML/1998/namespace"

CREATES = "ECFYMkG"


# ---------------------------------------------------------------- wire

def enc_onat(n):
    return "~" if n is None else str(n)


def enc_key(k, v):
    if isinstance(k, tuple):
        return "q %s %s %s %s" % (wire.enc_ostr(k[0]), wire.enc_str(k[1]), wire.enc_str(k[2]), wire.enc_str(v))
    return "p %s %s" % (wire.enc_str(k), wire.enc_str(v))


def enc_call(c):
    op = c[0]
    if op == "E":
        return "E %s %s" % (wire.enc_ostr(c[1]), wire.enc_str(c[2]))
    if op == "C":
        return "C " + wire.enc_str(c[1])
    if op == "F" or op == "D":
        return op
    if op == "Y":
        return "Y %s %s %s" % (wire.enc_ostr(c[1]), wire.enc_ostr(c[2]), wire.enc_ostr(c[3]))
    if op == "M":
        return "M %d %s" % (c[1], wire.enc_str(c[2]))
    if op == "t":
        return "t %d %s %s" % (c[1], wire.enc_str(c[2]), enc_onat(c[3]))
    if op in "ar" or op == "m":
        return "%s %d %d" % (op, c[1], c[2])
    if op == "b":
        return "b %d %d %d" % (c[1], c[2], c[3])
    if op in "kghPcG":
        return "%s %d" % (op, c[1])
    if op == "s":
        return "s %d %s" % (c[1], wire.enc_list(enc_key(k, v) for k, v in c[2]))
    if op == "i":
        return "i %d %s %s" % (c[1], wire.enc_str(c[2]), wire.enc_str(c[3]))
    if op == "q":
        return "q %d %s" % (c[1], wire.enc_str(c[2]))
    raise ValueError(op)


def enc_script(script):
    ns, full, calls = script
    return "%s %s %s" % (wire.enc_bool(ns), wire.enc_bool(full), wire.enc_list(enc_call(c) for c in calls))


def r_items(items):
    return "I" + ";".join(wire.enc_str(k) + "=" + wire.enc_str(v) for k, v in items)


# ---------------------------------------------------------------- the real classes

_modules = {}


def etree_module(full):
    from html5lib.treebuilders import etree
    return etree.getETreeModule(ET, fullTree=full)


def dom_module():
    from html5lib.treebuilders import dom
    return dom.getDomModule(xml.dom.minidom)


class CycleGuard(Exception):
    pass


class RealEtree:
    """script executor on html5lib.treebuilders.etree wrappers"""
    kind = "etree"

    def __init__(self, ns, full):
        self.mod = etree_module(full)
        self.tb = self.mod.TreeBuilder(ns)
        self.nodes = [self.tb.document]

    def handle(self, w):
        for i, n in enumerate(self.nodes):
            if n is w:
                return i
        raise KeyError("unknown wrapper")

    def new(self, w):
        self.nodes.append(w)
        return "n%d" % (len(self.nodes) - 1)

    def call(self, c):
        op, N, tb = c[0], self.nodes, self.tb
        if op == "E":
            return self.new(tb.elementClass(c[2], c[1]))
        if op == "C":
            return self.new(tb.commentClass(c[1]))
        if op == "F":
            return self.new(tb.fragmentClass())
        if op == "Y":
            tb.insertDoctype({"name": c[1], "publicId": c[2], "systemId": c[3]})
            return self.new(tb.document.childNodes[-1])
        if op == "M":
            got, orig = [], tb.commentClass
            tb.commentClass = lambda data: (got.append(orig(data)), got[-1])[1]
            try:
                tb.insertComment({"data": c[2]}, N[c[1]])
            finally:
                del tb.commentClass
            return self.new(got[0])
        if op == "a":
            N[c[1]].appendChild(N[c[2]])
        elif op == "t":
            N[c[1]].insertText(c[2]) if c[3] is None else N[c[1]].insertText(c[2], N[c[3]])
        elif op == "b":
            N[c[1]].insertBefore(N[c[2]], N[c[3]])
        elif op == "r":
            N[c[1]].removeChild(N[c[2]])
        elif op == "m":
            N[c[1]].reparentChildren(N[c[2]])
        elif op == "k":
            return self.new(N[c[1]].cloneNode())
        elif op == "s":
            N[c[1]].attributes = dict(c[2])
        elif op == "i":
            N[c[1]].attributes[c[2]] = c[3]
        elif op == "g":
            return r_items(list(N[c[1]].attributes.items()))
        elif op == "q":
            return wire.enc_bool(c[2] in N[c[1]].attributes)
        elif op == "h":
            return wire.enc_bool(N[c[1]].hasContent())
        elif op == "P":
            p = N[c[1]].parent
            return "~" if p is None else "n%d" % self.handle(p)
        elif op == "c":
            return "L" + ",".join(str(self.handle(w)) for w in N[c[1]].childNodes)
        elif op == "D":
            el = tb.getDocument()
            if el is None:
                return "~"
            for i, n in enumerate(N):
                if n._element is el:
                    return "n%d" % i
            raise KeyError("getDocument returned an unknown element")
        elif op == "G":
            from html5lib.treebuilders import base
            tb.openElements = [N[c[1]]]
            frag = base.TreeBuilder.getFragment(tb)
            return self.new(frag)
        else:
            raise ValueError(op)
        return "-"

    def tree(self, h):
        return trees.merge_text(trees.from_etree(self.nodes[h]._element))


class RealDom:
    """script executor on html5lib.treebuilders.dom NodeBuilder / TreeBuilder (the document is the TreeBuilder itself)"""
    kind = "dom"

    def __init__(self, ns, full):
        self.mod = dom_module()
        self.tb = self.mod.TreeBuilder(ns)
        self.nodes = [self.tb.document]      # weakref proxy of the TreeBuilder

    def new(self, w):
        self.nodes.append(w)
        return "n%d" % (len(self.nodes) - 1)

    def el(self, h):
        return self.tb.dom if h == 0 else self.nodes[h].element

    def guard(self, p, c):
        """minidom's _in_document() walks parentNode chains: never build a cycle"""
        x, steps = self.el(p), 0
        target = self.el(c)
        while x is not None and steps < 10000:
            if x is target:
                raise CycleGuard()
            x = x.parentNode
            steps += 1

    def call(self, c):
        op, N, tb = c[0], self.nodes, self.tb
        if op == "E":
            return self.new(tb.elementClass(c[2], c[1]))
        if op == "C":
            return self.new(tb.commentClass(c[1]))
        if op == "F":
            return self.new(tb.fragmentClass())
        if op == "Y":
            # the NodeBuilder made inside insertDoctype is passed to TreeBuilder.appendChild: capture it there
            got, orig = [], type(tb).appendChild
            tb.appendChild = lambda node: (got.append(node), orig(tb, node))[1]
            try:
                tb.insertDoctype({"name": c[1], "publicId": c[2], "systemId": c[3]})
            finally:
                del tb.appendChild
            return self.new(got[0])
        if op == "M":
            got, orig = [], type(tb).commentClass
            tb.commentClass = lambda data: (got.append(orig(tb, data)), got[-1])[1]
            try:
                tb.insertComment({"data": c[2]}, N[c[1]])
            finally:
                del tb.commentClass
            return self.new(got[0])
        if op == "a":
            self.guard(c[1], c[2])
            N[c[1]].appendChild(N[c[2]])
        elif op == "t":
            if c[1] == 0:
                if c[3] is not None:
                    raise ValueError("unmodelled")
                tb.insertText(c[2], tb.document)
            elif c[3] is None:
                N[c[1]].insertText(c[2])
            else:
                N[c[1]].insertText(c[2], N[c[3]])
        elif op == "b":
            self.guard(c[1], c[2])
            N[c[1]].insertBefore(N[c[2]], N[c[3]])
        elif op == "r":
            N[c[1]].removeChild(N[c[2]])
        elif op == "m":
            self.guard(c[2], c[1])       # newParent below self: the moved child would become its own ancestor
            N[c[1]].reparentChildren(N[c[2]])
        elif op == "k":
            return self.new(N[c[1]].cloneNode())
        elif op == "s":
            N[c[1]].attributes = dict(c[2])
        elif op == "i":
            N[c[1]].attributes[c[2]] = c[3]
        elif op == "g":
            return r_items(list(N[c[1]].attributes.items()))
        elif op == "q":
            return wire.enc_bool(c[2] in N[c[1]].attributes)
        elif op == "h":
            return wire.enc_bool(N[c[1]].hasContent())
        elif op == "P":
            p = N[c[1]].parent
            if p is None:
                return "~"
            for i, n in enumerate(N):
                if i and n is p:
                    return "n%d" % i
            raise KeyError("unknown parent wrapper")
        elif op == "c":
            return "L" + ",".join("?" for w in N[c[1]].childNodes)
        elif op == "D":
            assert tb.getDocument() is tb.dom
            return "n0"
        elif op == "G":
            from html5lib.treebuilders import base
            tb.openElements = [N[c[1]]]
            return self.new(base.TreeBuilder.getFragment(tb))
        else:
            raise ValueError(op)
        return "-"

    def tree(self, h):
        return trees.merge_text(trees.from_dom(self.el(h)))


def exc_word(e):
    return "!" + type(e).__name__


def run_real(cls, script):
    """-> (response string in the driver's format, trees or None, result words);  None when the script is refused by the
    cycle guard"""
    ns, full, calls = script
    ex = cls(ns, full)
    words = []
    for c in calls:
        try:
            words.append(ex.call(c))
        except CycleGuard:
            return None
        except RecursionError:
            return None
        except Exception as e:     # noqa
            words.append(exc_word(e))
            return "ok " + " ".join(words), None, words
    ts = []
    for h in range(len(ex.nodes)):
        try:
            ts.append(ex.tree(h))
        except RecursionError:
            ts.append("cyc")
    enc = [t if t == "cyc" else trees.enc_tree_sexpr(t) for t in ts]
    return "ok " + " ".join(words) + " # " + " # ".join(enc), ts, words


# ---------------------------------------------------------------- shadow model: intended semantics + the contract

class Shadow:
    """nodes: kind in doc/frag/doctype/elem/comment; children = list of handles or str (text);  the contract() method says
    whether a call is one the tree builder can make (preconditions of the theorems in H5/Props/C04b.lean)."""

    def __init__(self):
        self.kind = ["doc"]
        self.parent = [None]
        self.kids = [[]]
        self.attrs = [None]
        self.moved = set()        # nodes whose parent was changed by reparentChildren (dom wrapper keeps the old .parent)
        self.fresh_attrs = {0: False}

    def new(self, kind):
        self.kind.append(kind)
        self.parent.append(None)
        self.kids.append([])
        self.attrs.append({} if kind == "elem" else None)
        self.fresh_attrs[len(self.kind) - 1] = True
        return len(self.kind) - 1

    def n(self):
        return len(self.kind)

    def is_container(self, h):
        return self.kind[h] in ("doc", "frag", "elem")

    def ancestors_or_self(self, h):
        out, steps = [], 0
        while h is not None and steps < 1000:
            out.append(h)
            h = self.parent[h]
            steps += 1
        return out

    def node_kids(self, h):
        return [k for k in self.kids[h] if not isinstance(k, str)]

    def text_follows(self, p, c):
        ks = self.kids[p]
        i = ks.index(c)
        return i + 1 < len(ks) and isinstance(ks[i + 1], str)

    @staticmethod
    def attrs_ok(items):
        """distinct keys; no two keys with the same (namespace, local part) [minidom _attrsNS key], the same qualified name
        [minidom _attrs key] or the same {ns}local [ElementTree key]; names that both syntaxes read back unchanged"""
        seen_local, seen_et, seen_q = set(), set(), set()
        for k, _ in items:
            if isinstance(k, tuple):
                pfx, loc, uri = k
                if not uri or "}" in uri or ":" in loc or loc == "" or (pfx is not None and (":" in pfx or pfx == "")):
                    return False
                lk, ek, qk = (uri, loc), "{%s}%s" % (uri, loc), (loc if pfx is None else pfx + ":" + loc)
            else:
                if k.startswith("{") or k == "":
                    return False
                lk, ek, qk = (None, k.split(":", 1)[-1]), k, k
            if lk in seen_local or ek in seen_et or qk in seen_q:
                return False
            seen_local.add(lk)
            seen_et.add(ek)
            seen_q.add(qk)
        return True

    def contract(self, c):
        op = c[0]
        ok_h = lambda h: isinstance(h, int) and 0 <= h < self.n()
        if op == "E":
            ns, name = c[1], c[2]
            return name != "" and not name.startswith("{") and name not in ("DOCUMENT_ROOT", "DOCUMENT_FRAGMENT", "<!DOCTYPE>") \
                and (ns is None or (ns != "" and "}" not in ns))
        if op in "CFD":
            return True
        if op == "Y":
            # one doctype, before anything else is not required by the back ends; the name must survive minidom
            return c[1] is not None and c[1] != "" and ":" not in c[1] and \
                not any(self.kind[k] == "elem" for k in self.node_kids(0))
        if op == "M":
            return ok_h(c[1]) and self.is_container(c[1])
        if op == "a":
            p, ch = c[1], c[2]
            if not (ok_h(p) and ok_h(ch)) or p == ch or not self.is_container(p):
                return False
            if self.kind[ch] not in ("elem", "comment") or self.parent[ch] is not None or ch in self.ancestors_or_self(p):
                return False
            if self.kind[p] == "doc" and self.kind[ch] == "elem" and any(self.kind[k] == "elem" for k in self.node_kids(0)):
                return False
            return True
        if op == "t":
            p, data, ref = c[1], c[2], c[3]
            if not ok_h(p) or not self.is_container(p) or data == "":
                return False
            if ref is None:
                return True
            return ok_h(ref) and self.kind[p] != "doc" and ref in self.node_kids(p)
        if op == "b":
            p, n, ref = c[1], c[2], c[3]
            if not (ok_h(p) and ok_h(n) and ok_h(ref)) or self.kind[p] not in ("elem", "frag"):
                return False
            return self.kind[n] in ("elem", "comment") and self.parent[n] is None and n != p and \
                n not in self.ancestors_or_self(p) and ref in self.node_kids(p)
        if op == "r":
            p, n = c[1], c[2]
            return ok_h(p) and ok_h(n) and self.kind[p] in ("elem", "frag") and n in self.node_kids(p) and \
                not self.text_follows(p, n)
        if op == "m":
            a, b = c[1], c[2]
            return ok_h(a) and ok_h(b) and a != b and self.kind[a] in ("elem", "frag") and self.kind[b] in ("elem", "frag") \
                and self.kids[b] == [] and b not in self.ancestors_or_self(a) and a not in self.ancestors_or_self(b)
        if op == "G":
            return ok_h(c[1]) and self.kind[c[1]] in ("elem", "frag")
        if op == "k":
            return ok_h(c[1]) and self.kind[c[1]] == "elem"
        if op == "s":
            return ok_h(c[1]) and self.kind[c[1]] == "elem" and self.fresh_attrs.get(c[1], False) and self.attrs_ok(c[2])
        if op == "i":
            a = c[1]
            return ok_h(a) and self.kind[a] == "elem" and c[2] not in self.attrs[a] and \
                self.attrs_ok(list(self.attrs[a].items()) + [(c[2], c[3])])
        if op in "gq":
            return ok_h(c[1]) and self.kind[c[1]] == "elem"
        if op == "h":
            return ok_h(c[1]) and self.kind[c[1]] in ("elem", "frag")
        if op in "Pc":
            return ok_h(c[1]) and c[1] != 0
        return False

    # intended semantics (minidom-like: re-parenting detaches first); only needs to be right for calls that do not raise
    def detach(self, c):
        p = self.parent[c]
        if p is not None and c in self.kids[p]:
            self.kids[p].remove(c)
        self.parent[c] = None

    def apply(self, c):
        op = c[0]
        try:
            if op == "E":
                self.new("elem")
            elif op == "C":
                self.new("comment")
            elif op == "F":
                self.new("frag")
            elif op == "Y":
                h = self.new("doctype")
                self.kids[0].append(h)
                self.parent[h] = 0
            elif op == "M":
                h = self.new("comment")
                self.kids[c[1]].append(h)
                self.parent[h] = c[1]
            elif op == "a":
                self.detach(c[2])
                self.kids[c[1]].append(c[2])
                self.parent[c[2]] = c[1]
            elif op == "t":
                if c[3] is None:
                    self.kids[c[1]].append(c[2])
                else:
                    self.kids[c[1]].insert(self.kids[c[1]].index(c[3]), c[2])
            elif op == "b":
                self.detach(c[2])
                self.kids[c[1]].insert(self.kids[c[1]].index(c[3]), c[2])
                self.parent[c[2]] = c[1]
            elif op == "r":
                if c[2] in self.kids[c[1]]:
                    self.kids[c[1]].remove(c[2])
                    self.parent[c[2]] = None
            elif op in "mG":
                a = c[1]
                b = self.new("frag") if op == "G" else c[2]
                for k in self.kids[a]:
                    if not isinstance(k, str):
                        self.parent[k] = b
                        self.moved.add(k)
                self.kids[b].extend(self.kids[a])
                self.kids[a] = []
            elif op == "k":
                h = self.new(self.kind[c[1]])
                if self.attrs[c[1]] is not None:
                    self.attrs[h] = dict(self.attrs[c[1]])
                    self.fresh_attrs[h] = not self.attrs[h]
            elif op == "s":
                if self.attrs[c[1]] is not None:
                    self.attrs[c[1]].update(dict(c[2]))
                    self.fresh_attrs[c[1]] = self.fresh_attrs[c[1]] and not c[2]
            elif op == "i":
                if self.attrs[c[1]] is not None:
                    self.attrs[c[1]][c[2]] = c[3]
                    self.fresh_attrs[c[1]] = False
        except (ValueError, IndexError, TypeError):
            pass


# ---------------------------------------------------------------- generators

NAMES = ["div", "p", "b", "table", "html", "svg", "a:b", "x"]
TEXTS = ["x", "y ", " ", "é", "ab", "\n"]
ATTR_PLAIN = ["id", "class", "lang", "xml:lang", "a", "x:a", "title", "xlink:href"]
ATTR_QUAL = [("xlink", "href", XLINK_NS), ("xml", "lang", XML_NS), (None, "xmlns", "http://www.w3.org/2000/xmlns/"),
             ("xlink", "title", XLINK_NS)]


def gen_attrs(rng, wild):
    items = {}
    for _ in range(rng.randint(0, 3)):
        if rng.random() < 0.3:
            items[rng.choice(ATTR_QUAL)] = rng.choice(["", "v", "w w"])
        else:
            items[rng.choice(ATTR_PLAIN)] = rng.choice(["", "v", "é"])
    return list(items.items())


def candidates(sh, rng, wild):
    """a random call; in contract mode only calls inside the contract are produced (None when the draw fails)"""
    n = sh.n()
    h = lambda: rng.randrange(n)
    nz = lambda: rng.randrange(1, n) if n > 1 else 0
    r = rng.random()
    if r < 0.16 or n < 3:
        ns = rng.choice([None, None, HTML_NS, HTML_NS, SVG_NS])
        return ("E", ns, rng.choice(NAMES))
    if r < 0.19:
        return ("C", rng.choice(TEXTS))
    if r < 0.20:
        return ("F",)
    if r < 0.22:
        return ("Y", rng.choice(["html", "html", "a:b", "", None] if wild else ["html", "x", "a:b", ""]),
                rng.choice([None, "", "-//W3C//DTD"]), rng.choice([None, "", "about:legacy"]))
    if r < 0.25:
        return ("M", h(), rng.choice(TEXTS))
    if r < 0.43:
        return ("a", h(), nz())
    if r < 0.60:
        p = h()
        ref = None
        if rng.random() < 0.45:
            nk = sh.node_kids(p)
            ref = rng.choice(nk) if nk and (not wild or rng.random() < 0.9) else (nz() if wild else None)
        data = rng.choice(TEXTS) if not wild or rng.random() < 0.93 else ""
        return ("t", p, data, ref)
    if r < 0.68:
        p = nz()
        nk = sh.node_kids(p)
        ref = rng.choice(nk) if nk and (not wild or rng.random() < 0.9) else nz()
        return ("b", p, nz(), ref)
    if r < 0.75:
        p = nz()
        nk = sh.node_kids(p)
        return ("r", p, rng.choice(nk) if nk and (not wild or rng.random() < 0.9) else nz())
    if r < 0.81:
        a, b = nz(), nz()
        return ("m", a, b)
    if r < 0.84:
        return ("G", nz())
    if r < 0.88:
        return ("k", nz() if not wild or rng.random() < 0.9 else h())
    if r < 0.93:
        return ("s", nz(), gen_attrs(rng, wild))
    if r < 0.95:
        return ("i", nz(), rng.choice(ATTR_PLAIN), rng.choice(["", "v"]))
    if r < 0.96:
        return ("g", nz())
    if r < 0.965:
        return ("q", nz(), rng.choice(ATTR_PLAIN))
    if r < 0.985:
        return ("h", nz())
    if r < 0.993:
        return ("P", nz())
    if r < 0.996:
        return ("c", nz())
    return ("D",)


def contract_call(sh, rng):
    """a random call INSIDE the contract, arguments drawn from the valid sets of the shadow state (None when none exists)"""
    n = sh.n()
    hs = range(n)
    cont = [h for h in hs if sh.is_container(h)]
    ef = [h for h in hs if sh.kind[h] in ("elem", "frag")]
    free = [h for h in hs if sh.kind[h] in ("elem", "comment") and sh.parent[h] is None]
    op = rng.choice("EEECFYMaaaaatttttbbbrrrmmGkksssighhPcDq")
    pick = lambda l: rng.choice(l) if l else None
    if op == "E":
        return ("E", rng.choice([None, None, HTML_NS, HTML_NS, SVG_NS]), rng.choice(NAMES))
    if op == "C":
        return ("C", rng.choice(TEXTS))
    if op in "FD":
        return (op,)
    if op == "Y":
        return ("Y", rng.choice(["html", "x"]), rng.choice([None, "", "-//W3C//DTD"]), rng.choice([None, "", "about:legacy"]))
    if op == "M":
        return ("M", pick(cont), rng.choice(TEXTS))
    if op == "a":
        p = pick(cont)
        cs = [c for c in free if c not in sh.ancestors_or_self(p)]
        return ("a", p, pick(cs)) if cs else None
    if op == "t":
        p = pick(cont)
        nk = sh.node_kids(p) if p != 0 else []
        return ("t", p, rng.choice(TEXTS), pick(nk) if rng.random() < 0.5 else None)
    if op == "b":
        ps = [p for p in ef if sh.node_kids(p)]
        if not ps:
            return None
        p = pick(ps)
        cs = [c for c in free if c not in sh.ancestors_or_self(p)]
        return ("b", p, pick(cs), pick(sh.node_kids(p))) if cs else None
    if op == "r":
        opts = [(p, k) for p in ef for k in sh.node_kids(p) if not sh.text_follows(p, k)]
        return ("r",) + pick(opts) if opts else None
    if op == "m":
        opts = [(a, b) for a in ef for b in ef if a != b and sh.kids[b] == [] and b not in sh.ancestors_or_self(a)
                and a not in sh.ancestors_or_self(b)]
        return ("m",) + pick(opts) if opts else None
    if op == "G":
        return ("G", pick(ef)) if ef else None
    el = [h for h in hs if sh.kind[h] == "elem"]
    if not el:
        return None
    if op == "k":
        return ("k", pick(el))
    if op == "s":
        fr = [h for h in el if sh.fresh_attrs.get(h)]
        return ("s", pick(fr), gen_attrs(rng, False)) if fr else None
    if op == "i":
        return ("i", pick(el), rng.choice(ATTR_PLAIN), rng.choice(["", "v"]))
    if op == "g":
        return ("g", pick(el))
    if op == "q":
        return ("q", pick(el), rng.choice(ATTR_PLAIN))
    if op == "h":
        return ("h", pick(ef))
    if op in "Pc":
        return (op, rng.randrange(1, n)) if n > 1 else None
    return None


def never(sh, c):
    """calls that must never be run on the real classes: they do not terminate (or are outside the modelled surface)"""
    op = c[0]
    if op == "m" and c[1] == c[2]:
        return True
    if op in "ab" and c[1] == c[2]:
        return False
    if op == "t" and c[1] == 0 and c[3] is not None:
        return True
    if op in "mG" and 0 in c[1:]:
        return False
    return False


def random_script(rng, length, wild):
    sh = Shadow()
    calls, in_contract = [], True
    tries = 0
    while len(calls) < length and tries < length * 30:
        tries += 1
        c = candidates(sh, rng, wild) if (wild and rng.random() < 0.3) else contract_call(sh, rng)
        if c is None or never(sh, c):
            continue
        ok = sh.contract(c)
        if not wild and not ok:
            continue
        in_contract = in_contract and ok
        calls.append(c)
        sh.apply(c)
    return (rng.random() < 0.6, rng.random() < 0.5, calls), in_contract


PREAMBLES = [
    [("E", None, "a"), ("E", None, "b"), ("E", None, "c")],
    [("E", HTML_NS, "a"), ("E", None, "b"), ("E", None, "c"), ("a", 1, 2), ("t", 1, "x", None)],
    [("E", None, "a"), ("E", None, "b"), ("E", None, "c"), ("t", 1, "x", None), ("a", 1, 2), ("a", 1, 3)],
]


def short_alphabet():
    hs = (1, 2, 3)
    out = []
    for p in hs:
        out.append(("t", p, "y", None))
        out.append(("h", p))
        for q in hs:
            if p != q:
                out += [("a", p, q), ("t", p, "z", q), ("r", p, q), ("m", p, q)]
            for r in hs:
                if p != q and q != r and p != r:
                    out.append(("b", p, q, r))
    out.append(("k", 1))
    return out


def exhaustive_scripts(length):
    alpha = short_alphabet()
    for pre in PREAMBLES:
        for n in range(1, length + 1):
            for tail in itertools.product(alpha, repeat=n):
                yield (False, False, list(pre) + list(tail))


def classify_contract(script):
    """replay the calls on a fresh shadow: (all calls inside the contract?, shadow)"""
    sh = Shadow()
    ok = True
    for c in script[2]:
        if not sh.contract(c):
            ok = False
        sh.apply(c)
    return ok, sh
