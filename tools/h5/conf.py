"""G-conf: seeded generator of conforming HTML documents from a grammar of the content model.
A document is an abstract tree (tools/h5/trees.py format) plus its explicit markup (every tag written, attributes
double-quoted, text escaped) — a rendering simple enough to be obviously right, used as the *source* form."""
from . import gen

H = gen.HTML_NS
TEXTS = ["x", "hello world", "a b  c", "é", "\U0001F600", "1 < 2 & 3 > 2", "\"quoted\" 'single'", "tab\there", "line\nbreak",
         " nbsp ", "a&amp;b", "&lt;not-a-tag&gt;", "=", "`", "trailing ", " leading", "--", "]]>", "</p>", "&#65;", "p&q;",
         "\u00c9COLE 42", "\u00dcbersicht", "\u00c6=1", "\u00d0x \u00de9", "caf\u00e9s", "\u2260b"]
ATTRS = [("id", ["a", "b1"]), ("class", ["c d", "e"]), ("title", ["t", "a \"q\" 'r'", "x<y", "a&b", "", "é", "\u00c9COLE 42", "\u00dcbersicht", "\u00c6=1", "\u00d8x", "\u2260b"]), ("lang", ["en"]),
         ("data-x", ["1", "a=b", "`", " "]), ("hidden", ["", "hidden"]), ("dir", ["ltr"]), ("style", ["color: red"])]
PHRASING = ["b", "i", "em", "strong", "span", "code", "small", "sub", "sup", "u", "s", "q", "cite", "abbr", "kbd", "var", "samp",
            "mark", "bdo", "bdi"]
SECTIONING = ["div", "section", "article", "nav", "aside", "header", "footer", "main", "blockquote", "address"]
VOID = {"br", "img", "input", "hr", "meta", "link", "col", "base", "wbr", "area", "embed", "param", "source", "track"}
RAW = {"script", "style"}


class G(object):
    def __init__(self, rng, maxdepth=5):
        self.rng = rng
        self.maxdepth = maxdepth

    def attrs(self, extra=()):
        out = list(extra)
        if self.rng.random() < 0.35:
            for name, vals in self.rng.sample(ATTRS, self.rng.randint(1, 2)):
                if not any(n == name for _, n, _ in out):
                    out.append((None, name, self.rng.choice(vals)))
        return out

    def el(self, name, kids, extra=()):
        return ("elem", H, name, self.attrs(extra), kids)

    def text(self, no_leading_newline=False):
        s = self.rng.choice(TEXTS)
        if no_leading_newline:
            s = s.lstrip("\n") or "x"
        return ("text", s)

    def norm(self, kids):
        out = []
        for k in kids:
            if k[0] == "text" and out and out[-1][0] == "text":
                out[-1] = ("text", out[-1][1] + k[1])
            else:
                out.append(k)
        return out

    def phrasing(self, depth, in_a=False, in_button=False):
        out = []
        for _ in range(self.rng.randint(0, 3)):
            r = self.rng.random()
            if r < 0.4 or depth >= self.maxdepth:
                out.append(self.text())
            elif r < 0.6:
                out.append(self.el(self.rng.choice(PHRASING), self.phrasing(depth + 1, in_a, in_button)))
            elif r < 0.68 and not in_a and not in_button:
                out.append(self.el("a", self.phrasing(depth + 1, True, in_button), [(None, "href", self.rng.choice(["#x", "http://e/?a=1&b=2"]))]))
            elif r < 0.74:
                out.append(self.el("br", []))
            elif r < 0.80:
                out.append(self.el("img", [], [(None, "src", "i.png"), (None, "alt", self.rng.choice(["", "a<b"]))]))
            elif r < 0.85 and not in_button and not in_a:
                out.append(self.el("input", [], [(None, "type", "text")] + ([(None, "disabled", self.rng.choice(["", "disabled"]))] if self.rng.random() < 0.3 else [])))
            elif r < 0.89 and not in_button and not in_a:
                out.append(self.el("button", self.phrasing(depth + 1, in_a, True)))
            elif r < 0.93:
                out.append(("comment", self.rng.choice([" c ", "x", "a-b", ""])))
            elif r < 0.96 and not in_button and not in_a:
                out.append(self.select())
            else:
                out.append(self.el("ruby", self.norm([self.text(), self.el("rt", [self.text()]), self.el("rp", [self.text()])])))
        return self.norm(out)

    def select(self):
        kids = []
        for _ in range(self.rng.randint(0, 3)):
            if self.rng.random() < 0.6:
                kids.append(self.el("option", [self.text()] if self.rng.random() < 0.8 else []))
            else:
                kids.append(self.el("optgroup", [self.el("option", [self.text()]) for _ in range(self.rng.randint(0, 2))], [(None, "label", "g")]))
        return self.el("select", kids)

    def table(self, depth, in_form=False):
        kids = []
        if self.rng.random() < 0.3:
            kids.append(self.el("caption", self.phrasing(depth + 1)))
        if self.rng.random() < 0.3:
            kids.append(self.el("colgroup", [self.el("col", []) for _ in range(self.rng.randint(0, 2))]))

        def rows():
            return [self.el("tr", [self.el(self.rng.choice(["td", "th"]), self.flow(depth + 2, 2, in_form)) for _ in range(self.rng.randint(0, 3))])
                    for _ in range(self.rng.randint(0, 2))]
        if self.rng.random() < 0.3:
            kids.append(self.el("thead", rows()))
        for _ in range(self.rng.randint(1, 2)):
            kids.append(self.el("tbody", rows()))
        if self.rng.random() < 0.3:
            kids.append(self.el("tfoot", rows()))
        return self.el("table", kids)

    def flow(self, depth, n=3, in_form=False):
        out = []
        for _ in range(self.rng.randint(0, n)):
            r = self.rng.random()
            if depth >= self.maxdepth or r < 0.18:
                out.append(self.el("p", self.phrasing(depth + 1)))
            elif r < 0.30:
                out.append(self.el(self.rng.choice(SECTIONING), self.flow(depth + 1, 3, in_form)))
            elif r < 0.38:
                out.append(self.el(self.rng.choice(["ul", "ol"]), [self.el("li", self.flow(depth + 2, 2, in_form)) for _ in range(self.rng.randint(0, 3))]))
            elif r < 0.44:
                kids = []
                for _ in range(self.rng.randint(0, 2)):
                    kids.append(self.el("dt", self.phrasing(depth + 2)))
                    kids.append(self.el("dd", self.flow(depth + 2, 2, in_form)))
                out.append(self.el("dl", kids))
            elif r < 0.52:
                out.append(self.table(depth + 1, in_form))
            elif r < 0.58:
                out.append(self.el(self.rng.choice(["h1", "h2", "h3"]), self.phrasing(depth + 1)))
            elif r < 0.63:
                out.append(self.el("pre", self.norm([self.text(True)] + self.phrasing(depth + 1))))
            elif r < 0.67:
                out.append(self.el("textarea", [self.text(True)] if self.rng.random() < 0.8 else []))
            elif r < 0.70:
                out.append(self.el("hr", []))
            elif r < 0.74 and not in_form:
                out.append(self.el("form", self.flow(depth + 1, 2, True), [(None, "action", "/a")]))
            elif r < 0.78:
                out.append(self.el("fieldset", [self.el("legend", self.phrasing(depth + 2))] + self.flow(depth + 1, 2, in_form)))
            elif r < 0.81:
                out.append(self.el("details", [self.el("summary", self.phrasing(depth + 2))] + self.flow(depth + 1, 2, in_form)))
            elif r < 0.84:
                out.append(self.el("figure", [self.el("figcaption", self.phrasing(depth + 2))] + self.flow(depth + 1, 1, in_form)))
            elif r < 0.87:
                out.append(self.el("script", [("text", self.rng.choice(["var a = 1 < 2 && 3;", "x", "if (a<b) {}"]))] if self.rng.random() < 0.8 else []))
            elif r < 0.89:
                out.append(self.el("style", [("text", "p > a { color: red }")]))
            elif r < 0.905:
                # transparent content: ins/del/a may hold flow content where flow is allowed
                out.append(self.el(self.rng.choice(["ins", "del"]), self.flow(depth + 1, 2, in_form)))
            elif r < 0.93:
                out.append(("comment", " flow "))
            elif r < 0.96:
                out.append(("elem", gen.SVG_NS, "svg", [], [("elem", gen.SVG_NS, "g", [], [("elem", gen.SVG_NS, "path", [(None, "d", "M0 0")], [])]),
                                                           ("elem", gen.SVG_NS, "title", [], [("text", "t<")])] +
                            # SVG elements whose canonical names are mixed-case (adjusted by the parser from the lower-cased tag)
                            ([("elem", gen.SVG_NS, self.rng.choice(["linearGradient", "clipPath", "radialGradient", "textPath", "feBlend"]),
                               [(None, "id", "m")], [("elem", gen.SVG_NS, "rect", [(None, "width", "1")], [])])] if self.rng.random() < 0.5 else [])))
            else:
                out += self.phrasing(depth + 1)
        return self.norm(out)

    def document(self):
        head = []
        if self.rng.random() < 0.7:
            head.append(self.el("title", [("text", self.rng.choice(["t", "a & b", "<t>"]))]))
        for _ in range(self.rng.randint(0, 2)):
            head.append(self.el("meta", [], [(None, "name", "k"), (None, "content", self.rng.choice(["v", "a\"b"]))]))
        if self.rng.random() < 0.3:
            head.append(self.el("link", [], [(None, "rel", "stylesheet"), (None, "href", "s.css")]))
        if self.rng.random() < 0.2:
            head.append(self.el("style", [("text", "a{}")]))
        if self.rng.random() < 0.2:
            head.append(self.el("script", [("text", "1<2")]))
        body = self.flow(0, 4)
        if self.rng.random() < 0.06:
            body = [self.el(self.rng.choice(["meta", "link"]), [], [(None, "itemprop", "a"), (None, "content" if self.rng.random() < 0.5 else "href", "b")])] + body
        r = self.rng.random()
        if r < 0.10:
            body = [self.el("script", [("text", "a<b")])] + body
        elif r < 0.16:
            body = [self.el("style", [("text", "p{}")])] + body
        # inter-element whitespace and comments are allowed between the children of html
        r = self.rng.random()
        between = [("text", self.rng.choice(["\n", " ", "\n  "]))] if r < 0.15 else [("comment", " between ")] if r < 0.25 else []
        before = [("comment", "pre-head")] if self.rng.random() < 0.05 else []
        after = [("comment", "post-body")] if self.rng.random() < 0.05 else []
        html = ("elem", H, "html", self.attrs() if self.rng.random() < 0.3 else [],
                before + [("elem", H, "head", [], head)] + between + [("elem", H, "body", self.attrs() if self.rng.random() < 0.2 else [], body)] + after)
        return ("doc", [("doctype", "html", None, None), html])


def esc_text(s):
    return s.replace("&", "&amp;").replace("<", "&lt;").replace(">", "&gt;")


def esc_attr(s):
    return s.replace("&", "&amp;").replace('"', "&quot;")


def render(t):
    """explicit markup of a conforming tree"""
    k = t[0]
    if k in ("doc", "frag"):
        return "".join(render(c) for c in t[1])
    if k == "doctype":
        return "<!DOCTYPE %s>" % t[1]
    if k == "text":
        return esc_text(t[1])
    if k == "comment":
        return "<!--%s-->" % t[1]
    name = t[2]
    a = "".join(' %s="%s"' % (n, esc_attr(v)) for _, n, v in t[3])
    if name in VOID and t[1] == H:
        return "<%s%s>" % (name, a)
    if name in RAW and t[1] == H:
        inner = "".join(c[1] for c in t[4])
    else:
        inner = "".join(render(c) for c in t[4])
        if name in ("pre", "textarea", "listing") and inner.startswith("\n"):
            inner = "\n" + inner
    return "<%s%s>%s</%s>" % (name, a, inner, name)
