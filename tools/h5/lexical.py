"""Reference reading of serializer output: expected lexical tokens of a walker token stream and the
tokenizer state switches an HTML parser would make at each tag (the element context is known)."""
from . import gen, wire

RCDATA = {"title", "textarea"}
RAWTEXT = {"style", "xmp", "iframe", "noembed", "noframes"}


def lower(s):
    return "".join(chr(ord(c) + 32) if "A" <= c <= "Z" else c for c in s)


def qname(ns, name):
    from html5lib.constants import unadjustForeignAttributes as U
    if ns is None:
        return name
    return U.get((ns, name), name)


def plan(tokens, scripting=True, container=None):
    """-> (expected canonical tokens, switch words for the retok op)"""
    expected = []
    switches = []
    stack = []

    def top_foreign():
        return bool(stack) and stack[-1][0] not in (None, gen.HTML_NS)

    def text(s):
        if s == "":
            return
        if expected and expected[-1][0] == "C":
            expected[-1] = ("C", expected[-1][1] + s)
        else:
            expected.append(("C", s))
    for t in tokens:
        ty = t["type"]
        if ty in ("StartTag", "EmptyTag"):
            ns, name = t["namespace"], t["name"]
            attrs = []
            seen = set()
            for (ans, an), v in t["data"].items():
                q = lower(qname(ans, an))
                attrs.append((q, v))
            expected.append(("S", lower(name), attrs))
            state = "-"
            if ty == "StartTag":
                stack.append((ns, name))
                if ns in (None, gen.HTML_NS):
                    if name in RCDATA:
                        state = "rcdataState"
                    elif name in RAWTEXT or (name == "noscript" and scripting):
                        state = "rawtextState"
                    elif name == "script":
                        state = "scriptDataState"
                    elif name == "plaintext":
                        state = "plaintextState"
            switches.append("%s %s" % (state, "1" if top_foreign() else "0"))
        elif ty == "EndTag":
            if stack:
                stack.pop()
            expected.append(("E", lower(t["name"])))
            switches.append("- %s" % ("1" if top_foreign() else "0"))
        elif ty in ("Characters", "SpaceCharacters"):
            text(t["data"])
        elif ty == "Comment":
            expected.append(("M", t["data"]))
        elif ty == "Doctype":
            expected.append(("D", t["name"] if t["name"] else None, t["publicId"], t["systemId"]))
        else:
            expected.append(("?", ty))
    return expected, switches


def norm_actual(toks):
    """decoded canon tokens (spec_corr.dec_line) -> same shape as `plan` produces"""
    out = []
    for t in toks:
        if t[0] == "S":
            out.append(("S", t[1], list(t[2])))
        elif t[0] == "D":
            out.append(("D", t[1], t[2], t[3]))
        else:
            out.append(t)
    return out


def opts_word(o):
    return "%s %d %s %s %s %s %s %s %s" % (
        {"legacy": "l", "spec": "s", "always": "a"}[o.get("quote_attr_values", "legacy")],
        ord(o.get("quote_char", '"')),
        "0" if "quote_char" in o else ("1" if o.get("use_best_quote_char", True) else "0"),
        wire.enc_bool(o.get("minimize_boolean_attributes", True)),
        wire.enc_bool(o.get("use_trailing_solidus", False)),
        wire.enc_bool(o.get("space_before_trailing_solidus", True)),
        wire.enc_bool(o.get("escape_lt_in_attrs", False)),
        wire.enc_bool(o.get("escape_rcdata", False)),
        wire.enc_bool(o.get("resolve_entities", True)))


def random_opts(rng):
    o = {"omit_optional_tags": False}
    if rng.random() < 0.6:
        o["quote_attr_values"] = rng.choice(["legacy", "spec", "always"])
    if rng.random() < 0.3:
        o["quote_char"] = rng.choice(['"', "'"])
    elif rng.random() < 0.2:
        o["use_best_quote_char"] = False
    for k in ("minimize_boolean_attributes", "use_trailing_solidus", "space_before_trailing_solidus",
              "escape_lt_in_attrs", "escape_rcdata", "resolve_entities"):
        if rng.random() < 0.3:
            o[k] = rng.random() < 0.5
    return o


# The boolean-attribute table the recorded finding `boolean-attribute-value-minimised` is ABOUT (html5lib 1.1's table, pinned
# here): an attribute that is minimised although it is not in THIS table is a new violation, whatever the library's table says.
BOOLEAN_ATTRIBUTES_PINNED = {'': ['irrelevant', 'itemscope'], 'audio': ['autoplay', 'controls'], 'button': ['autofocus', 'disabled'], 'command': ['checked', 'default', 'disabled', 'hidden'], 'datagrid': ['disabled', 'multiple'], 'details': ['open'], 'fieldset': ['disabled', 'readonly'], 'hr': ['noshade'], 'iframe': ['seamless'], 'img': ['ismap'], 'input': ['autofocus', 'checked', 'disabled', 'ismap', 'readonly', 'required'], 'menu': ['autosubmit'], 'ol': ['reversed'], 'optgroup': ['disabled', 'readonly'], 'option': ['disabled', 'readonly', 'selected'], 'output': ['disabled', 'readonly'], 'script': ['async', 'defer'], 'select': ['autofocus', 'disabled', 'multiple', 'readonly'], 'style': ['scoped'], 'video': ['autoplay', 'controls']}
BOOLEAN_ATTRIBUTES_PINNED = {k: frozenset(v) for k, v in BOOLEAN_ATTRIBUTES_PINNED.items()}
