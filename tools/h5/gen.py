"""Shared, seeded generators (DESIGN 3.4). Every random choice comes from the rng passed in."""
import ast
import os

REPO = os.environ.get("H5_REPO", "/repo")

HTML_NS = "http://www.w3.org/1999/xhtml"
SVG_NS = "http://www.w3.org/2000/svg"
MATHML_NS = "http://www.w3.org/1998/Math/MathML"
XLINK_NS = "http://www.w3.org/1999/xlink"
XML_NS = "http://www.w3.org/XML/1998/namespace"
XMLNS_NS = "http://www.w3.org/2000/xmlns/"

TEXT_BITS = ["x", "a b", " ", "\n", "\t ", "  y  ", "<", "&", "&amp;", ">", "\"", "'", "=", "`", " ", " ",
             "\x0c", "é", "\U0001F600", "--", "-", "</", "]]>", "�", "z\r\n", "0", ";"]

ATTR_NAMES = ["id", "class", "href", "src", "title", "style", "checked", "disabled", "selected", "type", "charset",
              "http-equiv", "content", "lang", "a", "b", "xmlns", "action", "data-x", "onclick", "irrelevant", "hidden"]
ATTR_VALUES = ["", "x", "a b", "\"", "'", "'\"", "a=b", "<", ">", "&", "`", "a&amp;b", "é", " ", "text/html",
               "hidden", "checked", "disabled", "utf-8", "content-type", " ", "javascript:alert(1)", "/"]


def literals_in(relpath):
    """all string literals of a source file of the working tree (feeds name pools)"""
    with open(os.path.join(REPO, relpath), encoding="utf-8") as f:
        tree = ast.parse(f.read())
    out = set()
    for n in ast.walk(tree):
        if isinstance(n, ast.Constant) and isinstance(n.value, str) and 0 < len(n.value) < 20 \
                and all(c.isalnum() or c in "-_:" for c in n.value):
            out.add(n.value)
    return sorted(out)


def text(rng, maxbits=3):
    return "".join(rng.choice(TEXT_BITS) for _ in range(rng.randint(1, maxbits)))


def spaces(rng):
    return "".join(rng.choice(" \t\n\x0c\r") for _ in range(rng.randint(1, 3)))


def attrs(rng, p_empty=0.6, namespaced=True):
    d = {}
    if rng.random() < p_empty:
        return d
    for _ in range(rng.randint(1, 3)):
        if namespaced and rng.random() < 0.15:
            ns = rng.choice([XLINK_NS, XML_NS, XMLNS_NS])
            nm = rng.choice(["href", "lang", "xlink", "title", "a"])
        else:
            ns, nm = None, rng.choice(ATTR_NAMES)
        d[(ns, nm)] = rng.choice(ATTR_VALUES)
    return d


def token(rng, names, p_ns=0.2):
    """one walker-style token"""
    r = rng.random()
    nm = rng.choice(names)
    ns = rng.choice([None, HTML_NS, HTML_NS, SVG_NS, MATHML_NS]) if rng.random() < p_ns else HTML_NS
    if r < 0.34:
        return {"type": "StartTag", "name": nm, "namespace": ns, "data": attrs(rng)}
    if r < 0.62:
        return {"type": "EndTag", "name": nm, "namespace": ns}
    if r < 0.70:
        return {"type": "EmptyTag", "name": nm, "namespace": ns, "data": attrs(rng)}
    if r < 0.82:
        return {"type": "Characters", "data": text(rng)}
    if r < 0.91:
        return {"type": "SpaceCharacters", "data": spaces(rng)}
    if r < 0.96:
        return {"type": "Comment", "data": text(rng)}
    if r < 0.98:
        return {"type": "Doctype", "name": rng.choice(["html", "svg", None]), "publicId": rng.choice([None, "", "-//W3C//DTD HTML 4.01//EN"]),
                "systemId": rng.choice([None, "", "about:legacy-compat"])}
    return {"type": "Entity", "name": rng.choice(["amp", "lt", "nbsp", "bogus"])}


def token_stream(rng, names, maxlen=12):
    return [token(rng, names) for _ in range(rng.randint(0, maxlen))]


def balanced_stream(rng, names, depth=0, maxdepth=4, void=()):
    """a well-nested stream (as a walker would emit)"""
    out = []
    for _ in range(rng.randint(0, 4)):
        r = rng.random()
        if r < 0.5 and depth < maxdepth:
            nm = rng.choice(names)
            if nm in void:
                out.append({"type": "EmptyTag", "name": nm, "namespace": HTML_NS, "data": attrs(rng)})
            else:
                out.append({"type": "StartTag", "name": nm, "namespace": HTML_NS, "data": attrs(rng)})
                out += balanced_stream(rng, names, depth + 1, maxdepth, void)
                out.append({"type": "EndTag", "name": nm, "namespace": HTML_NS})
        elif r < 0.75:
            out.append({"type": "Characters", "data": text(rng)})
        elif r < 0.9:
            out.append({"type": "SpaceCharacters", "data": spaces(rng)})
        else:
            out.append({"type": "Comment", "data": text(rng)})
    return out


# ------------------------------------------------------------------------------------------
# G-soup: markup strings
HTML_TAGS = ["a", "b", "i", "p", "div", "span", "table", "tr", "td", "th", "tbody", "thead", "tfoot", "caption",
             "colgroup", "col", "select", "option", "optgroup", "ul", "ol", "li", "dl", "dt", "dd", "pre", "textarea",
             "title", "style", "script", "noscript", "xmp", "iframe", "noembed", "noframes", "plaintext", "br", "hr",
             "img", "input", "meta", "link", "form", "button", "h1", "h2", "nobr", "font", "em", "strong", "ruby",
             "rt", "rp", "svg", "math", "html", "head", "body", "frameset", "frame", "applet", "marquee", "object",
             "listing", "image", "isindex", "template", "main", "section", "address", "base", "embed", "area",
             # names with a colon (minidom splits them), braces (Clark notation of etree tags), non-ASCII case pairs
             "o:p", "x:li", "a:b:c", "x}y", "x}", "a{b}c", "{u}v"]
FOREIGN_TAGS = ["svg", "math", "foreignObject", "desc", "title", "mi", "mo", "mn", "ms", "mtext", "annotation-xml",
                "g", "path", "circle", "mglyph", "malignmark", "style", "script", "font", "a",
                "param", "source", "input", "link", "area", "col", "track", "base"]   # void names in foreign content
ATTR_SRC = [' id=x', ' class="a b"', " title='q'", ' href="http://e/x?a=1&b=2"', ' checked', ' disabled=disabled',
            ' type=hidden', ' encoding=text/html', ' color=red', ' xlink:href="#a"', ' xml:lang=en', ' A=1 a=2',
            ' style="color: red"', ' data-x="<>&"', " v='\"'", ' charset=utf-8', ' http-equiv=content-type content="text/html; charset=x"',
            ' onclick="x"', ' definitionurl=x', ' x="&amp;&lt;"', ' src=javascript:1',
            # values that stay unquoted in legacy/spec mode and contain an ampersand / look like references after one decoding
            ' title=a&amp;b', ' href=&amp;#106;avascript:alert(1)', ' alt=&amp;', ' src=&amp;#x6a;avascript&amp;colon;1', ' y=&amp;amp;',
            ' z=x&amp;copy', ' title=\u00c9COLE', ' alt=\u00dcber=1',
            # one unparseable URL next to other URI attributes on the same tag
            ' href="http://[/" cite="javascript:alert(1)" longdesc="javascript:alert(1)" src="javascript:x"',
            ' cite="h://]" href="javascript:alert(1)" longdesc="javascript:alert(1)" poster="javascript:x"',
            ' longdesc="http://[/" href="javascript:alert(1)" cite="javascript:alert(1)" action="javascript:x"']
TEXT_SRC = ["x", "hello world", " ", "\n", "  \t\n ", "&amp;", "&lt;b&gt;", "&notit;", "&#x41;", "&#0;", "&#x80;", "&bogus;", "&",
            "<", ">", "a &#32; b", "é", "\U0001F600", "\x00", "--", "]]>", "\x0c", "=\"'`",
            "\u00a0x", "y\u00a0", "\u2003", "&nbsp; z &nbsp;", "\u3000w\u000b", "\x1c"]
MISC_SRC = ["<!-- c -->", "<!---->", "<!-- a--b -->", "<!>", "<?pi?>", "<![CDATA[x]]>", "<!DOCTYPE html>",
            '<!DOCTYPE html PUBLIC "-//W3C//DTD HTML 4.01//EN" "http://www.w3.org/TR/html4/strict.dtd">',
            "<!doctype html SYSTEM 'about:legacy-compat'>", "</", "</ >", "<a/>", "<br/>", "< ",
            "<!DOCTYPE html PUBLIC \"-//W3C//DTD HTML 4.01//EN\" 'say \"hi\"'>", "<!DOCTYPE html SYSTEM 'a\"b'>",
            "<!DOCTYPE html PUBLIC \"-//W3C//DTD HTML 4.01 Transitional//EN\" \"\">", "<!DOCTYPE html PUBLIC '-//W3C//DTD HTML 4.01 Frameset//EN' ''>"]


def soup(rng, maxparts=12, foreign=True):
    parts = []
    stack = []
    for _ in range(rng.randint(0, maxparts)):
        r = rng.random()
        if r < 0.38:
            pool = FOREIGN_TAGS if (foreign and stack and stack[-1] in ("svg", "math", "g", "foreignObject", "annotation-xml")
                                    and rng.random() < 0.6) else HTML_TAGS
            t = rng.choice(pool)
            if rng.random() < 0.08:
                t = t.upper()
            a = "".join(rng.choice(ATTR_SRC) for _ in range(rng.choice([0, 0, 0, 1, 1, 2])))
            parts.append("<%s%s%s>" % (t, a, "/" if rng.random() < 0.05 else ""))
            stack.append(t.lower())
        elif r < 0.62:
            if stack and rng.random() < 0.7:
                t = stack.pop(rng.choice([-1, -1, -1, 0]) if len(stack) > 1 else -1)
            else:
                t = rng.choice(HTML_TAGS)
            parts.append("</%s>" % t)
        elif r < 0.90:
            parts.append(rng.choice(TEXT_SRC))
        else:
            parts.append(rng.choice(MISC_SRC))
    return "".join(parts)


def parse_real(text, tb="etree", fragment=None, **kw):
    import html5lib
    full = kw.pop("full", False)
    builder = html5lib.getTreeBuilder(tb, fullTree=True) if (full and tb == "etree") else html5lib.getTreeBuilder(tb)
    p = html5lib.HTMLParser(tree=builder, namespaceHTMLElements=kw.pop("ns", True))
    if fragment is not None:
        return p.parseFragment(text, container=fragment, **kw)
    return p.parse(text, **kw)


def walk_real(tree, kind="etree"):
    import html5lib
    return list(html5lib.getTreeWalker(kind)(tree))
