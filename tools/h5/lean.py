"""Building, auditing and driving the Lean development."""
import json
import os
import re
import subprocess
import time
from concurrent.futures import ThreadPoolExecutor

VERIF = os.path.dirname(os.path.dirname(os.path.dirname(os.path.abspath(__file__))))
LEAN = os.path.join(VERIF, "lean")
DRIVER = os.path.join(LEAN, ".lake", "build", "bin", "driver")
ALLOWED_AXIOMS = {"propext", "Classical.choice", "Quot.sound"}
FORBIDDEN = re.compile(r"\b(sorry|admit|native_decide|bv_decide|implemented_by|unsafe)\b|^axiom\s|maxHeartbeats\s+0", re.M)


def sh(cmd, timeout=3600, cwd=LEAN):
    t0 = time.time()
    p = subprocess.run(cmd, cwd=cwd, stdout=subprocess.PIPE, stderr=subprocess.STDOUT, timeout=timeout, text=True)
    return p.returncode, p.stdout, time.time() - t0


def strip_comments(text):
    # remove /- ... -/ (nested) and -- comments
    out = []
    i, depth, n = 0, 0, len(text)
    while i < n:
        if text.startswith("/-", i):
            depth += 1
            i += 2
        elif depth and text.startswith("-/", i):
            depth -= 1
            i += 2
        elif depth:
            if text[i] == "\n":
                out.append("\n")
            i += 1
        elif text.startswith("--", i):
            while i < n and text[i] != "\n":
                i += 1
        else:
            out.append(text[i])
            i += 1
    return "".join(out)


def theorems_in(module):
    """names of the theorems stated in a Props module, with line numbers"""
    path = os.path.join(LEAN, module.replace(".", "/") + ".lean")
    text = strip_comments(open(path, encoding="utf-8").read())
    ns = re.search(r"^namespace\s+(\S+)", text, re.M)
    ns = ns.group(1) if ns else ""
    out = []
    for m in re.finditer(r"^(?:@\[[^\]]*\]\s*)?theorem\s+(\S+)", text, re.M):
        line = text.count("\n", 0, m.start()) + 1
        out.append((ns + "." + m.group(1) if ns else m.group(1), line))
    return out


def module_closure(module, seen=None):
    """project-local modules imported (transitively) by `module`"""
    seen = seen if seen is not None else []
    if module in seen:
        return seen
    path = os.path.join(LEAN, module.replace(".", "/") + ".lean")
    if not os.path.exists(path):
        return seen
    seen.append(module)
    for m in re.finditer(r"^import\s+(\S+)", open(path, encoding="utf-8").read(), re.M):
        if m.group(1).startswith("H5.") or m.group(1).startswith("Driver"):
            module_closure(m.group(1), seen)
    return seen


def forbidden_tokens(module):
    hits = []
    for mod in module_closure(module):
        path = os.path.join(LEAN, mod.replace(".", "/") + ".lean")
        text = strip_comments(open(path, encoding="utf-8").read())
        for m in FORBIDDEN.finditer(text):
            hits.append("%s: %s" % (mod, m.group(0).strip()))
    return hits


def build(targets, timeout=3000):
    rc, out, dt = sh(["lake", "build"] + list(targets), timeout=timeout)
    errors = []
    for m in re.finditer(r"^error: (H5/\S+?\.lean):(\d+):(\d+): (.*)$", out, re.M):
        errors.append({"file": m.group(1), "line": int(m.group(2)), "msg": m.group(4)[:300]})
    return {"ok": rc == 0, "rc": rc, "log": out[-6000:], "errors": errors, "wall_s": round(dt, 2)}


def failing_theorems(module, errors):
    """map error lines in the Props module to theorem names"""
    ths = theorems_in(module)
    rel = module.replace(".", "/") + ".lean"
    bad = set()
    for e in errors:
        if e["file"] != rel:
            continue
        cur = None
        for name, line in ths:
            if line <= e["line"]:
                cur = name
        if cur:
            bad.add(cur)
    return sorted(bad)


def print_axioms(module, names):
    """#print axioms for each theorem; returns {name: [axioms]}"""
    if not names:
        return {"axioms": {}, "missing": [], "rc": 0, "log": ""}
    os.makedirs(os.path.join(LEAN, ".audit"), exist_ok=True)
    path = os.path.join(LEAN, ".audit", module.replace(".", "_") + ".lean")
    with open(path, "w") as f:
        f.write("import %s\n" % module)
        for n in names:
            f.write("#print axioms %s\n" % n)
    rc, out, dt = sh(["lake", "env", "lean", path], timeout=1200)
    res = {}
    for m in re.finditer(r"'([^']+)' depends on axioms: \[([^\]]*)\]", out):
        res[m.group(1)] = [a.strip() for a in m.group(2).replace("\n", " ").split(",") if a.strip()]
    for m in re.finditer(r"'([^']+)' does not depend on any axioms", out):
        res[m.group(1)] = []
    missing = [n for n in names if n not in res]
    return {"axioms": res, "missing": missing, "rc": rc, "log": out[-2000:] if (rc or missing) else ""}


def run_driver(lines, shards=None, timeout=3000, exe=None):
    """send request lines to the compiled driver (sharded over cores); return response lines"""
    lines = list(lines)
    if not lines:
        return []
    for ln in lines:
        assert "\n" not in ln
    ncpu = os.cpu_count() or 4
    shards = shards or max(1, min(ncpu, len(lines) // 200 + 1))
    size = (len(lines) + shards - 1) // shards
    parts = [lines[i:i + size] for i in range(0, len(lines), size)]

    def one(part):
        p = subprocess.run([exe or DRIVER], input="\n".join(part) + "\n", stdout=subprocess.PIPE,
                           stderr=subprocess.PIPE, text=True, timeout=timeout)
        out = p.stdout.split("\n")
        if out and out[-1] == "":
            out.pop()
        if p.returncode != 0 or len(out) != len(part):
            raise RuntimeError("driver failed rc=%s got %d lines for %d requests: %s" %
                               (p.returncode, len(out), len(part), p.stderr[-500:]))
        return out

    with ThreadPoolExecutor(max_workers=len(parts)) as ex:
        res = list(ex.map(one, parts))
    return [x for part in res for x in part]
