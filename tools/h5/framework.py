"""The check driver shared by all properties (DESIGN section 4).

A property module (tools/props/Cxx.py) provides:
  ID, PROPS_MODULE, GEN_MODULES (names of Gen generators the theorems depend on),
  TRUSTED (list of strings), LEVEL ('proof' | 'translation_validation' | ...),
  run(ctx) -> None     fills ctx with correspondence results and oracle failures
"""
import argparse
import hashlib
import json
import os
import random
import sys
import time
import traceback

from . import lean

VERIF = lean.VERIF
REPO = os.environ.get("H5_REPO", "/repo")
EVID = os.environ.get("H5_EVIDENCE_DIR") or os.path.join(VERIF, "evidence")
REPLAY = os.path.join(EVID, "replay")
KNOWN = os.path.join(VERIF, "known_findings.json")


class Ctx:
    def __init__(self, pid, tier, seed):
        self.pid = pid
        self.tier = tier
        self.seed = seed
        self.rng = random.Random(seed * 1000003 + int(pid[1:]))
        self.t0 = time.time()
        self.evaluations = 0
        self.nontrivial = set()      # hashes of distinct non-trivial cases
        self.samples = []
        self.disagreements = []      # model != implementation: {op, request, real, model}
        self.failures = []           # property fails on the real code: {class, what, input, ...}
        self.ops = {}                # per-op counters
        self.dist = {}               # generator distribution counters
        self.notes = []
        self.rule = ""
        self.driver_ok = True

    def scale(self, quick, thorough):
        return thorough if self.tier == "thorough" else quick

    def count(self, key, n=1, table=None):
        t = self.dist if table is None else table
        t[key] = t.get(key, 0) + n

    def case(self, op, key, nontrivial=True, sample=None):
        self.evaluations += 1
        self.ops[op] = self.ops.get(op, 0) + 1
        if nontrivial:
            self.nontrivial.add(hashlib.md5(("%s|%s" % (op, key)).encode("utf-8", "surrogatepass")).digest()[:8])
        if sample is not None and len(self.samples) < 12 and self.rng.random() < 0.3:
            self.samples.append(sample)

    def disagree(self, op, request, real, model, **extra):
        d = {"op": op, "request": request[:2000], "real": real[:2000], "model": model[:2000]}
        d.update(extra)
        self.disagreements.append(d)

    def fail(self, cls, what, inp, **extra):
        f = {"class": cls, "what": what, "input": inp}
        f.update(extra)
        self.failures.append(f)

    def compare(self, op, requests, reals, models, inputs=None):
        """diff model and real responses line by line"""
        from .wire import same
        for i, (rq, r, m) in enumerate(zip(requests, reals, models)):
            if not same(r, m):
                extra = {"input": inputs[i]} if inputs else {}
                self.disagree(op, rq, r, m, **extra)


def load_known():
    if not os.path.exists(KNOWN):
        return {"findings": [], "fixed": []}
    return json.load(open(KNOWN))


def write_replay(pid, seed, k, payload):
    os.makedirs(REPLAY, exist_ok=True)
    path = os.path.join(REPLAY, "%s_seed%d_%d.json" % (pid, seed, k))
    with open(path, "w") as f:
        json.dump(payload, f, indent=1, ensure_ascii=True, default=repr)
    return path


def source_hashes(files):
    out = {}
    for rel in files:
        p = os.path.join(REPO, rel)
        if os.path.exists(p):
            out[rel] = hashlib.sha256(open(p, "rb").read()).hexdigest()[:16]
    return out


def run_check(mod, tier, seed, replay=None):
    pid = mod.ID
    ctx = Ctx(pid, tier, seed)
    t0 = time.time()
    sys.path.insert(0, os.path.join(VERIF, "tools"))
    import extract
    out_lines = []
    broken = []           # names of theorems / correspondences / generators that no longer check

    # 1. regenerate Gen from /repo's working tree
    status = extract.main()
    gen_status = {g: status.get(g, {"ok": False, "error": "generator missing"}) for g in mod.GEN_MODULES}
    for g, st in gen_status.items():
        if not st.get("ok"):
            broken.append("translator:%s (%s)" % (g, st.get("error", "")[:200]))

    # 2. build the property's theorems and the driver
    modules = [mod.PROPS_MODULE] + list(getattr(mod, "EXTRA_PROPS_MODULES", []))
    b = lean.build(modules)
    ths = [n for m in modules for n, _ in lean.theorems_in(m)]
    discharged = []
    axioms = {}
    if b["ok"]:
        axioms = {}
        for m in modules:
            axioms.update(lean.print_axioms(m, [n for n, _ in lean.theorems_in(m)])["axioms"])
        for n in ths:
            if n in axioms and set(axioms[n]) <= lean.ALLOWED_AXIOMS:
                discharged.append(n)
            else:
                broken.append("theorem:%s (axioms %s)" % (n, axioms.get(n, "unavailable")))
        forb = [x for m in modules for x in lean.forbidden_tokens(m)]
        if forb:
            broken.append("audit:forbidden tokens %s" % forb[:5])
            discharged = []
    else:
        bad = [x for m in modules for x in lean.failing_theorems(m, b["errors"])]
        if bad:
            broken += ["theorem:%s" % n for n in bad]
            # theorems after a failing one in the same file are not checked by Lean either way
            discharged = []
        else:
            broken.append("build:%s" % (b["errors"][0] if b["errors"] else b["log"][-400:]))
    db = lean.build(["driver"])
    ctx.driver_ok = db["ok"]
    if not db["ok"]:
        broken.append("build:driver %s" % (db["errors"][:1] or db["log"][-300:]))
    # auxiliary executables of this property only (ops whose definitions live next to theorem modules)
    ctx.aux_ok = {}
    for exe in getattr(mod, "EXTRA_EXES", []):
        xb = lean.build([exe])
        ctx.aux_ok[exe] = xb["ok"]
        if not xb["ok"] and b["ok"]:
            broken.append("build:%s %s" % (exe, xb["errors"][:1] or xb["log"][-300:]))

    if tier == "thorough" and b["ok"] and getattr(mod, "LEANCHECKER", True):
        rc, out, dt = lean.sh(["lake", "env", "leanchecker"] + modules, timeout=3000)
        ctx.notes.append("leanchecker %s rc=%d (%.0fs)" % (mod.PROPS_MODULE, rc, dt))
        if rc != 0:
            broken.append("leanchecker:%s %s" % (mod.PROPS_MODULE, out[-300:]))

    # 3. correspondence + oracle on the real code (always; this is also the failing-input search)
    ctx.broken = broken
    ctx.gen_status = gen_status
    known = load_known()
    mine = [k for k in known.get("findings", []) if k["property"] == pid]
    try:
        for k in mine:                      # recorded findings: replay each witness on the real code first
            if hasattr(mod, "witness_case") and k.get("witness") is not None:
                mod.witness_case(ctx, k["witness"])
        mod.run(ctx)
    except Exception:
        print("INTERNAL: harness failure\n" + traceback.format_exc())
        return 2

    # 4. verdict
    known_classes = {k["class"]: k for k in mine}
    new_failures = [f for f in ctx.failures if f["class"] not in known_classes]
    seen_known = {}
    for f in ctx.failures:
        if f["class"] in known_classes:
            seen_known.setdefault(f["class"], f)
    rc = 0
    k = 0
    for cls, f in sorted(seen_known.items()):
        out_lines.append("KNOWN-FINDING: property=%s %s [%s]" % (pid, known_classes[cls]["what_fails"], cls))
    if new_failures:
        rc = 1
        # one VIOLATION line per distinct class (first witness each)
        done = set()
        for f in new_failures:
            if f["class"] in done or len(done) >= 5:
                continue
            done.add(f["class"])
            path = write_replay(pid, seed, k, {"property": pid, "kind": "failing-input", "failure": f,
                                               "broken": broken, "seed": seed, "tier": tier,
                                               "sources": source_hashes(mod.SOURCES)})
            k += 1
            out_lines.append("VIOLATION property=%s replay=%s" % (pid, path))
    elif broken or ctx.disagreements:
        rc = 1
        path = write_replay(pid, seed, k, {"property": pid, "kind": "no-failing-input-found",
                                           "no_longer_checks": broken,
                                           "disagreements": ctx.disagreements[:20],
                                           "build_log": b["log"][-3000:] if not b["ok"] else "",
                                           "gen_status": gen_status,
                                           "seed": seed, "tier": tier,
                                           "sources": source_hashes(mod.SOURCES)})
        out_lines.append("VIOLATION property=%s replay=%s no-failing-input-found" % (pid, path))

    # 5. evidence
    wall = time.time() - t0
    obligations = len(ths) + len(mod.GEN_MODULES) + len(getattr(mod, "CORRESPONDENCE_OPS", []))
    n_ok = len(discharged) + sum(1 for s in gen_status.values() if s.get("ok")) + \
        (len(getattr(mod, "CORRESPONDENCE_OPS", [])) if not ctx.disagreements and ctx.driver_ok else 0)
    ev = {
        "property_id": pid, "tier": tier, "seed": seed, "level": mod.LEVEL,
        "coverage": {
            "obligations": obligations,
            "discharged": n_ok,
            "theorems": ths,
            "theorems_discharged": discharged,
            "axioms": axioms,
            "no_longer_checks": broken,
            "checker_cmd": "lake build %s && #print axioms (each theorem) && grep audit%s" %
                           (mod.PROPS_MODULE, " && leanchecker" if tier == "thorough" else ""),
            "trusted_base": ["Lean 4.33.0 kernel", "axioms: propext, Classical.choice, Quot.sound only",
                             "tools/extract.py + tools/pylite.py (translator/extraction)",
                             "correspondence harness tools/props/%s.py" % pid] + list(mod.TRUSTED),
            "evaluations": ctx.evaluations,
            "distinct_nontrivial": len(ctx.nontrivial),
            "rule": ctx.rule or getattr(mod, "RULE", ""),
            "samples": ctx.samples[:12] or ["(none)"],
            "ops": ctx.ops,
            "generator_distribution": ctx.dist,
            "traces_validated_against_impl": ctx.evaluations,
            "disagreements": len(ctx.disagreements),
            "programs": max(ctx.evaluations, 1),
            "disagreements_checked": len(ctx.disagreements),
            "explanation": getattr(mod, "EXPLANATION", "") or (ctx.rule or getattr(mod, "RULE", "")),
            "gen_status": {g: {k2: v for k2, v in s.items() if k2 != "trace"} for g, s in gen_status.items()},
            "sources": source_hashes(mod.SOURCES),
            "known_findings_reproduced": sorted(seen_known),
            "notes": ctx.notes,
            "build_wall_s": b["wall_s"],
        },
        "assumptions": list(mod.TRUSTED),
        "wall_s": round(wall, 2),
        "violations": len(new_failures) if new_failures else (1 if rc else 0),
    }
    os.makedirs(EVID, exist_ok=True)
    with open(os.path.join(EVID, pid + ".json"), "w") as f:
        json.dump(ev, f, indent=1, ensure_ascii=True, default=repr)
    for ln in out_lines:
        print(ln)
    print("%s tier=%s seed=%d: theorems %d/%d, evaluations %d (distinct non-trivial %d), disagreements %d, "
          "failures %d (new %d), broken %d, %.1fs -> exit %d" %
          (pid, tier, seed, len(discharged), len(ths), ctx.evaluations, len(ctx.nontrivial),
           len(ctx.disagreements), len(ctx.failures), len(new_failures), len(broken), wall, rc))
    if broken:
        for x in broken[:10]:
            print("  no longer checks:", x)
    for d in ctx.disagreements[:3]:
        print("  disagreement:", json.dumps(d, default=repr)[:600])
    return rc


def main():
    ap = argparse.ArgumentParser()
    ap.add_argument("prop", nargs="?")
    ap.add_argument("--tier", default=os.environ.get("VERIF_TIER", "quick"))
    ap.add_argument("--replay")
    ap.add_argument("--setup", action="store_true")
    a = ap.parse_args()
    raw_seed = os.environ.get("VERIF_SEED", "0") or "0"
    try:
        seed = int(raw_seed)
    except ValueError:
        import zlib
        seed = zlib.crc32(raw_seed.encode("utf-8", "replace"))
    sys.path.insert(0, os.path.join(VERIF, "tools"))
    if a.setup:
        import extract
        st = extract.main()
        bad = [k for k, v in st.items() if not v["ok"]]
        print("extract:", len(st), "generators;", "failed:", bad)
        # everything: models, driver and every theorem module, so that the per-property checks start from a warm build
        props = sorted("H5.Props." + f[:-5] for f in os.listdir(os.path.join(VERIF, "lean", "H5", "Props")) if f.endswith(".lean"))
        b = lean.build(["H5", "driver"], timeout=6000)
        print(b["log"][-3000:])
        if b["ok"]:
            # best effort: a theorem module that no longer builds is reported by its own property check, not by setup
            pb = lean.build(props, timeout=6000)
            print("theorem modules: %s (%.0fs)" % ("all built" if pb["ok"] else "some failed to build (see the property checks)", pb["wall_s"]))
        return 0 if b["ok"] else 1
    import importlib
    mod = importlib.import_module("props." + a.prop)
    if a.replay:
        return mod.replay(a.replay)
    return run_check(mod, a.tier, seed)
