"""Python side of the driver's line protocol (mirror of lean/H5/Wire.lean)."""


def enc_str(s):
    if s == "":
        return "-"
    return ".".join("%x" % ord(c) for c in s)


def enc_bytes(b):
    if len(b) == 0:
        return "-"
    return ".".join("%x" % c for c in b)


def enc_ostr(s):
    return "~" if s is None else enc_str(s)


def enc_list(items):
    items = list(items)
    return " ".join([str(len(items))] + items)


def enc_attrs(data):
    return enc_list("%s %s %s" % (enc_ostr(ns), enc_str(name), enc_str(value))
                    for (ns, name), value in data.items())


def enc_tok(t):
    ty = t["type"]
    if ty == "Doctype":
        return "D %s %s %s" % (enc_ostr(t.get("name")), enc_ostr(t.get("publicId")), enc_ostr(t.get("systemId")))
    if ty == "Characters":
        return "C " + enc_str(t["data"])
    if ty == "SpaceCharacters":
        return "W " + enc_str(t["data"])
    if ty == "StartTag":
        return "S %s %s %s" % (enc_ostr(t.get("namespace")), enc_str(t["name"]), enc_attrs(t["data"]))
    if ty == "EndTag":
        return "E %s %s" % (enc_ostr(t.get("namespace")), enc_str(t["name"]))
    if ty == "EmptyTag":
        return "V %s %s %s" % (enc_ostr(t.get("namespace")), enc_str(t["name"]), enc_attrs(t["data"]))
    if ty == "Comment":
        return "M " + enc_str(t["data"])
    if ty == "Entity":
        return "Y " + enc_str(t["name"])
    if ty == "SerializeError":
        return "X " + enc_str(t["data"])
    raise ValueError("unknown token type %r" % ty)


def enc_otok(t):
    return "~" if t is None else enc_tok(t)


def enc_toks(ts):
    return enc_list(enc_tok(t) for t in ts)


def enc_bool(b):
    return "1" if b else "0"


def exc_tag(e):
    """canonical name of a Python exception, matching PyErr.tag's prefix"""
    return "err " + type(e).__name__


def same(real, model):
    """compare a real-side response with a model-side response.
    'err X:site' on the model side matches 'err X' on the real side."""
    if real == model:
        return True
    if real.startswith("err ") and model.startswith("err "):
        return model[4:].split(":")[0] == real[4:].split(":")[0]
    return False


def copy_tok(t):
    c = dict(t)
    if isinstance(c.get("data"), dict):
        c["data"] = type(c["data"])(c["data"])
    return c
