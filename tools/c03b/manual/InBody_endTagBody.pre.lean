instance Fr_InBody_endTagBody_loop : ∀ l, Fr (InBody_endTagBody.loop l)
  | [] => by unfold InBody_endTagBody.loop; hb_auto
  | node :: rest => by
    unfold InBody_endTagBody.loop
    haveI := Fr_InBody_endTagBody_loop rest
    hb_auto
