instance RO_orM (a b : M Bool) [RO a] [RO b] : RO (TB.orM a b) := by unfold TB.orM; hb_auto
