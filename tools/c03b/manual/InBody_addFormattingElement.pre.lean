instance RO_InBody_addFormattingElement_scan (element : NodeId) :
    ∀ l acc, RO (InBody_addFormattingElement.scan element l acc)
  | [], acc => by unfold InBody_addFormattingElement.scan; hb_auto
  | none :: _, acc => by unfold InBody_addFormattingElement.scan; hb_auto
  | some node :: rest, acc => by
    unfold InBody_addFormattingElement.scan
    haveI : ∀ acc, RO (InBody_addFormattingElement.scan element rest acc) :=
      RO_InBody_addFormattingElement_scan element rest
    hb_auto
