theorem pyIndex_some_ge {α : Type} (l : List α) (i : Int) (x : α) (h : pyIndex l i = some x) :
    -(l.length : Int) ≤ i := by
  unfold pyIndex at h
  split at h
  · dsimp only at h
    split at h
    · cases h
    · omega
  · omega

/-- loop invariant of the `while True` loop of `InForeignContentPhase.processEndTag`: `nodeIndex` only decreases and
`openElements[nodeIndex]` raises `IndexError` below `-len`; `nodeIndex + len + 2` bounds the remaining iterations -/
theorem InForeignContent_processEndTag_loop_tr {r : Rec} {n : Nat} (hr : RecOK r n) (h : 2 < n) (tok : Token)
    (name : Str) : ∀ (fuel : Nat) (nodeIndex : Int) (node : NodeId) (st : PState), PhInv st →
      -(st.openElements.length : Int) ≤ nodeIndex → nodeIndex + st.openElements.length + 2 ≤ fuel →
      Tr (InForeignContent_processEndTag_loop r tok name fuel nodeIndex node) st (fun _ st' => PhInv st') := by
  intro fuel
  induction fuel with
  | zero => intro nodeIndex node st hi h1 h2; omega
  | succ fuel ih =>
    intro nodeIndex node st hi h1 h2
    haveI := Pv_InTableText_flushCharacters hr (show 0 < n by omega)
    unfold InForeignContent_processEndTag_loop
    simp only [Tr_bind]
    apply Tr_RO
    intro nm
    split
    · simp only [Tr_bind, Tr_getPhase]
      have hpost : ∀ st1, PhInv st1 →
          Tr (InForeignContent_popTo node (st1.openElements.length + 1)) st1 (fun _ st' => PhInv st') := by
        intro st1 hi1
        refine Tr_mono (InForeignContent_popTo_tr node _ st1 (by omega)) ?_
        intro _ st' hp
        exact PhInv_of_F hp.1.F hi1
      split
      · simp only [Tr_bind]
        apply Tr_Pv _ _ hi
        intro _ st1 hi1
        apply Tr_Pv _ _ hi1
        intro _ st2 hi2
        simp only [Tr_bind, Tr_pure, Tr_openElems]
        exact Tr_mono (hpost st2 hi2) (fun _ _ h => h)
      · simp only [Tr_bind, Tr_pure, Tr_openElems]
        exact Tr_mono (hpost st hi) (fun _ _ h => h)
    · simp only [Tr_bind, Tr_openElems]
      split
      · rename_i x hx
        have hge := pyIndex_some_ge _ _ _ hx
        simp only [Tr_pure]
        apply Tr_RO
        intro ns
        simp only [Tr_getCfg]
        split
        · exact ih _ _ st hi hge (by omega)
        · simp only [Tr_bind, Tr_curPhase]
          intro p hp
          have hne : p ≠ .inForeignContent := by
            intro he; rw [he] at hp; exact hi.1 hp
          exact (hr.E p tok (needE_lt tok hne h)).out st hi
      · exact NF_indexError _

theorem Pv_InForeignContent_processEndTag {r : Rec} {n : Nat} (hr : RecOK r n) (tok : Token) (h : 2 < n) :
    Pv (InForeignContent_processEndTag r tok) :=
  ⟨fun st hi => by
    unfold InForeignContent_processEndTag
    simp only [Tr_bind, Tr_monadLift, Tr_lift, Post_bind, Tr_openElems, Tr_openLast]
    apply Post_ENF
    intro d x hx
    have hpos := getLast?_length_pos hx
    apply Tr_RO
    intro nm
    have hfin : ∀ st1, PhInv st1 → st1.openElements = st.openElements →
        Tr (InForeignContent_processEndTag_loop r tok d.name (2 * st.openElements.length + 2)
          (↑st.openElements.length - 1) x) st1 (fun _ st' => PhInv st') := by
      intro st1 hi1 he
      exact InForeignContent_processEndTag_loop_tr hr h tok d.name _ _ _ st1 hi1 (by rw [he]; omega)
        (by rw [he]; push_cast; omega)
    split
    · simp only [Tr_bind]
      refine Tr_mono ((KeepsOpen_parseError _ _).out st) ?_
      intro _ st1 ⟨ho, hf⟩
      exact hfin st1 (PhInv_of_F hf hi) ho
    · exact hfin st hi rfl⟩
