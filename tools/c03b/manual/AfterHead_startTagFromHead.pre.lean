instance Fr_AfterHead_startTagFromHead_loop : ∀ l, Fr (AfterHead_startTagFromHead.loop l)
  | [] => by unfold AfterHead_startTagFromHead.loop; hb_auto
  | node :: rest => by
    unfold AfterHead_startTagFromHead.loop
    haveI := Fr_AfterHead_startTagFromHead_loop rest
    hb_auto
