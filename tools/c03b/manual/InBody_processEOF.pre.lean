instance Fr_InBody_processEOF_loop : ∀ l, Fr (InBody_processEOF.loop l)
  | [] => by unfold InBody_processEOF.loop; hb_auto
  | node :: rest => by
    unfold InBody_processEOF.loop
    haveI := Fr_InBody_processEOF_loop rest
    hb_auto
