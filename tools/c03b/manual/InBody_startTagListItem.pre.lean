theorem Pv_InBody_startTagListItem_loop {r : Rec} {n : Nat} (hr : RecOK r n) (h : 2 < n) (site : String)
    (stopNames : List Str) : ∀ l, Pv (InBody_startTagListItem.loop r site stopNames l)
  | [] => by unfold InBody_startTagListItem.loop; hb_auto
  | node :: rest => by
    unfold InBody_startTagListItem.loop
    haveI := Pv_InBody_startTagListItem_loop hr h site stopNames rest
    hb_auto
