instance RO_InBody_endTagFormatting_outer_findBlock : ∀ l, RO (InBody_endTagFormatting_outer.findBlock l)
  | [] => by unfold InBody_endTagFormatting_outer.findBlock; hb_auto
  | e :: rest => by
    unfold InBody_endTagFormatting_outer.findBlock
    haveI := RO_InBody_endTagFormatting_outer_findBlock rest
    hb_auto

theorem InBody_endTagFormatting_outer_tr (tok : Token) : ∀ n st,
    Tr (InBody_endTagFormatting_outer tok n) st (fun _ st' => F st' = F st) := by
  intro n
  induction n with
  | zero => intro st; unfold InBody_endTagFormatting_outer; rfl
  | succ n ih =>
    intro st
    unfold InBody_endTagFormatting_outer
    repeat' (first | (refine Tr_mono (ih _) ?_; intro _ _ _) | trf_step)

instance Fr_InBody_endTagFormatting_outer (tok n) : Fr (InBody_endTagFormatting_outer tok n) :=
  ⟨InBody_endTagFormatting_outer_tr tok n⟩
