instance Fr_InBody_endTagOther_loop (site : String) (d : TagData) : ∀ l, Fr (InBody_endTagOther.loop site d l)
  | [] => by unfold InBody_endTagOther.loop; hb_auto
  | node :: rest => by
    unfold InBody_endTagOther.loop
    haveI := Fr_InBody_endTagOther_loop site d rest
    hb_auto
