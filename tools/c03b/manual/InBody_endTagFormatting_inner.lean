theorem InBody_endTagFormatting_inner_tr (fe fb : NodeId) : ∀ n s st,
    Tr (InBody_endTagFormatting_inner fe fb n s) st (fun _ st' => F st' = F st) := by
  intro n
  induction n with
  | zero => intro s st; unfold InBody_endTagFormatting_inner; rfl
  | succ n ih =>
    intro s st
    unfold InBody_endTagFormatting_inner
    repeat' (first | (refine Tr_mono (ih _ _) ?_; intro _ _ _) | trf_step)

instance Fr_InBody_endTagFormatting_inner (fe fb n s) : Fr (InBody_endTagFormatting_inner fe fb n s) :=
  ⟨InBody_endTagFormatting_inner_tr fe fb n s⟩
