theorem Fr_InBody_endTagP_startTagCloseP_aux : ∀ depth b tok, Fr (InBody_endTagP_startTagCloseP depth b tok)
  | 0, _, _ => by unfold InBody_endTagP_startTagCloseP; hb_auto
  | depth + 1, true, tok => by
    unfold InBody_endTagP_startTagCloseP
    haveI : ∀ b t, Fr (InBody_endTagP_startTagCloseP depth b t) := Fr_InBody_endTagP_startTagCloseP_aux depth
    hb_auto
  | depth + 1, false, tok => by
    unfold InBody_endTagP_startTagCloseP
    haveI : ∀ b t, Fr (InBody_endTagP_startTagCloseP depth b t) := Fr_InBody_endTagP_startTagCloseP_aux depth
    hb_auto

instance Fr_InBody_endTagP_startTagCloseP (depth b tok) : Fr (InBody_endTagP_startTagCloseP depth b tok) :=
  Fr_InBody_endTagP_startTagCloseP_aux depth b tok
