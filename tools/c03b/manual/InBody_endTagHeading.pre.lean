instance RO_InBody_endTagHeading_anyInScope : ∀ l, RO (InBody_endTagHeading.anyInScope l)
  | [] => by unfold InBody_endTagHeading.anyInScope; hb_auto
  | item :: rest => by
    unfold InBody_endTagHeading.anyInScope
    haveI := RO_InBody_endTagHeading_anyInScope rest
    hb_auto
