instance Fr_mergeAttrsInto (idx : Nat) (site : String) : ∀ l, Fr (mergeAttrsInto idx site l)
  | [] => by unfold mergeAttrsInto; hb_auto
  | (attr, value) :: rest => by
    unfold mergeAttrsInto
    haveI := Fr_mergeAttrsInto idx site rest
    hb_auto
