theorem PhInv_enterInTableText (st : PState) (hi : PhInv st) :
    PhInv { st with tableTextOriginalPhase := st.phase, phase := some .inTableText } :=
  ⟨by simp, hi.2.1, hi.1⟩

/-- `enterInTableText` makes `inTableText` the current phase: the dispatch through `self.parser.phase` goes to the
leaf `InTableTextPhase.processSpaceCharacters` -/
theorem Pv_InTable_processSpaceCharacters {r : Rec} {n : Nat} (hr : RecOK r n) (tok : Token) (h : 0 < n) :
    Pv (InTable_processSpaceCharacters r tok) :=
  ⟨fun st hi => by
    unfold InTable_processSpaceCharacters enterInTableText
    simp only [Tr_bind, Tr_modify, Tr_curPhase]
    intro p hp
    cases hp
    refine Tr_mono ((hr.Sp .inTableText tok (by simp only [needSp]; omega)).out _ (PhInv_enterInTableText st hi)) ?_
    intro _ st' hi'
    exact hi'⟩
