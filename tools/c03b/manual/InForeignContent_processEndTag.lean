/-- **level 1**: the two fuelled loops of `InForeignContentPhase.processEndTag` never exhaust the fuel
`2·len + 2` / `len + 1` (from a state satisfying `PhInv`, with nested dispatches that do not run out of fuel) -/
theorem InForeignContent_processEndTag_fuel {r : Rec} {n : Nat} (hr : RecOK r n) (tok : Token) (h : 2 < n)
    (st : PState) (hi : PhInv st) (site : String) :
    (InForeignContent_processEndTag r tok).run st ≠ .error (.outOfFuel site) :=
  Tr_run ((Pv_InForeignContent_processEndTag hr tok h).out st hi) site
