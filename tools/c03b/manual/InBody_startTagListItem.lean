theorem Pv_InBody_startTagListItem {r : Rec} {n : Nat} (hr : RecOK r n) (tok : Token) (h : 2 < n) :
    Pv (InBody_startTagListItem r tok) := by
  unfold InBody_startTagListItem
  haveI := fun site stopNames l => Pv_InBody_startTagListItem_loop hr h site stopNames l
  hb_auto
