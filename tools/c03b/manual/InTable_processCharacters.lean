theorem Pv_InTable_processCharacters {r : Rec} {n : Nat} (hr : RecOK r n) (tok : Token) (h : 0 < n) :
    Pv (InTable_processCharacters r tok) :=
  ⟨fun st hi => by
    unfold InTable_processCharacters enterInTableText
    simp only [Tr_bind, Tr_modify, Tr_curPhase]
    intro p hp
    cases hp
    refine Tr_mono ((hr.Ch .inTableText tok (by simp only [needCh]; omega)).out _ (PhInv_enterInTableText st hi)) ?_
    intro _ st' hi'
    exact hi'⟩
