#!/usr/bin/env python3
"""Random search (real html5lib) for inputs that reach one of the stuck-state preconditions S1-S4 of replay_states.py.
After every token the parser state is tested; nothing found = the states look unreachable by parsing."""
import random, sys, signal
from html5lib import html5parser, treebuilders, _tokenizer

SEED = sys.argv[1] if len(sys.argv) > 1 else "0"
N = int(sys.argv[2]) if len(sys.argv) > 2 else 20000
rng = random.Random(SEED)
TAGS = ["table","tbody","thead","tfoot","tr","td","th","caption","colgroup","col","select","option","optgroup","input",
        "keygen","textarea","script","svg","math","foreignObject","desc","title","mi","mtext","annotation-xml","html",
        "head","body","frameset","frame","p","div","b","a","button","form","template","li","dd","h1","nobr","applet",
        "marquee","object","plaintext","style","noscript","br","hr","image","isindex","mglyph","font","ruby","rt"]
CONT = [None]*4 + ["div","td","th","tr","tbody","table","select","html","head","body","caption","colgroup","svg","math",
        "title","textarea","script","frameset","option","template","foreignObject"]
hits = {}
class Hit(Exception): pass

def check(p):
    ph = p.phase; t = p.tree
    name = type(ph).__name__
    if name == "InSelectInTablePhase" and not t.elementInScope("select", variant="select"):
        return "S1"
    if name == "InCellPhase":
        if any(t.elementInScope(n, variant="table") for n in ("table","tbody","tfoot","thead","tr")) \
           and not t.elementInScope("td", variant="table") and not t.elementInScope("th", variant="table"):
            return "S2"
    if name == "InRowPhase" and p.innerHTML:
        if any(t.elementInScope(n, variant="table") for n in ("tbody","tfoot","thead")) \
           and not t.elementInScope("tr", variant="table"):
            return "S5"
    if name == "InTableTextPhase" and type(ph.originalPhase).__name__ == "InTableTextPhase":
        return "S3"
    if name == "InForeignContentPhase":
        return "S4"
    return None

orig_iter = _tokenizer.HTMLTokenizer.__iter__
def patched(self):
    for tok in orig_iter(self):
        yield tok
        p = self.parser
        if p is not None and p.tree.openElements:
            try:
                c = check(p)
            except AssertionError:
                c = None
            if c: raise Hit(c)
_tokenizer.HTMLTokenizer.__iter__ = patched

def gen():
    n = rng.randint(1, 14)
    out = []
    for _ in range(n):
        r = rng.random()
        t = rng.choice(TAGS)
        if r < 0.6: out.append("<%s%s>" % (t, rng.choice(["", "", " type=hidden", " encoding=text/html", "/"])))
        elif r < 0.9: out.append("</%s>" % t)
        elif r < 0.95: out.append(rng.choice(["x", " ", "\n", "&amp;", "\0"]))
        else: out.append("<!--c-->")
    return "".join(out)

def alarm(*a): raise TimeoutError()
signal.signal(signal.SIGALRM, alarm)
hangs = []
for i in range(N):
    s = gen(); c = rng.choice(CONT)
    p = html5parser.HTMLParser(tree=treebuilders.getTreeBuilder("dom"))
    signal.alarm(4)
    try:
        if c is None: p.parse(s)
        else: p.parseFragment(s, container=c)
    except Hit as h:
        hits.setdefault(str(h), (s, c))
    except TimeoutError:
        hangs.append((s, c))
    except Exception:
        pass
    signal.alarm(0)
print("cases", N, "seed", SEED, "hits", hits, "hangs", hangs[:3])
