#!/usr/bin/env python3
"""State-level findings of the C03b level-3 analysis, replayed on the REAL html5lib (PYTHONPATH=/repo).
Each case presets a parser state (phase + stack of open elements) that is NOT produced by parsing any input we could
find, then feeds ONE token to the real `mainLoop`; the reprocess loop `while new_token is not None` does not terminate
(detected by counting handler calls through a trace hook / SIGALRM)."""
import signal, sys
from html5lib import html5parser, treebuilders
from html5lib.constants import tokenTypes, namespaces

class Loop(Exception): pass
def alarm(*a): raise Loop()
signal.signal(signal.SIGALRM, alarm)

def mk(container, phase, stack):
    """fragment parser for `container`; open elements = html + the given (name, namespace) list; phase by key"""
    p = html5parser.HTMLParser(tree=treebuilders.getTreeBuilder("dom"))
    p.innerHTMLMode = container is not None
    p.container = container
    p.scripting = False
    class T:            # token source
        class S:
            def position(self): return (0, 0)
        def __init__(s): s.toks=[]; s.state=None; s.stream=T.S(); s.dataState=s.rcdataState=s.rawtextState=s.plaintextState=s.scriptDataState=None
        def __iter__(s): return iter(s.toks)
    p.tokenizer = T()
    p.reset()
    if container is None:
        # document: run the implied html/head/body
        p.phase = p.phases["beforeHtml"]; p.phase.insertHtmlElement()
    for name, ns in stack:
        tok = {"type": tokenTypes["StartTag"], "name": name, "data": {}, "namespace": namespaces[ns], "selfClosing": False}
        p.tree.insertElement(tok)
    p.phase = p.phases[phase]
    return p

def feed(p, tok, seconds=2):
    p.tokenizer.toks = [tok]
    n0 = len(p.errors)
    signal.alarm(seconds)
    try:
        p.mainLoop()
        signal.alarm(0)
        return "terminates", len(p.errors) - n0
    except Loop:
        return "LOOPS (no termination within %ds)" % seconds, len(p.errors) - n0
    except Exception as e:
        signal.alarm(0)
        return "raises %s: %s" % (type(e).__name__, e), len(p.errors) - n0

def start(name): return {"type": tokenTypes["StartTag"], "name": name, "data": {}, "selfClosing": False, "selfClosingAcknowledged": False}
def end(name): return {"type": tokenTypes["EndTag"], "name": name, "data": {}, "selfClosing": False}
def comment(): return {"type": tokenTypes["Comment"], "data": "x"}

CASES = [
 ("S1 inSelectInTable without a select in select scope, fragment: <table> start tag",
  lambda: mk("div", "inSelectInTable", []), start("table")),
 ("S2 inCell with <table> in table scope but no td/th in table scope: </table>",
  lambda: mk("div", "inCell", [("table", "html")]), end("table")),
 ("S3 inTableText whose saved originalPhase is inTableText itself: a comment",
  None, comment()),
 ("S5 inRow (fragment) with <tbody> but no <tr> in table scope: </tbody>",
  lambda: mk("div", "inRow", [("table", "html"), ("tbody", "html")]), end("tbody")),
 ("S6 inSelectInTable (fragment) with <table> in table scope but no select in select scope: </table>",
  lambda: mk("div", "inSelectInTable", [("table", "html")]), end("table")),
 ("S4 phase inForeignContent as the CURRENT insertion mode with a foreign element open: </x> (unbounded recursion)",
  lambda: mk("div", "inForeignContent", [("svg", "svg")]), end("x")),
]
for title, build, tok in CASES:
    if build is None:
        p = mk("div", "inTableText", [("table", "html")])
        p.phases["inTableText"].originalPhase = p.phases["inTableText"]
        p.phases["inTableText"].characterTokens = []
    else:
        p = build()
    print(title, "->", feed(p, tok))
