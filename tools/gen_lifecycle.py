"""Gen.Lifecycle: which attributes of the long-lived objects (HTMLParser, TreeBuilder) are written anywhere, and which
are definitely (re)assigned by `_parse` / `reset` before `mainLoop` runs — extracted from the AST of /repo."""
import ast
import os

from extract import register, HEADER, FOOTER, strlist, src, sha, TranslationError, REPO
import pylite


def attr_targets(node, base_test):
    """names X of attribute stores `<base>.X = …` / `<base>.X += …` / `del <base>.X` inside node"""
    out = set()
    for n in ast.walk(node):
        targets = []
        if isinstance(n, ast.Assign):
            targets = n.targets
        elif isinstance(n, (ast.AugAssign, ast.AnnAssign)):
            targets = [n.target]
        for t in targets:
            for tt in ast.walk(t):
                if isinstance(tt, ast.Attribute) and isinstance(tt.ctx, ast.Store) and base_test(tt.value):
                    out.add(tt.attr)
    return out


def is_self(v):
    return isinstance(v, ast.Name) and v.id == "self"


def is_self_attr(name):
    return lambda v: isinstance(v, ast.Attribute) and v.attr == name and is_self(v.value)


def definitely_assigned(stmts, base_test):
    """attributes assigned on every path through a statement list (if/else: intersection; loops/try: ignored)"""
    out = set()
    for s in stmts:
        if isinstance(s, ast.If):
            a = definitely_assigned(s.body, base_test)
            b = definitely_assigned(s.orelse, base_test)
            out |= (a & b)
        elif isinstance(s, (ast.Assign, ast.AugAssign, ast.AnnAssign)):
            out |= attr_targets(s, base_test)
        elif isinstance(s, (ast.For, ast.While, ast.Try, ast.With)):
            continue
    return out


def property_setters(cls):
    """X = property(getter, setter) -> {X: fields assigned by the setter}"""
    fns = {n.name: n for n in cls.body if isinstance(n, ast.FunctionDef)}
    out = {}
    for n in cls.body:
        if (isinstance(n, ast.Assign) and isinstance(n.value, ast.Call) and isinstance(n.value.func, ast.Name)
                and n.value.func.id == "property" and len(n.value.args) >= 2 and isinstance(n.value.args[1], ast.Name)):
            setter = fns.get(n.value.args[1].id)
            if setter is not None:
                out[n.targets[0].id] = attr_targets(setter, is_self)
    return out


def expand(fields, props):
    out = set()
    for f in fields:
        out.add(f)
        out |= props.get(f, set())
    return out


@register("Lifecycle")
def gen_lifecycle():
    ptree = ast.parse(src("html5lib/html5parser.py"))
    btree = ast.parse(src("html5lib/treebuilders/base.py"))
    out = HEADER % "html5lib/html5parser.py, treebuilders/base.py, etree.py, dom.py (AST)"
    # ---- HTMLParser
    P = pylite.find_function(ptree, "HTMLParser")
    methods = {n.name: n for n in P.body if isinstance(n, ast.FunctionDef)}
    written_anywhere = attr_targets(P, is_self) | attr_targets(ptree, is_self_attr("parser"))
    init_only = attr_targets(methods["__init__"], is_self)
    written_outside_init = set()
    for name, m in methods.items():
        if name != "__init__":
            written_outside_init |= attr_targets(m, is_self)
    written_outside_init |= attr_targets(ptree, is_self_attr("parser"))
    # what a call establishes before mainLoop: `_parse` up to and including `self.reset()`, plus `reset`
    parse_stmts = []
    calls_reset = False
    for s in methods["_parse"].body:
        parse_stmts.append(s)
        if (isinstance(s, ast.Expr) and isinstance(s.value, ast.Call) and isinstance(s.value.func, ast.Attribute)
                and s.value.func.attr == "reset" and is_self(s.value.func.value)):
            calls_reset = True
            break
    if not calls_reset:
        raise TranslationError("HTMLParser._parse no longer calls self.reset() before the main loop")
    established = definitely_assigned(parse_stmts, is_self) | definitely_assigned(methods["reset"].body, is_self)
    reset_calls_tree_reset = any(
        isinstance(n, ast.Call) and isinstance(n.func, ast.Attribute) and n.func.attr == "reset"
        and isinstance(n.func.value, ast.Attribute) and n.func.value.attr == "tree" for n in ast.walk(methods["reset"]))
    # the ReparseException path must reset again
    reparse_resets = False
    for n in ast.walk(methods["_parse"]):
        if isinstance(n, ast.ExceptHandler):
            reparse_resets = any(isinstance(c, ast.Call) and isinstance(c.func, ast.Attribute) and c.func.attr == "reset"
                                 for c in ast.walk(n))
    out += "/-- HTMLParser attributes written outside __init__ (by its own methods or through `self.parser.X = …` in phases) -/\n"
    out += "def parserMutable : List Str := %s\n" % strlist(sorted(written_outside_init))
    out += "/-- attributes definitely assigned by `_parse` (up to `self.reset()`) and `reset` on every path -/\n"
    out += "def parserEstablished : List Str := %s\n" % strlist(sorted(established))
    out += "/-- attributes only ever written by __init__ (configuration) -/\n"
    out += "def parserConfig : List Str := %s\n" % strlist(sorted(init_only - written_outside_init))
    # write-before-read attributes: `originalPhase` is only read in the text phase; every function that enters the
    # text phase must assign it first
    wbr = []
    ok = True
    enters_text = 0
    for fn in ast.walk(ptree):
        if not isinstance(fn, ast.FunctionDef):
            continue
        seen_orig = False
        for st in fn.body if True else []:
            pass
        order = []
        for n in ast.walk(fn):
            if isinstance(n, ast.Assign):
                for t in n.targets:
                    if isinstance(t, ast.Attribute) and t.attr == "originalPhase" and (is_self(t.value) or is_self_attr("parser")(t.value)):
                        order.append((n.lineno, "orig"))
                    if (isinstance(t, ast.Attribute) and t.attr == "phase" and (is_self(t.value) or is_self_attr("parser")(t.value))
                            and isinstance(n.value, ast.Subscript) and isinstance(n.value.slice, ast.Constant)
                            and n.value.slice.value == "text"):
                        order.append((n.lineno, "text"))
        order.sort()
        for i, (ln, k) in enumerate(order):
            if k == "text":
                enters_text += 1
                if not any(k2 == "orig" for _, k2 in order[:i]):
                    ok = False
    if ok and enters_text > 0:
        wbr.append("originalPhase")
    out += "/-- attributes that are assigned before every read within one parse (checked: every function that enters the\n"
    out += "text phase assigns originalPhase first; %d such functions) -/\n" % enters_text
    out += "def parserWriteBeforeRead : List Str := %s\n" % strlist(wbr)
    out += "def parserResetCallsTreeReset : Bool := %s\n" % ("true" if reset_calls_tree_reset else "false")
    out += "def parserReparseResets : Bool := %s\n" % ("true" if reparse_resets else "false")
    # ---- TreeBuilder (base + the two concrete builders)
    B = pylite.find_function(btree, "TreeBuilder")
    props = property_setters(B)
    bmethods = {n.name: n for n in B.body if isinstance(n, ast.FunctionDef)}
    t_written = set()
    for name, m in bmethods.items():
        if name not in ("__init__", "reset"):
            t_written |= attr_targets(m, is_self)
    t_written |= attr_targets(ptree, is_self_attr("tree"))
    for rel in ("html5lib/treebuilders/etree.py", "html5lib/treebuilders/dom.py"):
        t = ast.parse(src(rel))
        for cls in ast.walk(t):
            if isinstance(cls, ast.ClassDef) and cls.name == "TreeBuilder":
                for m in cls.body:
                    if isinstance(m, ast.FunctionDef) and m.name not in ("__init__", "reset"):
                        t_written |= attr_targets(m, is_self)
    t_written = expand(t_written, props)
    t_reset = definitely_assigned(bmethods["reset"].body, is_self)
    # methods that reset() calls on self (e.g. documentClass() of the dom builder assigns self.dom)
    called = [n.func.attr for n in ast.walk(bmethods["reset"]) if isinstance(n, ast.Call)
              and isinstance(n.func, ast.Attribute) and is_self(n.func.value)]
    for rel in ("html5lib/treebuilders/base.py", "html5lib/treebuilders/etree.py", "html5lib/treebuilders/dom.py"):
        t = ast.parse(src(rel))
        for cls in ast.walk(t):
            if isinstance(cls, ast.ClassDef) and cls.name == "TreeBuilder":
                for m in cls.body:
                    if isinstance(m, ast.FunctionDef) and m.name in called:
                        t_reset |= definitely_assigned(m.body, is_self)
    t_reset = expand(t_reset, props)
    t_init_calls_reset = any(isinstance(n, ast.Call) and isinstance(n.func, ast.Attribute) and n.func.attr == "reset"
                             for n in ast.walk(bmethods["__init__"]))
    out += "/-- TreeBuilder attributes written outside __init__/reset (own methods, subclasses, `self.tree.X = …` in phases) -/\n"
    out += "def treeMutable : List Str := %s\n" % strlist(sorted(t_written))
    out += "def treeReset : List Str := %s\n" % strlist(sorted(t_reset))
    out += "def treeInitCallsReset : Bool := %s\n" % ("true" if t_init_calls_reset else "false")
    # ---- phase objects: attributes written on them outside __init__ (own methods, or through
    # `self.parser.phase.X = …` / `self.parser.phases[...].X = …`)
    ph_mut = set()
    for cls in ast.walk(ptree):
        if isinstance(cls, ast.ClassDef) and cls.name.endswith("Phase"):
            for m in cls.body:
                if isinstance(m, ast.FunctionDef) and m.name != "__init__":
                    ph_mut |= attr_targets(m, is_self)
    def via_phase(v):
        if isinstance(v, ast.Attribute) and v.attr == "phase":
            return True
        if isinstance(v, ast.Subscript) and isinstance(v.value, ast.Attribute) and v.value.attr == "phases":
            return True
        return False
    ph_mut |= attr_targets(ptree, via_phase)
    out += "/-- attributes of phase objects written outside their __init__ -/\n"
    out += "def phaseMutable : List Str := %s\n" % strlist(sorted(ph_mut))
    out += "def phasesRecreatedByReset : Bool := %s\n" % ("true" if "phases" in established else "false")
    # ---- process-wide shared objects: the entity trie is one module-level object used by every tokenizer; the
    # lookups the tokenizer performs must not write to it
    writes = set()
    for rel in ("html5lib/_trie/py.py", "html5lib/_trie/_base.py"):
        t = ast.parse(src(rel))
        for cls in ast.walk(t):
            if isinstance(cls, ast.ClassDef) and cls.name == "Trie":
                for m in cls.body:
                    if isinstance(m, ast.FunctionDef) and m.name in ("has_keys_with_prefix", "longest_prefix", "longest_prefix_item",
                                                                     "__contains__", "__getitem__", "__len__", "__iter__"):
                        writes |= {"%s.%s" % (m.name, a) for a in attr_targets(m, is_self)}
    out += "/-- attributes written by the trie lookups the tokenizer calls (must be none: the trie is shared process-wide) -/\n"
    out += "def trieLookupWrites : List Str := %s\n" % strlist(sorted(writes))
    # ---- HTMLSerializer: attributes written by its methods outside __init__ must be (re)assigned at the start of
    # serialize(), before the first token is looked at — otherwise an aborted call (strict SerializeError, encoding error,
    # abandoned generator) leaks into the next one
    stree = ast.parse(src("html5lib/serializer.py"))
    ser_mut, ser_est = set(), set()
    for cls in ast.walk(stree):
        if isinstance(cls, ast.ClassDef) and cls.name == "HTMLSerializer":
            for m in cls.body:
                if isinstance(m, ast.FunctionDef) and m.name != "__init__":
                    ser_mut |= attr_targets(m, is_self)
                if isinstance(m, ast.FunctionDef) and m.name == "serialize":
                    head = []
                    for st in m.body:
                        if isinstance(st, (ast.For, ast.While)):
                            break
                        head.append(st)
                    ser_est = definitely_assigned(head, is_self)
    out += "/-- attributes of HTMLSerializer written outside __init__ -/\n"
    out += "def serializerMutable : List Str := %s\n" % strlist(sorted(ser_mut))
    out += "/-- attributes definitely assigned by serialize() before its token loop -/\n"
    out += "def serializerEstablished : List Str := %s\n" % strlist(sorted(ser_est))
    # ---- objects shared by every parser in the process: instances created at module level or in a class body
    # (dispatch tables `startTagHandler = _utils.MethodDispatcher([...])`, the entity trie, …).  Their classes must not
    # write to `self` outside construction, or independent parsers running in different threads meet through them.
    import glob
    mods = {}
    for path in sorted(glob.glob(os.path.join(REPO, "html5lib", "**", "*.py"), recursive=True)):
        rel = os.path.relpath(path, REPO)
        if "/tests/" in rel or rel.endswith("conftest.py"):
            continue
        try:
            mods[rel] = ast.parse(open(path, encoding="utf-8").read())
        except SyntaxError:
            continue
    classes = {}
    for rel, t in mods.items():
        for c in ast.walk(t):
            if isinstance(c, ast.ClassDef):
                classes.setdefault(c.name, []).append(c)

    def level_calls(body):
        """constructor names called while a module / class body is executed (not inside function bodies)"""
        found = set()
        stack = list(body)
        while stack:
            n = stack.pop()
            if isinstance(n, (ast.FunctionDef, ast.AsyncFunctionDef, ast.Lambda)):
                continue
            if isinstance(n, ast.ClassDef):
                stack.extend(n.body)
                continue
            if isinstance(n, ast.Call):
                f = n.func
                name = f.id if isinstance(f, ast.Name) else f.attr if isinstance(f, ast.Attribute) else None
                if name in classes:
                    found.add(name)
            stack.extend(ast.iter_child_nodes(n))
        return found
    shared = set()
    for rel, t in mods.items():
        shared |= level_calls(t.body)
    MUTATORS = {"append", "extend", "insert", "pop", "popitem", "remove", "clear", "update", "setdefault", "add", "discard",
                "sort", "reverse", "__setitem__", "__delitem__"}
    swrites = set()
    for name in sorted(shared):
        for c in classes[name]:
            for m in c.body:
                if not isinstance(m, ast.FunctionDef) or m.name in ("__init__", "__new__"):
                    continue
                for a in attr_targets(m, is_self):
                    swrites.add("%s.%s.%s" % (name, m.name, a))
                for n in ast.walk(m):
                    # self[...] = v / del self[...] / self.mutator(...)
                    if isinstance(n, ast.Subscript) and isinstance(n.ctx, (ast.Store, ast.Del)) and is_self(n.value):
                        swrites.add("%s.%s.[]" % (name, m.name))
                    if isinstance(n, ast.Call) and isinstance(n.func, ast.Attribute) and is_self(n.func.value) \
                            and n.func.attr in MUTATORS:
                        swrites.add("%s.%s.%s()" % (name, m.name, n.func.attr))
    out += "/-- classes of html5lib instantiated at module level or in a class body (shared by all parsers of the process) -/\n"
    out += "def sharedClasses : List Str := %s\n" % strlist(sorted(shared))
    out += "/-- writes to `self` (attribute, item, mutating call) in their methods outside `__init__` -/\n"
    out += "def sharedClassWrites : List Str := %s\n" % strlist(sorted(swrites))
    # module-level mutable containers written from functions of the parser path
    out += "-- fingerprint HTMLParser.reset %s\n-- fingerprint HTMLParser._parse %s\n-- fingerprint TreeBuilder.reset %s\n" % (
        sha(ast.dump(methods["reset"])), sha(ast.dump(methods["_parse"])), sha(ast.dump(bmethods["reset"])))
    return out + FOOTER
