#!/venv/bin/python
"""audit of known-finding classes: edits to known_findings.json (idempotent).   usage: audit_known_findings_patch.py known_findings.json
  * three stale witnesses that no longer reproduced their class (C08 noscript, C08 script-double-escaped, C15 c1-control)
  * three genuine C08 defects that the old catch-all doctype class / 'lexical-differs' had hidden or left unrecorded
  * one genuine C15 defect that the old encoding-name-based class had hidden (shift_jis U+00A5 / U+203E)"""
import json
import sys

path = sys.argv[1]
raw = open(path).read()
k = json.loads(raw)
for f in k["findings"]:
    if f["property"] == "C08" and f["class"] == "noscript-content-depends-on-reader-scripting":
        f["witness"] = {"html": "<body><noscript>&lt;b&gt;</noscript>", "scripting": False}
    if f["property"] == "C08" and f["class"] == "script-double-escaped-state":
        f["witness"] = {"html": "<script><!--<script>"}
    if f["property"] == "C15" and f["class"] == "c1-control-in-text":
        f["witness"]["encoding"] = "koi8-r"
new = [
 {"id": "C08-doctype-empty-id", "property": "C08", "class": "doctype-empty-identifier-not-written",
  "witness": {"html": "<!DOCTYPE html PUBLIC \"\" \"x\">"},
  "what_fails": "an EMPTY public or system identifier is not written (the serializer tests the identifier's truth value), no error reported: "
                "'<!DOCTYPE html PUBLIC \"\" \"x\">' is written as '<!DOCTYPE html SYSTEM \"x\">' and reads back with a missing public identifier "
                "(also PUBLIC \"a\" \"\" -> PUBLIC \"a\", SYSTEM \"\" -> no identifier); missing and empty identifiers differ for the quirks-mode rules"},
 {"id": "C08-doctype-none-name", "property": "C08", "class": "doctype-name-none-written-as-None",
  "witness": {"html": "<!DOCTYPE>", "walker": "dom"},
  "what_fails": "the dom walker reports the missing doctype name as None (minidom turns '' into None, see C04-dom-doctype) and the serializer "
                "formats it with '%s': '<!DOCTYPE>' is written as '<!DOCTYPE None>' and reads back with the name 'none'; no error reported "
                "(the etree walker gives '' and '<!DOCTYPE >' reads back correctly)"},
 {"id": "C08-rcdata-child", "property": "C08", "class": "element-child-of-rcdata-element-no-error",
  "witness": {"html": "<div><a></div><textarea>x"},
  "what_fails": "a title/textarea element with a child element or comment is written as markup and no error is reported (the check "
                "'Unexpected child element of a CDATA element' only covers rcdataElements = raw-text elements); a reader is in the RCDATA state "
                "and takes it all as text. html5lib's own tree builder produces such trees: '<div><a></div><textarea>x' gives "
                "<textarea><a>x</a></textarea> (startTagTextarea stays in the 'in body' phase, so the character token reconstructs the active "
                "formatting element inside the textarea; the standard switches to the 'text' insertion mode) - a tree-construction (C01) deviation as well"}]
new15 = [
 {"id": "C15-lossy-encode", "property": "C15", "class": "codec-encodes-character-as-another-without-error",
  "witness": {"input": "<html><head></head><body><p>\u00a5 \u203e</p></body></html>", "encoding": "shift_jis"},
  "what_fails": "Python's shift_jis codec (like the Encoding Standard's encoder) writes U+00A5 as byte 0x5C and U+203E as 0x7E WITHOUT reporting "
                "them unencodable, so the serializer's 'htmlentityreplace' handler never runs and no character reference (&yen; / &oline;) is "
                "written; every decoder reads the bytes back as '\\' and '~' (of the encodings exercised only shift_jis has such characters)"}]
have = {f["id"] for f in k["findings"]}
idx = max(i for i, f in enumerate(k["findings"]) if f["property"] == "C08")
k["findings"][idx + 1:idx + 1] = [f for f in new if f["id"] not in have]
idx = max(i for i, f in enumerate(k["findings"]) if f["property"] == "C15")
k["findings"][idx + 1:idx + 1] = [f for f in new15 if f["id"] not in have]
open(path, "w").write(json.dumps(k, indent=1, ensure_ascii=True) + ("\n" if raw.endswith("\n") else ""))
