import json, sys
sys.path.insert(0,'/verif/work/spectree/tools')
from props import _whatwg as W
E = [
 ("template-element", "<template>", None, "standard ('in head', start tag template): insert the element, marker, frameset-ok not ok, 'in template' mode, children go to the template contents; html5lib 1.1 has no template support (ordinary element, not special, no scope/table-context entry)", None, False),
 ("isindex-legacy", "<isindex>", None, "the 'isindex' start-tag entry of 'in body' was removed from the standard in 2016 (isindex is an ordinary element); html5lib still expands it to form/hr/label/input", None, False),
 ("command-in-head", "<command>", None, "mid-2020 standard has no 'command' in the 'in head' / 'after head' / 'in body' void lists (element dropped 2012/13): it is an ordinary body element; html5lib inserts it as a void element into head", None, False),
 ("dialog-closes-p", "<p><dialog>", None, "'in body' start tags 'address, article, aside, blockquote, center, details, dialog, dir, ...': close a p element in button scope (same list for the end tags); html5lib does not know dialog", "add 'dialog' to the startTagCloseP and endTagBlock name tuples of InBodyPhase", False),
 ("rb-rtc", "<ruby><rb><rt>", None, "implied end tags are dd, dt, li, optgroup, option, p, rb, rp, rt, rtc; start tag rb/rtc: generate implied end tags if ruby in scope; rp/rt: ... except for rtc; html5lib: rb/rtc unknown, rp/rt generate all implied end tags", None, False),
 ("foreign-name-confusion", "<svg><desc><path></desc><path>", None, "the standard's 'an X element' tests mean HTML-namespace elements; html5lib compares node.name only, so SVG/MathML elements named td, tbody, desc, html ... are closed / foster-parented / matched as if they were HTML (namespace-confusion family, see C10)", None, False),
 ("adoption-agency-not-in-scope-acts-as-other-end-tag", "<b><math><mi></b>x", None, "adoption agency step 8: formatting element in the stack but not in scope -> parse error, return; html5lib calls endTagOther (acts as 'any other end tag', which may pop elements)", "InBodyPhase.endTagFormatting: drop the 'formattingElement in openElements and not elementInScope' alternative from the first test (the 'adoption-agency-4.4' branch below already handles it)", False),
 ("adoption-agency-inner-loop>3", "<a><em><small><u><strong><h1><a></em>", None, "adoption agency 14.5: if inner loop counter > 3 and node is in the list of active formatting elements remove it (then 14.6 removes it from the stack) and the loop continues to the formatting element; html5lib: `while innerLoopCounter < 3` stops after three nodes (2011 algorithm)", None, False),
 ("in-table-text-although-current-node-not-table", "<a><b></a> ", "table", "'in table': a character token goes to 'in table text' only if the current node is table/tbody/tfoot/thead/tr, otherwise 'anything else' (in body: reconstruct the active formatting elements); html5lib sends every character token to 'in table text' and inserts whitespace without reconstructing", None, False),
 ("in-table-text-doctype-does-not-flush", "<table> <!doctype>x", None, "'in table text', anything else (incl. DOCTYPE): flush the pending table character tokens; html5lib's InTableTextPhase has no processDoctype, the characters before and after the DOCTYPE form one run", "add processDoctype to InTableTextPhase (flushCharacters, restore phase, return token)", False),
 ("fragment-table-start-tag-in-table", "<table><table>", "div", "'in table' <table>: if a table is in table scope pop it, reset the insertion mode, reprocess; otherwise ignore; html5lib sends an implied </table> through the CURRENT phase and never reprocesses the token when innerHTML is set", None, False),
 ("fragment-td-th-context-in-cell", "<select><td> ", "td", "reset the insertion mode, step 5: 'td or th element AND last is false' -> 'in cell'; for a td/th context element (last is true) the mode is 'in body'; html5lib switches to 'in cell'", None, False),
 ("whitespace-without-AFE-reconstruct", "<table><td><p><b></p> ", None, "'in cell' / 'in caption' anything else and 'after body' whitespace use the 'in body' rules (reconstruct the active formatting elements, insert); html5lib's phases inherit Phase.processSpaceCharacters = plain insertText", "InCaptionPhase / InCellPhase / AfterBodyPhase: processSpaceCharacters = delegate to phases['inBody'].processSpaceCharacters", False),
 ("drop-newline-sticky", "<pre></i>\n", None, "'if the NEXT TOKEN is a LF character token, ignore it'; html5lib arms InBodyPhase.processSpaceCharactersDropNewline until the next whitespace token that reaches the in-body phase: LF dropped after an intervening token, and kept in table modes where the standard drops it", None, False),
 ("textarea-content-in-body-mode", "<p><strong><section><textarea><style>", None, "<textarea>: switch to the 'text' insertion mode; html5lib's startTagTextarea leaves the phase unchanged, RCDATA characters are handled by 'in body', which reconstructs formatting elements inside the textarea", "startTagTextarea: use parser.parseRCDataRawtext-like phase switch (originalPhase / phase = text)", False),
 ("end-tag-br-frameset-ok", "</br><frameset>", None, "</br> acts as a <br> start tag, whose last step sets frameset-ok to 'not ok'; html5lib's endTagBr does not", "InBodyPhase.endTagBr: self.parser.framesetOK = False", False),
 ("chars-run-whitespace", "<frameset>o ", None, "the standard handles one character token at a time (in frameset / after frameset / in column group: whitespace inserted, other characters ignored); html5lib's tokenizer delivers 'o ' as ONE Characters token and the tree builder ignores it as a whole", None, False),
 ("foreign-breakout-fragment-case", "<svg><b>", "div", "mid-2020 text of 13.2.6.5: in the fragment case a break-out start tag is treated as 'any other start tag' (stays in foreign content); html5lib breaks out as in the 2021+ standard and as browsers do (both readings in NOTES.md; not counted as a defect)", None, False),
 ("fragment-form-context", "<form>", "form", "fragment algorithm: form element pointer := nearest form ancestor of the context element including itself, so <form> is ignored in a form context; html5lib leaves the pointer None", None, False),
 ("fragment-initial-tokenizer-state:script", "x", "script", "fragment algorithm: context script -> script data state; html5lib uses RAWTEXT", None, False),
 ("fragment-initial-tokenizer-state:noscript", "x", "noscript", "fragment algorithm: context noscript -> RAWTEXT only if the scripting flag is enabled; html5lib always", None, False),
 ("container-empty-string", "x", "", "parseFragment(container='') raises AssertionError in resetInsertionMode ('' is falsy); no element has an empty local name (out of the standard's domain)", None, False),
 ("foreign-attr:xml:base", "<svg xml:base=a>", None, "'adjust foreign attributes' of mid-2020 has no xml:base entry (removed ~2017); html5lib still moves it to the XML namespace", None, False),
 ("svg-attr-legacy", "<svg filterres=d>", None, "'adjust SVG attributes' no longer lists contentScriptType, contentStyleType, externalResourcesRequired, filterRes; html5lib still camel-cases them", None, False),
]
known = json.load(open('/verif/work/spectree/known_findings.json'))
known['findings'] = [f for f in known['findings'] if not (f['property']=='C01' and f['class'].startswith('whatwg:'))]
bad = 0
for cls, text, cont, what, fix, bug in E:
    r = W.analyse((text, cont, False, True), True)
    labs = r and r.get("labels")
    ok = labs is not None and cls in labs and r["case"][0] == text
    if not ok:
        bad += 1
    print("OK " if ok else "BAD", cls, labs, r and r["case"][:2])
    e = {"id": "C01-whatwg-" + cls.replace(":", "-").replace(">", "gt"), "property": "C01", "class": "whatwg:" + cls,
         "witness": {"input": text, "container": cont, "scripting": False}, "what_fails": what}
    if fix: e["proposed_fix"] = fix
    if bug: e["bug"] = True
    known['findings'].append(e)
json.dump(known, open('/verif/work/spectree/known_findings.json','w'), indent=1, ensure_ascii=True)
print("bad", bad, "entries", len(E))
