#!/venv/bin/python
"""Differential test:  H5.Spec.Tokenizer (WHATWG tokenizer, written from the standard)
                  vs   H5.Model.Tokenizer (model of html5lib's tokenizer)   [op `tokcmp`, in-process]
                  vs   the real html5lib tokenizer                          [sample, op `spec-tok`]

    PYTHONPATH=/repo /venv/bin/python tools/spec_corr.py SEED COUNT [--exh N] [--exh-data N] [--suffix N]
                                                                   [--sample K] [--json FILE]

Cases: the generators of tok_corr.py (special, exhaustive short strings over its alphabet x 5 entry states
x lastStartTag in {none, matching, non-matching} x cdata, exhaustive in dataState, state-parking prefixes +
suffixes, COUNT random soup cases).  Every K-th case (default 10) is additionally run through the REAL
html5lib tokenizer, canonicalised in Python exactly like `H5.Spec.canon`, and compared with `spec-tok`
(and with the model side of `tokcmp`, which must agree with the real code).

Every difference is shrunk (batched delta debugging through the driver) and classified by `classify`
(a label computed from the shrunk input / the two canonical token streams).  Output: a table
class / count / minimal witness / model tokens / spec tokens.  Exit status 0 iff every difference
falls in a known class (no `UNCLASSIFIED`), the real code agrees with the model on the sample, and the
spec never runs out of fuel.
"""
import argparse
import json
import os
import random
import re
import sys
import time
from multiprocessing import Pool

HERE = os.path.dirname(os.path.abspath(__file__))
sys.path.insert(0, HERE)
sys.path.insert(0, "/repo")

import tok_corr as tc  # noqa: E402
from h5 import wire  # noqa: E402
from html5lib._inputstream import invalid_unicode_re  # noqa: E402

TYPE_NAME = tc.TYPE_NAME


# ----------------------------------------------------------------------------- real side, canonicalised
def py_canon(tokens):
    """mirror of H5.Spec.canon on html5lib token dicts -> list of encoded TTok words"""
    out = []
    for t in tokens:
        ty = TYPE_NAME[t["type"]]
        if ty == "ParseError":
            continue
        if ty in ("Characters", "SpaceCharacters"):
            if t["data"] == "":
                continue
            if out and out[-1][0] == "C":
                out[-1] = ("C", out[-1][1] + t["data"])
            else:
                out.append(("C", t["data"]))
        elif ty == "EndTag":
            out.append(("E", t["name"]))
        elif ty == "StartTag":
            out.append(("S", t["name"], list(t["data"].items()), bool(t["selfClosing"])))
        elif ty == "Comment":
            out.append(("M", t["data"]))
        elif ty == "Doctype":
            out.append(("D", t["name"] if t["name"] != "" else None, t["publicId"], t["systemId"], bool(t["correct"])))
        else:
            raise ValueError(ty)
    return out


def enc_canon(toks):
    ws = []
    for t in toks:
        k = t[0]
        if k == "C":
            ws.append("C " + wire.enc_str(t[1]))
        elif k == "M":
            ws.append("M " + wire.enc_str(t[1]))
        elif k == "E":
            ws.append("E %s 0 0" % wire.enc_str(t[1]))
        elif k == "S":
            ws.append("S %s %s %s" % (wire.enc_str(t[1]), tc.enc_pairs(t[2]), wire.enc_bool(t[3])))
        elif k == "D":
            ws.append("D %s %s %s %s" % (wire.enc_ostr(t[1]), wire.enc_ostr(t[2]), wire.enc_ostr(t[3]),
                                         wire.enc_bool(t[4])))
    return "ok " + wire.enc_list(ws)


def real_canon(case):
    text = case[3]
    flagged = invalid_unicode_re.search(text) is not None
    tok = tc.make(case, flagged)
    toks = []
    try:
        for token in tok:
            t = dict(token)
            if isinstance(t.get("data"), dict):
                t["data"] = dict(t["data"])
            toks.append(t)
    except Exception as e:  # pylint:disable=broad-except
        return "err " + type(e).__name__
    return enc_canon(py_canon(toks))


# ----------------------------------------------------------------------------- decoding driver lines
def dec_str(w):
    if w == "-":
        return ""
    return "".join(chr(int(x, 16)) for x in w.split("."))


def dec_ostr(w):
    return None if w == "~" else dec_str(w)


def dec_line(line):
    """'ok N ...' -> list of tuples like py_canon; 'err X' -> ('ERR', X)"""
    if line.startswith("err "):
        return [("ERR", line[4:])]
    ws = line.split(" ")
    assert ws[0] == "ok", line
    n = int(ws[1])
    i = 2
    out = []
    for _ in range(n):
        k = ws[i]
        if k in ("C", "M", "W"):
            out.append((k, dec_str(ws[i + 1])))
            i += 2
        elif k == "D":
            out.append(("D", dec_ostr(ws[i + 1]), dec_ostr(ws[i + 2]), dec_ostr(ws[i + 3]), ws[i + 4] == "1"))
            i += 5
        elif k in ("S", "E"):
            name = dec_str(ws[i + 1])
            na = int(ws[i + 2])
            attrs = [(dec_str(ws[i + 3 + 2 * j]), dec_str(ws[i + 4 + 2 * j])) for j in range(na)]
            sc = ws[i + 3 + 2 * na] == "1"
            out.append(("E", name) if k == "E" else ("S", name, attrs, sc))
            i += 4 + 2 * na
        elif k == "P":
            nv = int(ws[i + 2])
            i += 3 + 2 * nv
        else:
            raise ValueError(line)
    assert i == len(ws), line
    return out


def split_diff(line):
    """'diff <model> || <spec>' -> (model line, spec line)"""
    assert line.startswith("diff "), line
    m, s = line[5:].split(" || ")
    return m, s


def show_tok(t):
    k = t[0]
    if k == "C":
        return "Chars(%s)" % show(t[1])
    if k == "M":
        return "Comment(%s)" % show(t[1])
    if k == "E":
        return "End(%s)" % show(t[1])
    if k == "S":
        return "Start(%s%s%s)" % (show(t[1]), "".join(" %s=%s" % (show(a), show(v)) for a, v in t[2]),
                                  " /" if t[3] else "")
    if k == "D":
        return "Doctype(%s,%s,%s,%s)" % tuple("-" if x is None else show(x) if isinstance(x, str) else
                                               ("correct" if x else "quirks") for x in t[1:])
    if k == "ERR":
        return "RAISES(%s)" % t[1]
    return repr(t)


def show(s, limit=60):
    r = ascii(s)
    return r if len(r) <= limit else r[:limit - 10] + "…(%d chars)" % len(s)


def show_toks(ts, limit=160):
    r = " ".join(show_tok(t) for t in ts)
    return r if len(r) <= limit else r[:limit] + "…"


# ----------------------------------------------------------------------------- shrinking (batched ddmin)
def shrink_all(cases):
    """cases: list of (state, lst, cdata, text) that all give `diff`.  Returns list of (shrunk case, diff line)."""
    n = len(cases)
    cur = list(cases)
    chunk = [max(1, len(c[3]) // 2) for c in cur]
    active = set(range(n))
    # 1. simplify configuration where the difference survives
    def simpler_cfgs(c):
        st, lst, cd, text = c
        res = []
        if cd:
            res.append((st, lst, False, text))
        if lst is not None:
            res.append((st, None, cd, text))
        if st != "dataState":
            res.append(("dataState", lst, cd, text))
        return res
    for _ in range(3):
        reqs, owner = [], []
        for i in range(n):
            for cand in simpler_cfgs(cur[i]):
                reqs.append(tc.req("tokcmp", cand))
                owner.append((i, cand))
        out = tc.run_driver(reqs)
        done = set()
        for (i, cand), line in zip(owner, out):
            if i not in done and line.startswith("diff "):
                cur[i] = cand
                done.add(i)
        if not done:
            break
    # 2. delete chunks
    rounds = 0
    while active:
        rounds += 1
        reqs, owner = [], []
        for i in active:
            st, lst, cd, text = cur[i]
            k = chunk[i]
            for pos in range(0, len(text), k):
                cand = text[:pos] + text[pos + k:]
                reqs.append(tc.req("tokcmp", (st, lst, cd, cand)))
                owner.append((i, cand))
        out = tc.run_driver(reqs)
        progressed = set()
        for (i, cand), line in zip(owner, out):
            if i in progressed:
                continue
            if line.startswith("diff "):
                cur[i] = cur[i][:3] + (cand,)
                progressed.add(i)
        for i in list(active):
            if i in progressed:
                chunk[i] = max(1, min(chunk[i], len(cur[i][3]) // 2 if len(cur[i][3]) > 1 else 1))
            elif chunk[i] > 1:
                chunk[i] = chunk[i] // 2
            else:
                active.discard(i)
            if len(cur[i][3]) == 0:
                active.discard(i)
    # 3. configuration once more + final lines
    for _ in range(3):
        reqs, owner = [], []
        for i in range(n):
            for cand in simpler_cfgs(cur[i]):
                reqs.append(tc.req("tokcmp", cand))
                owner.append((i, cand))
        out = tc.run_driver(reqs)
        done = set()
        for (i, cand), line in zip(owner, out):
            if i not in done and line.startswith("diff "):
                cur[i] = cand
                done.add(i)
        if not done:
            break
    out = tc.run_driver([tc.req("tokcmp", c) for c in cur])
    return list(zip(cur, out))


# ----------------------------------------------------------------------------- classification
WS = " \n\t\x0c"


def classify(case, mtoks, stoks):
    """stable label for a (shrunk) difference.  `mtoks` / `stoks`: decoded canonical model / spec tokens."""
    st, lst, cd, text = case
    if mtoks and mtoks[0][0] == "ERR" or any(t[0] == "ERR" for t in mtoks):
        err = [t for t in mtoks if t[0] == "ERR"][0][1]
        if err.startswith("ValueError"):
            return "py-int-digit-limit"
        return "model-raises-" + err.split(":")[0]
    if any(t[0] == "ERR" for t in stoks):
        return "SPEC-ERROR-" + [t for t in stoks if t[0] == "ERR"][0][1]
    for rule, label in RULES:
        if rule(case, mtoks, stoks):
            return label
    return "UNCLASSIFIED"


def _has(kind, toks):
    return any(t[0] == kind for t in toks)


def _comments(toks):
    return [t[1] for t in toks if t[0] == "M"]


def _chars(toks):
    return "".join(t[1] for t in toks if t[0] == "C")


RULES = []


def rule(label):
    def deco(f):
        RULES.append((f, label))
        return f
    return deco


def _ascii_lower(s):
    return "".join(chr(ord(ch) + 32) if "A" <= ch <= "Z" else ch for ch in s)


@rule("appropriate-end-tag/last-start-tag-has-ascii-uppercase")
def _r_upper(case, m, s):
    # the caller supplied a "last start tag" that the tokenizer could never have emitted (tag names are
    # ASCII-lowercased): html5lib compares with str.lower() on both sides, the standard compares exactly
    lst = case[1]
    return lst is not None and lst != _ascii_lower(lst) and "</" in case[3]


def _spec_tokens(case):
    """canonical tokens of the WHATWG reference (H5.Spec.Tokenizer, driver op spec-tok) on another case"""
    return dec_line(tc.run_driver([tc.req("spec-tok", case)], shards=1)[0])


@rule("appropriate-end-tag/unicode-lowercasing")
def _r_unilower(case, m, s):
    # last start tag is non-ASCII but its Unicode lower-casing is plain ASCII (U+212A KELVIN SIGN -> 'k'): html5lib
    # compares str.lower() of both sides, so `</k>` / `</K>` is the appropriate end tag.  The recorded defect and
    # nothing else: the observed tokens are exactly what the standard prescribes for the lower-cased last start tag.
    lst = case[1]
    if lst is None or lst.isascii() or "</" not in case[3]:
        return False
    low = lst.lower()
    if not low.isascii() or low == lst:
        return False
    return _spec_tokens((case[0], low, case[2], case[3])) == m


def cdata_nul_candidates(text):
    """inputs in which the NULs inside CDATA sections are already U+FFFD: the recorded defect `nul-in-cdata-section`
    (html5lib replaces them in the tokenizer, the standard leaves that to the tree builder) explains a difference
    exactly when the real tokenization of `text` equals the WHATWG tokenization of one of these.  `<![CDATA[` may also
    occur where it does not open a section (comment, attribute value), hence every subset of the occurrences."""
    spans, pos = [], 0
    while True:
        k = text.find("<![CDATA[", pos)
        if k < 0:
            break
        e = text.find("]]>", k)
        e = len(text) if e < 0 else e
        if "\x00" in text[k:e]:
            spans.append((k, e))
        pos = k + 9
    spans = spans[:4]
    out = []
    for mask in range(1, 1 << len(spans)):
        t = text
        for i, (k, e) in enumerate(spans):
            if mask >> i & 1:
                t = t[:k] + t[k:e].replace("\x00", "\ufffd") + t[e:]
        out.append(t)
    return out


# ----------------------------------------------------------------------------- extra generators
EXTRA_PREFIXES = [
    # (state, lastStartTag, cdata, prefix)
    ("dataState", None, False, p) for p in [
        "<!--<", "<!--a<", "<!--a<!", "<!--a<!-", "<!--a<!--", "<!--a<!--a", "<!--a--!", "<!--a--!-", "<!--a---",
        "<!--a<<", "<!--->", "<!--a--!--", "<!---a", "<!----", "<!--a-a",
        "<!DocType", "<!doctype a pUbLiC", "<!doctype a sYsTeM", "<!DOCTYPE a PUBLIC\"x\"", "<!DOCTYPE a PUBLIC 'x' \"y\"",
        "<!DOCTYPE a PUBLIC 'x' 'y' ", "<!DOCTYPE a SYSTEM 'y' ", "<!DOCTYPE a SYSTEM 'y'z", "<!DOCTYPE A", "<!DOCTYPE\n",
        "<!DOCTYPE a PUBLIC 'x'z", "<!DOCTYPE a PUBLIC x", "<!DOCTYPE a SYSTEM x", "<!DOCTYPE a PUBLICX",
        "<!DOCTYPE a PUBLIC 'x\"", "<!DOCTYPE a PUBLIC \"x'", "<!DOCTYPE a SYSTEM 'y\"", "<!DOCTYPE a SYSTEM \"y'", "<!DOCTYPE a PUBLIC 'x' 'y\"",
        "<!DOCTYPE a PUBLIC 'xx", "<!DOCTYPE a PUBLIC \"xx", "<!DOCTYPE a SYSTEM 'yy", "<!DOCTYPE a SYSTEM \"yy",
        "<a b='x' ", "<a b='x'/", "<a b \"", "<a b=c ", "</a b=c ", "<a b='x'c", "<a b=x b", "<a b b", "<a B=1 b", "<A/B",
        "<a/ b", "<a b=\"x\"/ ", "</a/", "</a b='c'", "<a\x00", "<a b\x00", "<a b=\x00", "<a b='\x00",
        "&#x1", "&#X1f", "&#12", "&#x", "&#X", "<a b=&#x1", "<a b=\"&#12", "<a b='&ampa", "<a b=&amp=", "&notin", "&notit",
        "&ampamp", "&amp;a", "<a b=&", "<a b=&#", "<a b='&#x", "<a b=&lt", "<a b=\"&lt", "<a b=\"&lt;", "&#x80", "&#128",
        "&#xD80", "&#x10FFF", "&#x11000", "&#0", "&#00", "&#x0",
    ]
] + [
    ("dataState", None, True, p) for p in ["<![CDATA[", "<![CDATA[]", "<![CDATA[]]", "<![CDATA[]]]", "<![CDATA[a]a", "<![CDATA[a]]a",
                                            "<![cdata[", "<![CDATA", "<![CDATA[a]]>"]
] + [
    ("scriptDataState", lst, False, p) for lst in (None, "script", "a") for p in [
        "<!--<SCRIPT", "<!--<ScRiPt>x</SCRIPT", "<!--<script>x</SCRIPT", "<!--<script/x</script/", "<!--<script\nx</script\n",
        "<!--<scripts", "<!--<script>x</scripts", "<!--<script>x<", "<!--<script>x</", "<!--<script>-<", "<!--<script>--<",
        "<!--<script>-->", "<!--x-", "<!--x--", "<!--x-->", "<!--x</script", "<!--x</SCRIPT", "<!--x</script ", "<!--x</a",
        "</SCRIPT", "</script", "</scripT ", "</script/", "<!-", "<!--\x00", "<!---\x00", "<!--<script>\x00", "<!--<script>-\x00",
        "<!--<script>--\x00",
    ]
] + [
    (st, lst, False, p) for st in ("rcdataState", "rawtextState") for lst in (None, "title", "a")
    for p in ["</TITLE", "</title", "</tItLe ", "</title/", "</titlex", "</a", "</A", "</", "<", "</title x=y", "&#x4", "&am", "&amp"]
]

SIG = list("<>/!-?=\"'&#;") + ["a", "b", "x", "X", "A", "1", "0", "f", " ", "\n", "\t", "\x0c", "\x00", "]", "[", "`",
                             "\u00e9", "s", "c", "r", "i", "p", "t", "-", "-", "<", "<", "!", "/", "&", ">"]


def gen_extra_prefixed():
    alpha = tc.ALPHA + ["\t", "\x0c", "X", "f", "["]
    sufs = [""] + alpha + [a + b for a in alpha for b in alpha]
    for st, lst, cd, p in EXTRA_PREFIXES:
        for suf in sufs:
            yield (st, lst, cd, p + suf)


def gen_random_sig(rng, count):
    """random strings over an alphabet of tokenizer-significant characters, opened by a state-parking prefix"""
    openers = ["", "", "<", "<a ", "<a b=", "<a b='", '<a b="', "<!--", "<!", "<!DOCTYPE ", "<!DOCTYPE a PUBLIC ", "<!DOCTYPE a SYSTEM",
               "</", "&", "&#", "&#x", "<![CDATA[", "<!--<script", "<!--<script>", "<a b=c ", "</a "]
    lsts = [None, "a", "b", "script", "title"]
    for _ in range(count):
        n = rng.choice((3, 4, 5, 6, 8, 10, 14))
        text = rng.choice(openers) + "".join(rng.choice(SIG) for _ in range(n))
        state = rng.choice(tc.START_STATES) if rng.random() < 0.5 else "dataState"
        yield (state, rng.choice(lsts), rng.random() < 0.4, text)


def gen_named_refs():
    """every name of the named character reference table, followed by every kind of next character,
    in data and in the three attribute-value states (also: name cut short by one character)"""
    from html5lib.constants import entities
    names = sorted(entities)
    followers = ["", ";", "=", "a", "Z", "5", " ", "<", "&", "'", '"', ">", "#"]
    ctxs = [("", ""), ("<a b=", ">"), ("<a b='", "'>"), ('<a b="', '">')]
    for name in names:
        for f in followers:
            for pre, post in ctxs:
                yield ("dataState", None, False, pre + "&" + name + f + post)
        yield ("dataState", None, False, "&" + name[:-1])
        yield ("rcdataState", None, False, "&" + name + "x")
        yield ("dataState", None, False, "<a b='&" + name[:-1] + "='>")


def gen_numeric_refs():
    vals = [0, 1, 8, 9, 10, 11, 12, 13, 14, 31, 32, 65, 127, 128, 129, 130, 0x8D, 0x8E, 0x8F, 0x90, 0x91, 0x9D, 0x9E, 0x9F, 0xA0,
            0xD7FF, 0xD800, 0xDBFF, 0xDC00, 0xDFFF, 0xE000, 0xFDCF, 0xFDD0, 0xFDEF, 0xFDF0, 0xFFFD, 0xFFFE, 0xFFFF, 0x10000,
            0x1FFFE, 0x1FFFF, 0x2FFFE, 0x10FFFD, 0x10FFFE, 0x10FFFF, 0x110000, 0x110001, 0x7FFFFFFF, 0xFFFFFFFF, 0x100000041,
            2 ** 64 + 65]
    vals += list(range(0x80, 0xA0))
    for v in vals:
        for form in ("&#%d", "&#x%x", "&#X%X", "&#0%d", "&#x000%x"):
            for f in (";", "", "x", " ", "<", "=", "g", "&"):
                for pre, post in (("", ""), ("<a b=", ">"), ("<a b='", "'>")):
                    yield ("dataState", None, False, pre + (form % v) + f + post)
        yield ("rcdataState", None, False, "&#%d;" % v)


def check_numref():
    """Spec.numericRef against the model's numCharRef (validated against the real code by tok_corr --selfcheck)
    for every value up to 0x110100 and some large ones: the resulting character must agree, and an error must be
    reported by both or by neither"""
    vals = list(range(0, 0x110100)) + [2 ** 31, 2 ** 32, 2 ** 32 + 65, 2 ** 64 + 7, 10 ** 30]
    out = tc.run_driver(["spec-numref %d" % v for v in vals] + ["numcharref %d" % v for v in vals])
    a, b = out[:len(vals)], out[len(vals):]
    bad = []
    for v, x, y in zip(vals, a, b):
        xs, ys = x.split(" "), y.split(" ")
        if xs[1] != ys[1] or (xs[2] == "~") != (ys[2] == "~"):
            bad.append((v, x, y[:40]))
    return len(vals), bad


# ----------------------------------------------------------------------------- main
def main():
    ap = argparse.ArgumentParser()
    ap.add_argument("seed", type=int)
    ap.add_argument("count", type=int, help="number of random soup cases")
    ap.add_argument("--exh", type=int, default=3)
    ap.add_argument("--exh-data", type=int, default=4)
    ap.add_argument("--suffix", type=int, default=2)
    ap.add_argument("--sample", type=int, default=10, help="run the real tokenizer on every K-th case")
    ap.add_argument("--json", default=None, help="dump the class table as JSON")
    ap.add_argument("--examples", type=int, default=0, help="print N extra shrunk witnesses per class")
    args = ap.parse_args()
    if not os.path.exists(tc.DRIVER):
        sys.exit("driver not built: cd %s && lake build driver" % tc.LEAN)

    rng = random.Random(args.seed)
    cfgs = [(s, l, c) for s in tc.START_STATES for l in (None, "a", "b") for c in (False, True)]
    batches = [
        ("special", list(tc.gen_special())),
        ("exhaustive<=%d x30cfg" % args.exh, list(tc.gen_exhaustive(args.exh, cfgs))),
        ("exhaustive<=%d data" % args.exh_data, list(tc.gen_exhaustive(args.exh_data, [("dataState", None, False)]))),
        ("prefix+suffix<=%d" % args.suffix, list(tc.gen_prefixed(args.suffix))),
    ]
    batches.append(("extra prefix+suffix<=2", list(gen_extra_prefixed())))
    batches.append(("named refs x followers", list(gen_named_refs())))
    batches.append(("numeric refs", list(gen_numeric_refs())))
    batches.append(("random significant", list(gen_random_sig(rng, args.count // 2))))
    done = 0
    while done < args.count:
        k = min(100000, args.count - done)
        batches.append(("soup[%d..%d)" % (done, done + k), list(tc.gen_soup(rng, k))))
        done += k

    total = 0
    ndiff = 0
    nreal = 0
    real_vs_model_bad = []
    real_vs_spec_diff = 0
    fuel_bad = []
    maxslack = -10 ** 9
    diffs = []          # (case, origin) ; origin in {"model", "real"}
    with Pool(os.cpu_count()) as pool:
        for label, cases in batches:
            t0 = time.time()
            n = len(cases)
            sample_idx = list(range(0, n, args.sample)) if args.sample else []
            sample_cases = [cases[i] for i in sample_idx]
            reals_async = pool.map_async(real_canon, sample_cases, chunksize=200)
            lines = [tc.req("tokcmp", c) for c in cases] + [tc.req("spec-steps", c) for c in cases] + \
                    [tc.req("spec-tok", c) for c in sample_cases] + [tc.req("model-canon", c) for c in sample_cases]
            out = tc.run_driver(lines)
            cmp_, steps = out[:n], out[n:2 * n]
            spec_s = out[2 * n:2 * n + len(sample_cases)]
            model_s = out[2 * n + len(sample_cases):]
            reals = reals_async.get()
            bdiff = 0
            for i, c in enumerate(cases):
                if cmp_[i] != "same":
                    if not cmp_[i].startswith("diff "):
                        raise RuntimeError("driver: %r for %r" % (cmp_[i], c))
                    bdiff += 1
                    diffs.append(c)
                if steps[i].startswith("ok "):
                    sl = int(steps[i][3:]) - 3 * len(c[3])
                    maxslack = max(maxslack, sl)
                    if sl > 3:
                        fuel_bad.append((c, steps[i]))
                else:
                    fuel_bad.append((c, steps[i]))
            breal = 0
            for j, c in enumerate(sample_cases):
                r = reals[j]
                if not wire.same(r, model_s[j]):
                    real_vs_model_bad.append((c, r, model_s[j]))
                if r != spec_s[j]:
                    breal += 1
                    # must coincide with a tokcmp diff of the same case (already in `diffs`)
                    if cmp_[sample_idx[j]] == "same":
                        real_vs_model_bad.append((c, r, "tokcmp=same but real!=spec: " + spec_s[j]))
                elif cmp_[sample_idx[j]] != "same" and not model_s[j].startswith("err "):
                    real_vs_model_bad.append((c, r, "tokcmp=diff but real==spec"))
            total += n
            ndiff += bdiff
            nreal += len(sample_cases)
            real_vs_spec_diff += breal
            print("%-26s %8d cases  %7d model!=spec   real sample %6d: %6d real!=spec   %6.1fs" %
                  (label, n, bdiff, len(sample_cases), breal, time.time() - t0))
            sys.stdout.flush()

    # shrink + classify (unique cases only)
    t0 = time.time()
    uniq = {}
    for c in diffs:
        uniq[c] = uniq.get(c, 0) + 1
    ucases = list(uniq)
    shrunk = []
    B = 20000
    for i in range(0, len(ucases), B):
        shrunk += shrink_all(ucases[i:i + B])
    classes = {}
    for c0, (c, line) in zip(ucases, shrunk):
        m, s = split_diff(line)
        mt, stt = dec_line(m), dec_line(s)
        lab = classify(c, mt, stt)
        e = classes.setdefault(lab, {"count": 0, "witnesses": {}})
        e["count"] += uniq[c0]
        key = (len(c[3]), c[0] != "dataState", c[1] is not None, c[2], c[3])
        if c not in e["witnesses"]:
            e["witnesses"][c] = (key, mt, stt, c0)
    print("shrunk + classified %d differing cases (%d unique) in %.1fs" % (len(diffs), len(ucases), time.time() - t0))
    print()
    print("%-44s %8s  %s" % ("class", "count", "minimal witness (state, lastStartTag, cdata, input) / model / spec"))
    table = []
    for lab in sorted(classes, key=lambda l: (-classes[l]["count"], l)):
        e = classes[lab]
        ws = sorted(e["witnesses"].items(), key=lambda kv: kv[1][0])
        c, (_k, mt, stt, c0) = ws[0]
        print("%-44s %8d  %s %r cdata=%d %s" % (lab, e["count"], c[0], c[1], c[2], show(c[3], 80)))
        print("%-54s   model: %s" % ("", show_toks(mt)))
        print("%-54s   spec : %s" % ("", show_toks(stt)))
        for c2, (_k2, mt2, st2, _c02) in ws[1:1 + args.examples]:
            print("%-54s   also : %s %r cdata=%d %s | %s | %s" % ("", c2[0], c2[1], c2[2], show(c2[3], 60),
                                                               show_toks(mt2, 80), show_toks(st2, 80)))
        table.append({"class": lab, "count": e["count"], "state": c[0], "lastStartTag": c[1], "cdata": c[2],
                      "input": c[3], "model": show_toks(mt, 400), "spec": show_toks(stt, 400),
                      "distinct_witnesses": len(ws)})
    if args.json:
        with open(args.json, "w") as f:
            json.dump(table, f, indent=1)
    print()
    print("TOTAL %d cases; model!=spec on %d; real tokenizer run on %d cases: real!=spec on %d, "
          "real!=model on %d" % (total, ndiff, nreal, real_vs_spec_diff, len(real_vs_model_bad)))
    nvals, nbad = check_numref()
    print("Spec.numericRef vs Model numCharRef on %d values: %d mismatches %s" % (nvals, len(nbad), nbad[:5]))
    print("spec steps: max(steps - 3*len(input)) = %d (claim: <= 3); violations/out-of-fuel: %d" %
          (maxslack, len(fuel_bad)))
    for b in real_vs_model_bad[:10]:
        print("  REAL/MODEL: %r\n     real : %s\n     other: %s" % (b[0], b[1][:300], b[2][:300]))
    for b in fuel_bad[:10]:
        print("  FUEL: %r %s" % b)
    unclassified = classes.get("UNCLASSIFIED", {"count": 0})["count"]
    bad = unclassified or real_vs_model_bad or fuel_bad or nbad or any(l.startswith("SPEC-ERROR") for l in classes)
    sys.exit(1 if bad else 0)


if __name__ == "__main__":
    main()
