#!/venv/bin/python
"""Correspondence test: html5lib._tokenizer.HTMLTokenizer  vs  the Lean model
(H5.Model.Tokenizer, through the compiled line-protocol driver).

    PYTHONPATH=/repo /venv/bin/python tools/tok_corr.py SEED COUNT [options]

What is compared, per case (state, lastStartTag, cdataAllowed, text):
  * tok      : exact token-for-token equality (types, data, attribute order, chunking of
               Characters/SpaceCharacters, ParseError codes + datavars), or the same
               exception class;
  * toksteps : the number of `self.state()` calls made by `__iter__` (also checked
               against the fuel claim  steps <= 2*len(text) + 3);
  * tokpull  : (soup cases) the pull interface `next`/`setState` against the real
               generator, with a parser-like rule switching the state between tokens.

The input-stream layer (`HTMLUnicodeInputStream`) is not part of the model:
  * CR is never generated (the stream rewrites it);
  * when a text contains a code point the stream flags (`invalid_unicode_re`: C0/C1
    controls, noncharacters, lone surrogates) the real tokenizer is run with
    `stream.reportCharacterErrors = None`, which switches exactly that layer off; in
    addition the unmodified tokenizer is run and compared modulo
    `invalid-codepoint` ParseError tokens.
"""
import argparse
import itertools
import os
import random
import subprocess
import sys
import time
from concurrent.futures import ThreadPoolExecutor
from multiprocessing import Pool

HERE = os.path.dirname(os.path.abspath(__file__))
sys.path.insert(0, HERE)
sys.path.insert(0, "/repo")

from h5 import wire  # noqa: E402
from html5lib import _tokenizer  # noqa: E402
from html5lib._inputstream import invalid_unicode_re  # noqa: E402
from html5lib.constants import tokenTypes  # noqa: E402

LEAN = os.path.join(os.path.dirname(HERE), "lean")
DRIVER = os.path.join(LEAN, ".lake", "build", "bin", "driver")

TYPE_NAME = {v: k for k, v in tokenTypes.items()}
START_STATES = ["dataState", "rcdataState", "rawtextState", "scriptDataState", "plaintextState"]
ALL_STATES = [n for n in dir(_tokenizer.HTMLTokenizer)
              if n.endswith("State") or n == "characterReferenceInRcdata"]
ALL_STATES = [n for n in ALL_STATES if n not in ("emitCurrentToken",)]
STATE_BIT = {n: 1 << i for i, n in enumerate(ALL_STATES)}


# ----------------------------------------------------------------------------- driver
def run_driver(lines, shards=None, timeout=6000):
    lines = list(lines)
    if not lines:
        return []
    ncpu = os.cpu_count() or 4
    shards = shards or max(1, min(ncpu, len(lines) // 200 + 1))
    size = (len(lines) + shards - 1) // shards
    parts = [lines[i:i + size] for i in range(0, len(lines), size)]

    def one(part):
        p = subprocess.run([DRIVER], input="\n".join(part) + "\n", stdout=subprocess.PIPE,
                           stderr=subprocess.PIPE, text=True, timeout=timeout)
        out = p.stdout.split("\n")
        if out and out[-1] == "":
            out.pop()
        if p.returncode != 0 or len(out) != len(part):
            raise RuntimeError("driver failed rc=%s got %d lines for %d requests: %s" %
                               (p.returncode, len(out), len(part), p.stderr[-500:]))
        return out

    with ThreadPoolExecutor(max_workers=len(parts)) as ex:
        res = list(ex.map(one, parts))
    return [x for part in res for x in part]


# ----------------------------------------------------------------------------- encoding
def dec(n):
    """str(n) without tripping the int->str digit limit (which we must not lift: the
    tokenizer under test depends on it)"""
    big = 10 ** 4000
    if n < big:
        return str(n)
    parts = []
    while n:
        n, r = divmod(n, big)
        parts.append(r)
    return str(parts[-1]) + "".join("%04000d" % p for p in reversed(parts[:-1]))


def enc_var(v):
    if isinstance(v, bool):
        raise TypeError("bool datavar")
    if isinstance(v, int):
        return wire.enc_str(dec(v))
    if v is None:
        return wire.enc_str("None")
    return wire.enc_str(v)


def enc_pairs(pairs):
    return wire.enc_list("%s %s" % (wire.enc_str(k), wire.enc_str(v)) for k, v in pairs)


def enc_ttok(t):
    ty = TYPE_NAME[t["type"]]
    if ty == "Doctype":
        return "D %s %s %s %s" % (wire.enc_ostr(t["name"]), wire.enc_ostr(t["publicId"]),
                                  wire.enc_ostr(t["systemId"]), wire.enc_bool(t["correct"]))
    if ty == "Characters":
        return "C " + wire.enc_str(t["data"])
    if ty == "SpaceCharacters":
        return "W " + wire.enc_str(t["data"])
    if ty == "StartTag":
        assert isinstance(t["data"], dict), t
        return "S %s %s %s" % (wire.enc_str(t["name"]), enc_pairs(t["data"].items()),
                               wire.enc_bool(t["selfClosing"]))
    if ty == "EndTag":
        assert isinstance(t["data"], list), t
        return "E %s %s %s" % (wire.enc_str(t["name"]), enc_pairs(t["data"]),
                               wire.enc_bool(t["selfClosing"]))
    if ty == "Comment":
        return "M " + wire.enc_str(t["data"])
    if ty == "ParseError":
        dv = t.get("datavars", {})
        return "P %s %s" % (wire.enc_str(t["data"]),
                            wire.enc_list("%s %s" % (wire.enc_str(k), enc_var(v)) for k, v in dv.items()))
    raise ValueError(ty)


def enc_ttoks(ts):
    return wire.enc_list(ts)


# ----------------------------------------------------------------------------- real side
class _Elem(object):
    def __init__(self, ns):
        self.namespace = ns


class _Tree(object):
    defaultNamespace = "http://www.w3.org/1999/xhtml"

    def __init__(self, cdata):
        self.set(cdata)

    def set(self, cdata):
        self.openElements = [_Elem("http://www.w3.org/2000/svg")] if cdata else []


class _Parser(object):
    def __init__(self, cdata):
        self.tree = _Tree(cdata)


class CountingTokenizer(_tokenizer.HTMLTokenizer):
    """the real tokenizer; every state method additionally records that it ran"""
    steps = 0
    visited = 0


def _wrap(name):
    orig = getattr(_tokenizer.HTMLTokenizer, name)
    bit = STATE_BIT[name]

    def state(self):
        self.steps += 1
        self.visited |= bit
        return orig(self)
    state.__name__ = name
    return state


for _n in ALL_STATES:
    setattr(CountingTokenizer, _n, _wrap(_n))

RC = ("title", "textarea")
RAW = ("style", "xmp", "iframe", "noembed", "noframes", "noscript")


def parser_rule(tok, token):
    """mirror of `pullRule` in Driver/Main.lean"""
    ty = TYPE_NAME[token["type"]]
    if ty == "StartTag":
        n = token["name"]
        if n in RC:
            tok.state = tok.rcdataState
        elif n in RAW:
            tok.state = tok.rawtextState
        elif n == "script":
            tok.state = tok.scriptDataState
        elif n == "plaintext":
            tok.state = tok.plaintextState
        elif n in ("svg", "math"):
            tok.parser.tree.set(True)
    elif ty == "EndTag":
        if token["name"] in ("svg", "math"):
            tok.parser.tree.set(False)


def make(case, layer_off):
    state, lst, cdata, text = case
    tok = CountingTokenizer(text, parser=_Parser(cdata))
    tok.state = getattr(tok, state)
    if lst is not None:
        tok.currentToken = {"type": "startTag", "name": lst}
    if layer_off:
        tok.stream.reportCharacterErrors = None
    return tok


def real(case, layer_off=False, pull=False, drop_invalid=False):
    """returns (response line, steps, visited mask)"""
    tok = make(case, layer_off)
    out = []
    try:
        for token in tok:
            # encode at once: the tokenizer may go on mutating the dict it yielded
            if drop_invalid and TYPE_NAME[token["type"]] == "ParseError" and token["data"] == "invalid-codepoint":
                pass
            else:
                out.append(enc_ttok(token))
            if pull:
                parser_rule(tok, token)
    except Exception as e:  # pylint:disable=broad-except
        return wire.exc_tag(e), tok.steps, tok.visited
    return "ok " + enc_ttoks(out), tok.steps, tok.visited


def work(case):
    text = case[3]
    flagged = invalid_unicode_re.search(text) is not None
    line, steps, visited = real(case, layer_off=flagged)
    modulo = real(case, drop_invalid=True)[0] if flagged else None
    pull = real(case, layer_off=flagged, pull=True)[0] if case[0] == "dataState" else None
    return line, steps, visited, modulo, pull


def req(op, case):
    state, lst, cdata, text = case
    return "%s %s %s %s %s" % (op, state, wire.enc_ostr(lst), wire.enc_bool(cdata), wire.enc_str(text))


def drop_invalid_line(line):
    """remove `P invalid-codepoint 0` tokens from an `ok` response line"""
    if not line.startswith("ok "):
        return line
    ws = line.split(" ")[1:]
    n = int(ws[0])
    inv = wire.enc_str("invalid-codepoint")
    toks = []
    i = 1
    arity = {"C": 1, "W": 1, "M": 1, "D": 4}
    for _ in range(n):
        k = ws[i]
        if k in arity:
            j = i + 1 + arity[k]
        elif k in ("S", "E"):
            j = i + 2 + 1 + 2 * int(ws[i + 2]) + 1
        elif k == "P":
            j = i + 2 + 1 + 2 * int(ws[i + 2])
        else:
            raise ValueError(line)
        t = ws[i:j]
        if not (k == "P" and t[1] == inv):
            toks.append(" ".join(t))
        i = j
    assert i == len(ws), line
    return "ok " + wire.enc_list(toks)


# ----------------------------------------------------------------------------- generators
ALPHA = ["<", ">", "/", "!", "-", "?", "=", '"', "'", "&", "#", ";", "x", "a", "A", "0",
         " ", "\n", "\x00", "]", "`", "\u00e9"]

# prefixes that park the tokenizer in a given state (dataState start unless noted)
PREFIXES_DATA = [
    "", "<", "</", "<a", "</a", "<a ", "<a b", "<a b ", "<a b=", '<a b="', "<a b='", "<a b=c",
    '<a b="c"', "<a/", "<a b c", "<a b=c d=e b", "</a b", "<!", "<!-", "<!--", "<!---", "<!--a", "<!--a-",
    "<!--a--", "<!--a--!", "<?", "<!D", "<!DOCTYP", "<!DOCTYPE", "<!DOCTYPE ", "<!DOCTYPE a", "<!DOCTYPE a ",
    "<!DOCTYPE a P", "<!DOCTYPE a PUBLI", "<!DOCTYPE a PUBLIC", "<!DOCTYPE a PUBLIC ", '<!DOCTYPE a PUBLIC "',
    "<!DOCTYPE a PUBLIC '", '<!DOCTYPE a PUBLIC "x"', '<!DOCTYPE a PUBLIC "x" ', "<!DOCTYPE a S",
    "<!DOCTYPE a SYSTE", "<!DOCTYPE a SYSTEM", "<!DOCTYPE a SYSTEM ", '<!DOCTYPE a SYSTEM "', "<!DOCTYPE a SYSTEM '",
    '<!DOCTYPE a SYSTEM "x"', "<!DOCTYPE a x", "<![", "<![CDAT", "<![CDATA[", "<![CDATA[a]", "<![CDATA[a]]",
    "&", "&#", "&#x", "&#1", "&#x1", "&a", "&am", "&amp", "&not", "&noti", '<a b="&', "<a b='&am", "<a b=&amp",
    "<a b=&not", "<a b='&noti",
]
PREFIXES_TEXT = [  # for rcdata / rawtext / script-data starts
    "", "<", "</", "</a", "</ax", "</x", "&", "&am", "&#", "a<", "</a ", "</a/", "</a b=",
]
PREFIXES_SCRIPT = [
    "<!", "<!-", "<!--", "<!--a", "<!---", "<!----", "<!--<", "<!--</", "<!--</a", "<!--</x", "<!--<a", "<!--<s",
    "<!--<script", "<!--<script ", "<!--<script>a", "<!--<script>-", "<!--<script>--", "<!--<script><",
    "<!--<script></", "<!--<script></s", "<!--<script></script", "<!--<script></script>", "<!--<scripx ",
    "<!--<script></scripx ",
]

FRAGMENTS = [
    "<!DOCTYPE html>", '<!DOCTYPE html PUBLIC "x" \'y\'>', "<!doctype html SYSTEM 'y'>", '<!DOCTYPE a PUBLIC"x""y">',
    "<!DOCTYPE", " PUBLIC ", " SYSTEM ", "<![CDATA[x]]>", "<![CDATA[", "]]>", "]]", "]",
    "<script><!--<script>--></script>", "<script>", "</script>", "<!--", "-->", "--!>", "--", "-", "<!---->",
    "<title>", "</title>", "<textarea>", "</textarea>", "<style>", "</style>", "<xmp>", "</xmp>", "<plaintext>",
    "<svg>", "</svg>", "<math>", "</math>", "</SCRIPT >", "</TiTlE/>", "</style x=y>",
    "&amp;", "&amp", "&notit;", "&not", "&notin;", "&AMP;", "&lt", "&gt;", "&Tab;", "&NewLine;", "&nbsp", "&copy=",
    "&copy1", "&copyx", "&NotEqualTilde;", "&fjlig;", "&xyz;", "&a", "&", "&;", "&ThickSpace;",
    "&#x80;", "&#0;", "&#1114112;", "&#xD800;", "&#xdfff", "&#x10FFFF;", "&#65", "&#x41;", "&#X41", "&#13;", "&#10;",
    "&#32;", "&#", "&#x", "&#xg", "&#;", "&#159;", "&#xFDD0;", "&#11;", "&#x1FFFE;", "&#127;", "&#9999999999999;",
    "<a href=x>", '<a href="x">', "<a href='x'>", "<a b c=d e='f' g=\"h\">", "<a b=1 b=2 B=3>", "<A B='&amp;'>",
    '<a b="&amp">', "<a b=&ampx>", "<a b='&amp='>", "<a b=&copy;c>", "<a b='&notit;'>", "<a b=c&#65>", "<br/>",
    "<br / >", "</a b=c>", "</a/>", "<a", "</a", "<a b", "<a b=", "<a/", "<DIV CLASS=X>", "<a =b>", "<a b==c>",
    "<a \"b\"='c'>", "<a b=`c`>", "<a b=c\x00d>", "<a\x00b \x00c=\x00>", "<a b<c>", "<a b='c'd>",
    "<", ">", "/", "!", "?", "=", '"', "'", "&", "#", ";", "x", "X", "a", "A", "0", "9", " ", "\t", "\n", "\x0c",
    "\x00", "[", "C", "D", "A", "T", "P", "U", "B", "L", "I", "S", "Y", "M", "E", "O", "script", "title",
    "<?xml?>", "</>", "</ x>", "<!x>", "<!-x>", "<>", "< a>", "<1>", "hello world", "  \n\t ",
    "\U0001F600", "\U0001FFFE", "\ud800", "\udc00", "\udbff", "\ufdd0", "\uffff", "\x01", "\x7f", "\x85", "\x0b",
    "\u00e9", "\u212a", "\u0130", "\u2028",
]


def gen_exhaustive(maxlen, cfgs):
    for n in range(maxlen + 1):
        for tup in itertools.product(ALPHA, repeat=n):
            text = "".join(tup)
            for (state, lst, cdata) in cfgs:
                yield (state, lst, cdata, text)


def gen_prefixed(sufflen):
    suffixes = ["".join(t) for n in range(sufflen + 1) for t in itertools.product(ALPHA, repeat=n)]
    for p in PREFIXES_DATA:
        cd = p.startswith("<![")
        for suf in suffixes:
            yield ("dataState", None, cd, p + suf)
    for state in ("rcdataState", "rawtextState", "scriptDataState"):
        for p in PREFIXES_TEXT:
            for lst in (None, "a", "b"):
                for suf in suffixes:
                    yield (state, lst, False, p + suf)
    for p in PREFIXES_SCRIPT:
        for lst in (None, "a", "script"):
            for suf in suffixes:
                yield ("scriptDataState", lst, False, p + suf)


def gen_soup(rng, count):
    lsts = [None, None, "a", "script", "title", "xmp", "style", "textarea", "b", "A", "\u212a", "plaintext"]
    for _ in range(count):
        k = rng.choice((1, 2, 3, 4, 5, 6, 8, 12, 20))
        text = "".join(rng.choice(FRAGMENTS) for _ in range(k))
        if rng.random() < 0.3 and text:
            # mutate: delete / duplicate / truncate
            i = rng.randrange(len(text))
            r = rng.random()
            if r < 0.4:
                text = text[:i] + text[i + 1:]
            elif r < 0.7:
                text = text[:i]
            else:
                text = text[:i] + rng.choice(ALPHA) + text[i:]
        state = rng.choice(START_STATES) if rng.random() < 0.6 else "dataState"
        yield (state, rng.choice(lsts), rng.random() < 0.5, text)


def gen_special():
    """fixed cases: int() digit limit, huge references, Kelvin sign, long inputs"""
    for st in ("dataState", "rcdataState"):
        yield (st, None, False, "&#" + "9" * 4300 + ";")
        yield (st, None, False, "&#" + "9" * 4301 + ";")
        yield (st, None, False, "&#" + "0" * 4301 + "1;")
        yield (st, None, False, "&#x" + "F" * 5000 + ";")
        yield (st, None, False, "&#x" + "0" * 5000 + "41")
    yield ("dataState", None, False, "<a b='&#" + "1" * 4301 + "'>")
    yield ("rcdataState", "\u212a", False, "</k>x</K >")
    yield ("rcdataState", "a\u212a", False, "</ak>x")
    yield ("rawtextState", "\u0130", False, "</i>x")
    yield ("rcdataState", "K", False, "</\u212a>")
    yield ("dataState", None, False, "<a\u212a></ak>")
    yield ("dataState", None, False, "x" * 9000 + "<a b=c>" * 100)
    yield ("dataState", None, True, "<![CDATA[" + "a]>b]]" * 50 + "]]>" + "\x00]]>")
    yield ("dataState", None, False, "<" * 3000)
    yield ("dataState", None, False, "&" * 3000)
    yield ("scriptDataState", "script", False, "<!--<script>" * 200)
    yield ("dataState", None, False, "<a " + " ".join("a%d=%d" % (i % 37, i) for i in range(300)) + ">")


def gen_anystate(rng, count):
    """start in *any* state with no current token / a stub: exercises the exception sites"""
    for _ in range(count):
        state = rng.choice(ALL_STATES)
        k = rng.choice((0, 1, 1, 2, 3))
        text = "".join(rng.choice(ALPHA + FRAGMENTS[:40]) for _ in range(k))
        yield (state, rng.choice([None, "a"]), rng.random() < 0.5, text)


# ----------------------------------------------------------------------------- checking
def check(cases, label, stats, pool, verbose=True, anystate=False):
    t0 = time.time()
    cases = list(cases)
    reals = pool.map(work, cases, chunksize=500)
    lines = [req("tok", c) for c in cases] + [req("toksteps", c) for c in cases]
    pull_idx = [i for i, r in enumerate(reals) if r[4] is not None]
    lines += [req("tokpull", cases[i]) for i in pull_idx]
    out = run_driver(lines)
    n = len(cases)
    model, msteps, mpull = out[:n], out[n:2 * n], dict(zip(pull_idx, out[2 * n:]))
    bad = []
    for i, c in enumerate(cases):
        rline, rsteps, visited, modulo, rpull = reals[i]
        stats["visited"] |= visited
        why = None
        if anystate and not same(rline, model[i]) and model[i].startswith("err ") and \
                not model[i].startswith("err OutOfFuel"):
            # outside the 5 entry states the current token can have the wrong shape; the model
            # then raises *some* PyErr where Python raises (maybe another class) or goes on
            # with a malformed token dict.  Only counted, not a disagreement.
            key = "model-raises/real-raises-other-class" if rline.startswith("err ") else "model-raises/real-continues"
            stats["shape"][key] = stats["shape"].get(key, 0) + 1
            continue
        if not same(rline, model[i]):
            why = "tok"
        elif rline.startswith("ok ") and msteps[i] != "ok %d" % rsteps:
            why = "steps(real=%d model=%s)" % (rsteps, msteps[i])
        elif modulo is not None and not same(modulo, drop_invalid_line(model[i])):
            why = "tok-modulo-invalid-codepoint"
        elif rpull is not None and not same(rpull, mpull[i]):
            why = "pull"
        if rline.startswith("ok "):
            slack = rsteps - 2 * len(c[3])
            if slack > stats["maxslack"]:
                stats["maxslack"], stats["slackcase"] = slack, c
            if slack > 3:
                why = why or "fuel-claim violated: steps=%d > 2*%d+3" % (rsteps, len(c[3]))
        else:
            stats["errs"][rline] = stats["errs"].get(rline, 0) + 1
        if why:
            bad.append((why, c, rline, model[i], rpull, mpull.get(i)))
    stats["cases"] += n
    stats["bad"] += len(bad)
    if verbose:
        print("%-28s %8d cases  %4d disagreements  %6.1fs" % (label, n, len(bad), time.time() - t0))
        sys.stdout.flush()
    for b in bad[:10]:
        report(b)
    return bad


def disagree(case):
    """re-run one case on both sides; returns a reason or None"""
    rline, rsteps, _v, modulo, rpull = work(case)
    ops = [req("tok", case), req("toksteps", case), req("tokpull", case)]
    m, ms, mp = run_driver(ops, shards=1)
    if not same(rline, m):
        return "tok"
    if rline.startswith("ok ") and ms != "ok %d" % rsteps:
        return "steps"
    if modulo is not None and not same(modulo, drop_invalid_line(m)):
        return "modulo"
    if rpull is not None and not same(rpull, mp):
        return "pull"
    return None


def shrink(case):
    state, lst, cd, text = case
    changed = True
    while changed and len(text) > 1:
        changed = False
        for i in range(len(text)):
            cand = text[:i] + text[i + 1:]
            if disagree((state, lst, cd, cand)):
                text = cand
                changed = True
                break
    return (state, lst, cd, text)


def report(b):
    why, c, rline, mline, rpull, mpull = b
    small = shrink(c) if len(c[3]) <= 200 else c
    print("  DISAGREE[%s] state=%s lastStartTag=%r cdata=%s input=%r" % (why, c[0], c[1], c[2], c[3][:300]))
    if small != c:
        print("    shrunk input: %r" % (small[3],))
        rline, _s, _v, _m, rpull = work(small)
        mline, mpull = run_driver([req("tok", small), req("tokpull", small)], shards=1)
    print("    real : %s" % rline[:600])
    print("    model: %s" % mline[:600])
    if why == "pull":
        print("    real pull : %s" % (rpull or "")[:600])
        print("    model pull: %s" % (mpull or "")[:600])


def same(real_line, model_line):
    if model_line.startswith("err LookupError:AttributeError"):
        model_line = "err AttributeError"
    return wire.same(real_line, model_line)


def selfcheck():
    """facts the model relies on"""
    ok = True
    # 1. str.lower(): the only code points whose lower-casing contains an ASCII character
    for cp in range(0x110000):
        low = chr(cp).lower()
        if cp < 128:
            exp = chr(cp + 32) if 65 <= cp <= 90 else chr(cp)
        elif cp == 0x212A:
            exp = "k"
        elif cp == 0x130:
            exp = "i\u0307"
        else:
            exp = None
        if exp is not None:
            good = low == exp
        else:
            good = len(low) >= 1 and all(ord(x) >= 128 for x in low)
        if not good:
            print("selfcheck: lower(U+%04X) = %r unexpected" % (cp, low))
            ok = False
    # context-sensitive lower-casing (final sigma) never produces ASCII
    assert all(ord(x) >= 128 for x in "\u03a3".lower() + "a\u03a3".lower()[1:])
    # 2. numCharRef against consumeNumberEntity for every value up to 0x110100 (+ some big)
    vals = list(range(0, 0x110100)) + [2 ** 32, 2 ** 64 + 7, 10 ** 30]
    out = run_driver(["numcharref %d" % v for v in vals])
    nbad = 0
    for v, line in zip(vals, out):
        tok = _tokenizer.HTMLTokenizer("%d;" % v)
        tok.stream.reportCharacterErrors = None
        from collections import deque
        tok.tokenQueue = deque()
        ch = tok.consumeNumberEntity(False)
        q = list(tok.tokenQueue)
        exp = "ok %s %s" % (wire.enc_str(ch), enc_ttok(q[0]) if q else "~")
        if len(q) > 1 or exp != line:
            nbad += 1
            if nbad < 10:
                print("selfcheck: numCharRef(%d): real %s model %s" % (v, exp, line))
    print("selfcheck: numCharRef vs consumeNumberEntity on %d values: %d mismatches" % (len(vals), nbad))
    # 3. the dead attributes really are dead
    import inspect
    src = inspect.getsource(_tokenizer.HTMLTokenizer)
    for name in ("escapeFlag", "lastFourChars", "self.escape "):
        print("selfcheck: occurrences of %-14r in HTMLTokenizer: %d" % (name, src.count(name)))
    return ok and nbad == 0


def main():
    ap = argparse.ArgumentParser()
    ap.add_argument("seed", type=int)
    ap.add_argument("count", type=int, help="number of random soup cases")
    ap.add_argument("--exh", type=int, default=3, help="exhaustive length over all 30 configurations")
    ap.add_argument("--exh-data", type=int, default=4, help="exhaustive length, dataState only")
    ap.add_argument("--suffix", type=int, default=2, help="suffix length for the prefix-driven enumeration")
    ap.add_argument("--anystate", type=int, default=20000, help="random cases starting in an arbitrary state")
    ap.add_argument("--selfcheck", action="store_true")
    ap.add_argument("--coverage", action="store_true", help="measure line coverage of _tokenizer.py (slow, serial)")
    args = ap.parse_args()

    if not os.path.exists(DRIVER):
        sys.exit("driver not built: cd %s && lake build driver" % LEAN)
    stats = {"cases": 0, "bad": 0, "visited": 0, "maxslack": -10 ** 9, "slackcase": None, "errs": {}, "shape": {}}
    okself = True
    if args.selfcheck:
        okself = selfcheck()
    rng = random.Random(args.seed)
    cfgs = [(s, l, c) for s in START_STATES for l in (None, "a", "b") for c in (False, True)]
    batches = [
        ("special", gen_special()),
        ("exhaustive<=%d x30cfg" % args.exh, gen_exhaustive(args.exh, cfgs)),
        ("exhaustive<=%d data" % args.exh_data, gen_exhaustive(args.exh_data, [("dataState", None, False)])),
        ("prefix+suffix<=%d" % args.suffix, gen_prefixed(args.suffix)),
    ]
    if args.coverage:
        import coverage
        cov = coverage.Coverage(include=["/repo/html5lib/_tokenizer.py"], data_file=None)
        cov.start()

    class Serial(object):
        def map(self, f, xs, chunksize=1):
            return [f(x) for x in xs]

    with (Pool(os.cpu_count()) if not args.coverage else _nullctx(Serial())) as pool:
        for label, gen in batches:
            check(gen, label, stats, pool)
        done = 0
        while done < args.count:
            k = min(100000, args.count - done)
            check(gen_soup(rng, k), "soup[%d..%d)" % (done, done + k), stats, pool)
            done += k
        main_cases, main_bad, main_slack = stats["cases"], stats["bad"], stats["maxslack"]
        if args.anystate:
            check(gen_anystate(rng, args.anystate), "any-start-state", stats, pool, anystate=True)
    if args.coverage:
        cov.stop()
        _f, stmts, _excl, missing, _fmt = cov.analysis2("/repo/html5lib/_tokenizer.py")
        print("coverage of _tokenizer.py: %d/%d statements; missing lines: %s" %
              (len(stmts) - len(missing), len(stmts), missing))

    reached = [n for n in ALL_STATES if stats["visited"] & STATE_BIT[n]]
    print("states reached: %d/%d; not reached: %s" %
          (len(reached), len(ALL_STATES), [n for n in ALL_STATES if n not in reached]))
    print("max(steps - 2*len(input)) from the 5 entry states = %d" % main_slack)
    print("max(steps - 2*len(input)) overall = %d  at %r" % (stats["maxslack"], stats["slackcase"] and
                                                     (stats["slackcase"][0], stats["slackcase"][3][:60])))
    print("real-side exceptions (agreed by the model): %s" % stats["errs"])
    print("any-start-state, wrong-shape current token (not disagreements): %s" % stats["shape"])
    print("TOTAL %d cases (%d from the 5 entry states), %d disagreements (%d in the main set)" %
          (stats["cases"], main_cases, stats["bad"], main_bad))
    sys.exit(0 if stats["bad"] == 0 and okself else 1)


class _nullctx(object):
    def __init__(self, x):
        self.x = x

    def __enter__(self):
        return self.x

    def __exit__(self, *a):
        return False


if __name__ == "__main__":
    main()
