#!/venv/bin/python
"""Correspondence test: Lean tree-construction model  vs  the real html5lib tree builders.

  PYTHONPATH=/repo /venv/bin/python tools/tree_corr.py SEED COUNT [options]

For every generated case (HTML text, document|fragment(container), scripting, namespaceHTMLElements)
the REAL parser is run with the dom and the etree builder; the exact token sequence that `mainLoop`
received is recorded (a copy taken at yield time) and fed to the model through the compiled driver
(`tree` op).  The real result tree is read by DIRECT traversal of the minidom / ElementTree objects and
canonicalised into the `encTree` wire format (adjacent text merged); trees, parse-error codes and
raised exceptions (class + function) are compared.

Options:
  --mode soup|exh|all     random generators (default) | exhaustive <=3 tag sequences | both
  --jobs N                worker processes for the Python side (default: cpu count)
  --batch N               cases per batch (default 20000)
  --show N                print at most N disagreements / backend differences in full (default 15)
  --vars                  also compare parse-error datavars (uses the `treev` op)
  --out FILE              write a JSON report
  --no-etree              only run the dom builder
"""
import argparse
import ast
import itertools
import json
import os
import random
import re
import sys
import time
import traceback
from multiprocessing import Pool

HERE = os.path.dirname(os.path.abspath(__file__))
sys.path.insert(0, HERE)
REPO = os.environ.get("H5_REPO", "/repo")
if REPO not in sys.path:
    sys.path.insert(0, REPO)
sys.setrecursionlimit(20000)

from h5 import lean as L           # noqa: E402  (paths inside point at this working copy)
from h5.wire import enc_str, enc_ostr, enc_list, enc_bool  # noqa: E402

import html5lib                     # noqa: E402
from html5lib import html5parser as P, _tokenizer, treebuilders, constants  # noqa: E402
from xml.dom import Node            # noqa: E402
import xml.etree.ElementTree as ET  # noqa: E402

assert os.path.realpath(os.path.dirname(html5lib.__file__)) == os.path.realpath(os.path.join(REPO, "html5lib"))

TOK = constants.tokenTypes
TOKNAME = {v: k for k, v in TOK.items()}

# ------------------------------------------------------------------------------------------------
# coverage instrumentation: every function of every phase class records (class, function)

HITS = set()


def _wrap(cls_name, fn):
    key = "%s" % fn.__qualname__

    def w(*a, **k):
        HITS.add(key)
        return fn(*a, **k)
    w.__name__ = fn.__name__
    w.__qualname__ = fn.__qualname__
    w._h5_wrapped = True
    return w


def phase_classes():
    phases = P.getPhases(False) if hasattr(P, "getPhases") else P._phases
    return list(phases.values())


ALL_FUNCS = set()


def instrument():
    import types
    seen = {}
    classes = phase_classes() + [P.Phase]
    for cls in classes:
        for name, val in list(vars(cls).items()):
            if isinstance(val, types.FunctionType) and not name.startswith("__"):
                if not getattr(val, "_h5_wrapped", False):
                    seen[val] = _wrap(cls.__name__, val)
                    ALL_FUNCS.add(val.__qualname__)
                    setattr(cls, name, seen[val])
    for cls in classes:
        for attr in ("startTagHandler", "endTagHandler"):
            d = vars(cls).get(attr)
            if d is None:
                continue
            for k, fn in list(dict.items(d)):
                if fn in seen:
                    dict.__setitem__(d, k, seen[fn])
            if d.default in seen:
                d.default = seen[d.default]


instrument()

# ------------------------------------------------------------------------------------------------
# token capture: copy every token at yield time (before the parser mutates it)

CAPTURE = []
_orig_iter = _tokenizer.HTMLTokenizer.__iter__


def _copy_token(t):
    c = dict(t)
    d = c.get("data")
    if isinstance(d, dict):
        c["data"] = list(d.items())
    elif isinstance(d, list):
        c["data"] = [tuple(x) for x in d]
    if "datavars" in c:
        c["datavars"] = dict(c["datavars"])
    return c


AFTER = []      # per token: (tokenizer state after the parser handled it, if changed; cdata condition)
STATE0 = []


INJECT = [None]   # token-level fuzzing: a list of token dicts that replaces the tokenizer's output


def _source(self):
    if INJECT[0] is not None:
        return iter([_thaw(t) for t in INJECT[0]])
    return _orig_iter(self)


def _thaw(t):
    """fresh dict objects for an injected token (the parser mutates tokens)"""
    c = dict(t)
    if c["type"] == TOK["StartTag"]:
        c["data"] = dict(c["data"])
    elif c["type"] == TOK["EndTag"]:
        c["data"] = [list(x) for x in c["data"]]
    return c


def _capturing_iter(self):
    STATE0.append(self.state.__name__)
    for t in _source(self):
        if INJECT[0] is not None and t["type"] in (TOK["StartTag"], TOK["EndTag"]):
            self.state = self.dataState        # what emitCurrentToken does before the token is yielded
        pre = self.state.__name__
        CAPTURE.append(_copy_token(t))
        yield t
        post = self.state.__name__
        tree = self.parser.tree
        cd = bool(tree.openElements and tree.openElements[-1].namespace != tree.defaultNamespace)
        AFTER.append((post if post != pre else None, cd))


_tokenizer.HTMLTokenizer.__iter__ = _capturing_iter


def enc_pairs(pairs):
    return enc_list("%s %s" % (enc_str(k), enc_str(str(v))) for k, v in pairs)


def enc_ttok(t):
    ty = TOKNAME[t["type"]]
    if ty == "Doctype":
        return "D %s %s %s %s" % (enc_ostr(t.get("name")), enc_ostr(t.get("publicId")), enc_ostr(t.get("systemId")),
                                  enc_bool(t.get("correct")))
    if ty == "Characters":
        return "C " + enc_str(t["data"])
    if ty == "SpaceCharacters":
        return "W " + enc_str(t["data"])
    if ty == "StartTag":
        return "S %s %s %s" % (enc_str(t["name"]), enc_pairs(t["data"]), enc_bool(t["selfClosing"]))
    if ty == "EndTag":
        return "E %s %s %s" % (enc_str(t["name"]), enc_pairs(t["data"]), enc_bool(t["selfClosing"]))
    if ty == "Comment":
        return "M " + enc_str(t["data"])
    if ty == "ParseError":
        return "P %s %s" % (enc_str(t["data"]), enc_pairs(sorted(t.get("datavars", {}).items())))
    raise ValueError(ty)


# ------------------------------------------------------------------------------------------------
# canonicalisation of the real result trees (direct traversal)

def _flush(out, buf):
    if buf:
        s = "".join(buf)
        if s:
            out.append("(t %s)" % enc_str(s))
        del buf[:]


def dom_children(node):
    out, buf = [], []
    for ch in node.childNodes:
        if ch.nodeType == Node.TEXT_NODE:
            buf.append(ch.data)
        else:
            _flush(out, buf)
            out.append(dom_tree(ch))
    _flush(out, buf)
    return enc_list(out)


def dom_tree(node):
    t = node.nodeType
    if t == Node.DOCUMENT_NODE:
        return "(doc %s)" % dom_children(node)
    if t == Node.DOCUMENT_FRAGMENT_NODE:
        return "(frag %s)" % dom_children(node)
    if t == Node.DOCUMENT_TYPE_NODE:
        return "(dt %s %s %s)" % (enc_ostr(node.name), enc_ostr(node.publicId), enc_ostr(node.systemId))
    if t == Node.COMMENT_NODE:
        return "(c %s)" % enc_str(node.data)
    if t == Node.ELEMENT_NODE:
        attrs = []
        m = node.attributes
        for a in m._attrs.values():
            if a.namespaceURI:
                attrs.append("%s %s %s" % (enc_str(a.namespaceURI), enc_str(a.localName), enc_str(a.value)))
            else:
                attrs.append("~ %s %s" % (enc_str(a.name), enc_str(a.value)))
        return "(el %s %s %s %s)" % (enc_ostr(node.namespaceURI), enc_str(node.tagName), enc_list(attrs),
                                     dom_children(node))
    raise ValueError("unexpected DOM node type %r" % t)


def _split(tag):
    if tag.startswith("{"):
        i = tag.index("}")
        return tag[1:i], tag[i + 1:]
    return None, tag


def et_children(el):
    out, buf = [], []
    if el.text:
        buf.append(el.text)
    for ch in el:
        _flush(out, buf)
        out.append(et_tree(ch))
        if ch.tail:
            buf.append(ch.tail)
    _flush(out, buf)
    return enc_list(out)


def et_tree(el):
    if el.tag == "DOCUMENT_ROOT":
        return "(doc %s)" % et_children(el)
    if el.tag == "DOCUMENT_FRAGMENT":
        return "(frag %s)" % et_children(el)
    if el.tag == "<!DOCTYPE>":
        return "(dt %s %s %s)" % (enc_ostr(el.text), enc_ostr(el.get("publicId")), enc_ostr(el.get("systemId")))
    if el.tag is ET.Comment:
        return "(c %s)" % enc_str(el.text or "")
    ns, name = _split(el.tag)
    attrs = []
    for k, v in el.attrib.items():
        ans, an = _split(k)
        attrs.append("%s %s %s" % (enc_ostr(ans), enc_str(an), enc_str(v)))
    return "(el %s %s %s %s)" % (enc_ostr(ns), enc_str(name), enc_list(attrs), et_children(el))


# ------------------------------------------------------------------------------------------------
# running the real parser

H5FILES = ("html5parser.py", os.path.join("treebuilders", "base.py"))


def exc_desc(e):
    """'err <Class>:<innermost html5parser/base function>:<line>'"""
    fn, line = "?", 0
    for fr in traceback.extract_tb(e.__traceback__):
        if fr.filename.endswith(H5FILES):
            fn, line = fr.name, fr.lineno
    return "err %s:%s:%d" % (type(e).__name__, fn, line)


class CaseTimeout(Exception):
    pass


def _alarm(signum, frame):
    raise CaseTimeout()


def run_real(builder, case):
    """returns (tokens, response)"""
    import signal
    signal.signal(signal.SIGPROF, _alarm)
    signal.setitimer(signal.ITIMER_PROF, CASE_TIMEOUT)
    try:
        return run_real_(builder, case)
    except CaseTimeout:
        return list(CAPTURE[:2000]), "err Timeout:?:0"
    finally:
        signal.setitimer(signal.ITIMER_PROF, 0)


CASE_TIMEOUT = 4.0
PARSE_RECLIMIT = 0      # 0: leave the (raised) limit alone; --recursion sets Python's default 1000


def run_real_(builder, case):
    text, container, scripting, nshtml = case
    if isinstance(text, list):
        INJECT[0] = text
        text = ""
    else:
        INJECT[0] = None
    del CAPTURE[:]
    del AFTER[:]
    del STATE0[:]
    if builder == "etree":
        tb = treebuilders.getTreeBuilder("etree", fullTree=True)
    else:
        tb = treebuilders.getTreeBuilder("dom")
    p = html5lib.HTMLParser(tree=tb, namespaceHTMLElements=nshtml)
    try:
        if PARSE_RECLIMIT:
            sys.setrecursionlimit(PARSE_RECLIMIT)
        try:
            if container is None:
                res = p.parse(text, scripting=scripting)
            else:
                res = p.parseFragment(text, container=container, scripting=scripting)
        finally:
            sys.setrecursionlimit(20000)
        if builder == "etree":
            tree = et_tree(res)
        else:
            tree = dom_tree(res)
        if OPTS_VARS:
            errs = enc_list("%s %s" % (enc_str(c), enc_pairs(sorted((k, str(v)) for k, v in dv.items())))
                            for _pos, c, dv in p.errors)
        else:
            errs = enc_list(enc_str(c) for _pos, c, _dv in p.errors)
        resp = "ok %s | %s" % (tree, errs)
        if OPTS_VARS:
            sw = [(i, a[0][:-5]) for i, a in enumerate(AFTER) if a[0] is not None]
            resp += " | %s | %s | %s" % (enc_list("%d %s" % x for x in sw), STATE0[0][:-5] if STATE0 else "data",
                                         "".join("1" if a[1] else "0" for a in AFTER) or "-")
    except CaseTimeout:
        raise
    except RecursionError as e:
        resp = "err RecursionError:?:0"
    except Exception as e:  # noqa
        resp = exc_desc(e)
    return list(CAPTURE), resp


OPTS_VARS = False


def request_line(case, tokens):
    text, container, scripting, nshtml = case
    op = "treev" if OPTS_VARS else "tree"
    return "%s %s %s %s %s" % (op, enc_ostr(None if container is None else container.lower()), enc_bool(scripting),
                               enc_bool(nshtml), enc_list(enc_ttok(t) for t in tokens))


# ------------------------------------------------------------------------------------------------
# generators

def dispatch_names():
    names = set()
    for cls in phase_classes():
        for attr in ("startTagHandler", "endTagHandler"):
            d = vars(cls).get(attr)
            if d is not None:
                names.update(dict.keys(d))
    return sorted(names)


def parser_literals():
    """string literals inside html5parser.py function bodies (doctype public ids etc.)"""
    src = open(os.path.join(REPO, "html5lib", "html5parser.py"), encoding="utf-8").read()
    tree = ast.parse(src)
    pubids, names = [], set()
    for n in ast.walk(tree):
        if isinstance(n, ast.Constant) and isinstance(n.value, str):
            v = n.value
            if v.startswith(("-//", "+//", "-/")):
                pubids.append(v)
            elif 0 < len(v) < 24 and all(c.isalnum() or c in "-" for c in v):
                names.add(v)
    return pubids, sorted(names)


DISPATCH = dispatch_names()
PUBIDS, LITNAMES = parser_literals()
SVG_NAMES = ["svg", "foreignObject", "desc", "title", "g", "path", "circle", "altGlyph", "clipPath", "feBlend",
             "linearGradient", "textPath", "font", "a", "script", "style", "image", "use"]
MATH_NAMES = ["math", "mi", "mo", "mn", "ms", "mtext", "annotation-xml", "mglyph", "malignmark", "mrow", "mfrac",
              "semantics", "maction"]
UNKNOWN = ["foo", "x-y", "blink", "template", "dialog", "rb", "rtc", "span", "ruby", "main", "abbr", "sub", "sup",
           "var", "video", "audio", "canvas", "slot", "search", "picture", "bdo", "q"]
ALLNAMES = sorted(set(DISPATCH) | set(SVG_NAMES) | set(MATH_NAMES) | set(UNKNOWN) | set(
    n for n in LITNAMES if n.isalnum() and n[0].isalpha() and n.islower()))
FORMATTING = ["a", "b", "big", "code", "em", "font", "i", "nobr", "s", "small", "strike", "strong", "tt", "u"]
SCOPERS = ["table", "select", "button", "applet", "marquee", "object", "svg", "math", "caption", "td", "th",
           "foreignObject", "desc", "title", "mi", "annotation-xml", "html", "template"]
BLOCKS = ["div", "p", "ul", "ol", "li", "dd", "dt", "dl", "h1", "h2", "h3", "h6", "blockquote", "address", "pre",
          "listing", "form", "center", "fieldset", "section", "details", "summary", "menu", "dir", "hgroup"]
TABLEY = ["table", "caption", "colgroup", "col", "tbody", "thead", "tfoot", "tr", "td", "th"]
VOIDS = ["br", "hr", "img", "input", "area", "embed", "keygen", "wbr", "param", "source", "track", "meta", "link",
         "base", "basefont", "bgsound", "command", "frame", "image", "isindex"]
HEADY = ["head", "title", "style", "script", "noscript", "noframes", "meta", "link", "base", "body", "html",
         "frameset", "frame"]
RAWISH = ["title", "textarea", "style", "script", "xmp", "iframe", "noembed", "noframes", "noscript", "plaintext"]

ATTRS = [("type", "hidden"), ("type", "HIDDEN"), ("type", "text"), ("encoding", "text/html"),
         ("encoding", "TEXT/HTML"), ("encoding", "application/xhtml+xml"), ("encoding", "text/xml"),
         ("color", "red"), ("face", "x"), ("size", "1"), ("xlink:href", "#a"), ("xlink:title", "t"),
         ("xml:lang", "en"), ("xmlns", "http://www.w3.org/2000/svg"), ("xmlns:xlink", "http://www.w3.org/1999/xlink"),
         ("definitionurl", "u"), ("definitionURL", "v"), ("prompt", "P: "), ("action", "/go"), ("name", "n"),
         ("id", "i1"), ("class", "c"), ("id", "i2"), ("a", "1"), ("b", "2"), ("viewbox", "0 0 1 1"),
         ("attributename", "x"), ("src", "h"), ("charset", "utf-8"), ("http-equiv", "content-type"),
         ("content", "text/html; charset=utf-8"), ("selected", ""), ("x", ""), ("dir", "l"), ("alt", "t")]
# NOTE: no plain `href` / `lang` / `title` here: on an HTML element minidom's setAttributeNode treats
# `xlink:href` and `href` (same "local name", no namespace) as the same attribute and drops one of
# them -- a dom-backend artefact that is exercised separately (KNOWN_BACKEND_CASES).
TEXTS = ["x", "y z", " ", "\n", "\n\n", " \n ", "a", "\t", "1", "&amp;", "&lt;", "\x00", "x\x00y", "é", "\r\n", "\x0c",
         "foo bar", "&#0;", "]]>", "\U0001F600"]
COMMENTS = ["<!--c-->", "<!---->", "<!-- a -- b -->", "<!x>", "<?pi?>", "</ >", "<!--", "<![CDATA[cd]]>",
            "<![CDATA[ ]]>", "<![CDATA[x]]"]
DOCTYPES = ["<!DOCTYPE html>", "<!doctype html>", "<!DOCTYPE>", "<!DOCTYPE foo>", "<!DOCTYPE html SYSTEM \"about:legacy-compat\">",
            "<!DOCTYPE html SYSTEM \"x\">", "<!DOCTYPE html PUBLIC \"\" \"\">", "<!DOCTYPE html PUBLIC \"html\">",
            "<!DOCTYPE html PUBLIC \"HTML\" \"\">", "<!DOCTYPE html X>", "<!DOCTYPE html PUBLIC \"x\" \"http://www.ibm.com/data/dtd/v11/ibmxhtml1-transitional.dtd\">",
            "<!DOCTYPE html SYSTEM \"HTTP://WWW.IBM.COM/data/dtd/v11/ibmxhtml1-transitional.dtd\">",
            "<!DOCTYPE html SYSTEM \"http://www.ibm.com/data/dtd/v11/ibmxhtml1-transitional.dtdK\">",
            "<!DOCTYPE html SYSTEM \"\">", "<!DOCTYPE html PUBLIC \"-//W3C//DTD HTML 4.01 Frameset//EN\">",
            "<!DOCTYPE html PUBLIC \"-//W3C//DTD HTML 4.01 Transitional//EN\" \"http://www.w3.org/TR/html4/loose.dtd\">",
            "<!DOCTYPE html PUBLIC \"-//W3C//DTD XHTML 1.0 Transitional//EN\" \"x\">",
            "<!DOCTYPE html PUBLIC \"-//W3C//DTD XHTML 1.0 Frameset//EN\">",
            "<!DOCTYPE html PUBLIC \"-//W3C//DTD HTML 4.01//EN\" \"http://www.w3.org/TR/html4/strict.dtd\">"]
CONTEXTS = ["", "<table>", "<table><tr>", "<table><tr><td>", "<table><tbody>", "<table><caption>", "<table><colgroup>",
            "<select>", "<table><tr><td><select>", "<table><select>", "<select><optgroup><option>", "<svg>", "<math>",
            "<svg><foreignObject>", "<svg><desc>", "<svg><title>", "<math><mi>", "<math><annotation-xml encoding=text/html>",
            "<math><annotation-xml>", "<frameset>", "<frameset></frameset>", "<head>", "<head><noscript>", "</head>",
            "<body>", "</body>", "</html>", "</body></html>", "<frameset></frameset></html>", "<p>", "<button>",
            "<a>", "<b><i>", "<ul><li>", "<dl><dd>", "<h1>", "<form>", "<nobr>", "<applet>", "<marquee>", "<object>",
            "<pre>", "<textarea>", "<title>", "<script>", "<style>", "<xmp>", "<iframe>", "<noscript>", "<plaintext>",
            "<ruby><rp>", "<table><tr><td><svg><desc>", "<b><table><tr><td><i>", "<a><table><a>", "<div><b>",
            "<table><b>", "<b><div><table><i>", "<html>", "<!DOCTYPE html>", "<!DOCTYPE html><html><head></head>",
            "<table><td><svg><desc><td>", "<svg><html>", "<table><svg><html>", "<math><mtext><table>", "<isindex>",
            "<table><form>", "<form><table><form>", "<table><input type=hidden>", "<table><input>", "<li><p><li>",
            "<button><p><button>", "<h1><h2>", "<option><optgroup>", "<select><select>", "<select><input>",
            "<caption><col>", "<colgroup><td>", "<tr><tr>", "<td><th>"]


def mixcase(rng, s):
    if rng.random() < 0.15:
        return "".join(c.upper() if rng.random() < 0.5 else c for c in s)
    return s


def attr_text(rng, name=None):
    n = rng.random()
    if n < 0.72:
        k = 0
    elif n < 0.9:
        k = 1
    else:
        k = rng.randint(2, 4)
    out = []
    for _ in range(k):
        a, v = rng.choice(ATTRS)
        q = rng.choice(['"', "'", ""])
        if q == "" and (v == "" or any(c in v for c in " \t\n\"'=<>`;/")):
            q = '"'
        out.append(" %s=%s%s%s" % (mixcase(rng, a), q, v, q))
    if name in ("input", "font", "annotation-xml", "isindex") and rng.random() < 0.5:
        a, v = {"input": ("type", "hidden"), "font": (rng.choice(["color", "face", "size"]), "1"),
                "annotation-xml": ("encoding", rng.choice(["text/html", "application/xhtml+xml", "x"])),
                "isindex": (rng.choice(["prompt", "action"]), "q")}[name]
        out.append(" %s=%s" % (a, v))
    return "".join(out)


def start(rng, name):
    sc = "/" if rng.random() < 0.08 else ""
    return "<%s%s%s>" % (mixcase(rng, name), attr_text(rng, name), sc)


def end(rng, name):
    x = rng.random()
    extra = " a=b" if x < 0.02 else ("/" if x < 0.04 else "")
    return "</%s%s>" % (mixcase(rng, name), extra)


def item(rng, pool):
    r = rng.random()
    if r < 0.50:
        return start(rng, rng.choice(pool))
    if r < 0.78:
        return end(rng, rng.choice(pool))
    if r < 0.93:
        return rng.choice(TEXTS)
    if r < 0.98:
        return rng.choice(COMMENTS)
    return rng.choice(DOCTYPES)


NAMECONFUSION = ["html", "table", "tbody", "thead", "tfoot", "tr", "td", "th", "caption", "colgroup", "col", "select",
                 "option", "optgroup", "frameset", "form", "button", "a", "applet", "marquee", "object", "script",
                 "title", "style", "textarea", "template", "noscript", "input", "label", "address", "rp", "rt",
                 "h7", "figure", "dialog", "plaintext", "xmp", "iframe", "nav"]


def gen_deep(rng):
    """long formatting / block / table mis-nesting with few distinct attribute values (Noah's ark,
    all 8 outer and 3 inner iterations of the adoption agency)"""
    pool = FORMATTING * 4 + ["div", "p", "table", "td", "tr", "button", "li", "applet", "blockquote", "h1", "span",
                             "select", "svg", "caption", "object"]
    n = rng.randint(10, 45)
    out = []
    for _ in range(n):
        r = rng.random()
        nm = rng.choice(pool)
        if r < 0.55:
            at = rng.choice(["", "", "", " id=1", " id=2", " class=c", " id=1 class=c", " class=c id=1"])
            out.append("<%s%s>" % (nm, at))
        elif r < 0.9:
            out.append("</%s>" % nm)
        else:
            out.append(rng.choice(["x", " ", "<!--c-->"]))
    return "".join(out)


def gen_confusion(rng):
    """foreign elements whose *names* are significant to the HTML algorithms (name-only tests)"""
    ctx = rng.choice(CONTEXTS[:40] + ["<table><tbody>", "<table><tbody><tr>", "<select>", "<frameset>", "<p>"])
    root = rng.choice(["<svg>", "<math>", "<svg><foreignObject><svg>", "<math><mi><math>", "<svg><desc><svg>"])
    names = [rng.choice(NAMECONFUSION) for _ in range(rng.randint(1, 3))]
    body = "".join("<%s>" % n for n in names)
    ip = rng.choice(["", "", "<foreignObject>", "<desc>", "<title>", "<mi>", "<annotation-xml encoding=text/html>"])
    tail_pool = NAMECONFUSION + ["p", "b", "div", "svg", "math", "br", "body"]
    tail = "".join(item(rng, tail_pool) for _ in range(rng.randint(0, 5)))
    return ctx + root + body + ip + tail


def gen_aaa(rng):
    """adoption agency with a furthest block and AFE entries between it and the formatting element,
    followed by closing the block and more text (the bookmark / AFE order becomes observable through
    reconstructActiveFormattingElements)"""
    out = []
    opened = []
    for _ in range(rng.randint(1, 3)):
        fs = [rng.choice(FORMATTING) for _ in range(rng.randint(1, 5))]
        for f in fs:
            out.append("<%s%s>" % (f, rng.choice(["", "", "", " id=1", " class=c"])))
            if rng.random() < 0.2:
                out.append(rng.choice(["x", " ", "<span>", "<br>"]))
        opened += fs
        blk = rng.choice(["div", "p", "li", "blockquote", "h1", "button", "address", "td", "table", "ul", "dd",
                          "center", "form", "object", "marquee"])
        nb = rng.randint(1, 2)
        for _ in range(nb):
            out.append("<%s>" % blk)
            if rng.random() < 0.4:
                f2 = rng.choice(FORMATTING)
                out.append("<%s>" % f2)
                opened.append(f2)
            if rng.random() < 0.4:
                out.append("y")
        for _ in range(rng.randint(1, 3)):
            out.append("</%s>" % rng.choice(opened))
            if rng.random() < 0.5:
                out.append(rng.choice(["z", "<i>", "<b>", "<a>", "<nobr>", " "]))
        r = rng.random()
        if r < 0.6:
            out.append("</%s>" % blk)
        elif r < 0.8:
            out.append("<%s>" % rng.choice(["p", "div", "table", "li"]))
        out.append(rng.choice(["w", "w", "<em>v", "<p>u", " "]))
    return "".join(out)


def gen_aaa8(rng):
    """>= 8 special elements below the formatting element: the outer loop of the adoption agency
    runs out of iterations with the clone still in the list of active formatting elements, which is
    the only way the bookmark (steps 8, 9.7, 14) becomes observable"""
    out = []
    f1 = rng.choice(FORMATTING)
    pre = [rng.choice(FORMATTING) for _ in range(rng.randint(0, 2))]
    for f in pre:
        out.append("<%s>" % f)
    out.append("<%s>" % f1)
    opened = pre + [f1]
    for _ in range(rng.randint(6, 11)):
        for _ in range(rng.randint(0, 2)):
            f = rng.choice(FORMATTING)
            out.append("<%s%s>" % (f, rng.choice(["", "", " id=1"])))
            opened.append(f)
        out.append("<%s>" % rng.choice(["div", "div", "p", "li", "blockquote", "ul", "address", "center"]))
        if rng.random() < 0.2:
            out.append("t")
    out.append("</%s>" % rng.choice([f1, f1, f1] + opened))
    for _ in range(rng.randint(0, 6)):
        r = rng.random()
        if r < 0.4:
            out.append("</%s>" % rng.choice(["div", "p", "li", "blockquote", "ul"] + opened))
        elif r < 0.7:
            out.append(rng.choice(["x", "y", " "]))
        else:
            out.append("<%s>" % rng.choice(FORMATTING + ["div", "p"]))
    out.append("w")
    return "".join(out)


def gen_text(rng):
    fam0 = rng.random()
    if fam0 < 0.03:
        return gen_aaa8(rng)
    if fam0 < 0.08:
        return gen_aaa(rng)
    if fam0 < 0.14:
        return gen_deep(rng)
    if fam0 < 0.20:
        return gen_confusion(rng)
    fam = rng.random()
    if fam < 0.22:      # wide soup over every name
        pool = ALLNAMES
        n = rng.randint(1, 14)
        body = "".join(item(rng, pool) for _ in range(n))
        pre = rng.choice(DOCTYPES) if rng.random() < 0.15 else ""
        return pre + body
    if fam < 0.50:      # hard: formatting x scoping x blocks x tables
        pool = FORMATTING * 3 + SCOPERS * 2 + BLOCKS + TABLEY * 2 + ["p", "a", "nobr", "form", "li", "option",
                                                                     "optgroup", "input", "br", "body", "html"]
        n = rng.randint(2, 18)
        return "".join(item(rng, pool) for _ in range(n))
    if fam < 0.72:      # context + short soup
        ctx = rng.choice(CONTEXTS)
        sub = rng.random()
        if sub < 0.3:
            pool = ALLNAMES
        elif sub < 0.6:
            pool = TABLEY + FORMATTING + ["select", "option", "optgroup", "input", "form", "p", "div", "svg", "math"]
        elif sub < 0.8:
            pool = SVG_NAMES + MATH_NAMES + FORMATTING + ["p", "table", "div", "font", "br", "body", "html", "head"]
        else:
            pool = HEADY + VOIDS + RAWISH + ["p", "div"]
        n = rng.randint(0, 8)
        return ctx + "".join(item(rng, pool) for _ in range(n))
    if fam < 0.80:      # stray end tag / start tag for any name in any context
        ctx = rng.choice(CONTEXTS)
        nm = rng.choice(ALLNAMES)
        tail = rng.choice(["", "x", " ", "<p>", "</p>", "<!--c-->"])
        if rng.random() < 0.6:
            return ctx + end(rng, nm) + tail
        return ctx + start(rng, nm) + tail + (end(rng, nm) if rng.random() < 0.5 else "")
    if fam < 0.88:      # head / frameset / after-body life cycle
        pool = HEADY + ["p", "div", "br", "x"] + VOIDS[:6]
        pre = rng.choice(DOCTYPES + [""] * 6)
        n = rng.randint(1, 10)
        return pre + "".join(item(rng, pool) for _ in range(n))
    if fam < 0.94:      # doctypes from the quirks tables
        pid = rng.choice(PUBIDS) if PUBIDS else "x"
        pid = mixcase(rng, pid) + rng.choice(["", "EN", "//EN", "x"])
        sysid = rng.choice([None, "", "x", "about:legacy-compat",
                            "http://www.ibm.com/data/dtd/v11/ibmxhtml1-transitional.dtd"])
        name = rng.choice(["html", "HTML", "htm", "html5"])
        d = "<!DOCTYPE %s PUBLIC \"%s\"%s>" % (name, pid, "" if sysid is None else " \"%s\"" % sysid)
        return d + "".join(item(rng, ["p", "table", "b"]) for _ in range(rng.randint(0, 3)))
    # rcdata / rawtext / pre newline handling
    nm = rng.choice(["pre", "listing", "textarea", "title", "style", "script", "xmp", "plaintext", "noscript",
                     "noframes", "iframe", "noembed"])
    inner = rng.choice(["\n", "\nx", "x", "\n\n", " \n", "", "<b>", "</%s" % nm, "<!--", "\x00"])
    ctx = rng.choice(["", "<table>", "<svg>", "<select>", "<head>", "<p>", "<table><tr><td>"])
    closing = rng.choice(["", "</%s>" % nm, "</%s>x" % nm, "</x>"])
    return ctx + "<%s>" % nm + inner + closing + "".join(item(rng, BLOCKS) for _ in range(rng.randint(0, 2)))


CONTAINERS = sorted(set(DISPATCH) | set(SVG_NAMES) | set(MATH_NAMES) | {"div", "DIV", "Table", "foo", "template"})


def gen_case(seed, index, tokens=False):
    rng = random.Random("%s/%d" % (seed, index))
    text = gen_tokens(rng) if tokens else gen_text(rng)
    if rng.random() < 0.62:
        container = None
    else:
        container = rng.choice(CONTAINERS) if rng.random() < 0.6 else rng.choice(
            ["table", "tr", "tbody", "td", "select", "colgroup", "caption", "head", "html", "body", "frameset",
             "title", "textarea", "script", "plaintext", "svg", "math", "p", "div", "div", "div", ""])
    scripting = rng.random() < 0.3
    nshtml = rng.random() < 0.85
    return (text, container, scripting, nshtml)


# regression / targeted inputs that always run first (minimal reproductions of every defect found and of
# the few lines random generation reaches rarely)
FIXED_CASES = [
    # witnesses of repaired deviations (afc19e8 special category, 0b01e4c feDropShadow): must agree with the WHATWG Spec now
    ("<b><main></b>", None, False, True), ("<b><summary></b>", None, False, True), ("<b><figcaption></b>", None, False, True),
    ("<b><hgroup></b>", None, False, True), ("<svg><desc><b></svg>x", None, False, True), ("<svg><fedropshadow>", None, False, True),
    ("<math><mi><b></math>x", None, False, True), ("<li><main><li>", None, False, True),
    ("<head></head><html a=1>", None, False, True),                       # AfterHeadPhase.startTagHtml
    ("<body a=1 b=2><body a=3 c=4>", None, False, True),                   # attribute already present
    ("<html a=1><html a=2 b=3>", None, False, True),
    ("<table><tbody><svg><thead></table>", None, False, True),             # NON-TERMINATION of mainLoop
    ("<table><tbody><svg><tfoot></table>", None, False, True),
    ("<table><svg><html>", None, False, True),                             # InTablePhase.processEOF assert
    ("<svg><colgroup><foreignObject><select></select>", None, False, True),  # resetInsertionMode assert (370)
    ("<svg><html><desc><table></table>", None, False, True),
    ("<table><tbody><svg><html></tbody>", None, False, True),              # clearStackToTableBodyContext assert
    ("<tr><b><p></b>", "table", False, True),                              # AttributeError insertBefore(.., None)
    ("<table><tr><strike><p></strike>", "tbody", False, True),
    ("x", "", False, True),                                                # container="" : assert in reset()
    ("<b><div><table><i>x</table></b>", None, False, True),                # etree loses nodes
    ("<table><b>", "div", False, True),                                    # etree loses foster-parented nodes
    ("<select><svg><html>", None, False, True),
    ("<frameset><svg><html>", None, False, True),
    ("<!DOCTYPE a:b><p>", None, False, True),                              # dom: doctype name prefix dropped
    ("<image/>", None, False, True),                                       # ack on the implied token only
    ("<isindex prompt=P action=A x=y/>", None, False, True),
    ("<textarea>\n\nx</textarea><pre>\n</pre><listing>\nx", None, False, True),
    ("<b><b><b><b><b>x</b></b></b></b></b>y", None, False, True),           # Noah's ark
    ("<a><div><a>", None, False, True),
    ("<b><i><u><div><div><div><div><div><div><div><div><div></b></div>x", None, False, True),  # bookmark
    # the three WHATWG deviations repaired in /repo (6523d65, 0929291, 5140af5): must AGREE with the Spec now
    ("<table><button><button>", None, False, True),                        # button token was dropped
    ("<b><center><li><div><u><div><div><div><p><i><address><blockquote></b>y", None, False, True),  # bookmark index
    ("<table><p><li>", None, False, True),                                 # foster parenting switched off
]

# inputs on which a back end deviates from the intended common semantics (= the model); printed with
# the relation that is expected, so a change of behaviour is noticed
KNOWN_BACKEND_CASES = [
    (("<p xml:lang=en lang=l>", None, False, True), "dom drops xml:lang (minidom setAttributeNode keys "
     "un-namespaced attributes by the part after ':')"),
    (("<p xlink:href=a href=b>", None, False, True), "dom drops xlink:href"),
    (("<!DOCTYPE a:b>", None, False, True), "dom keeps only 'b' as doctype name"),
    (("<!DOCTYPE>", None, False, True), "dom turns the empty doctype name into None"),
    (("<table><b>", "div", False, True), "etree fragment loses the foster-parented <b> "
     "(insertBefore does not update _childNodes, getFragment moves only _childNodes)"),
    (("<b><div><table><i>x</table></b>", None, False, True), "etree loses <i>x (same cause, via reparentChildren)"),
    (("<table><a>x<td>", "div", False, True), "etree fragment loses foster-parented subtree"),
]


def recursion_report():
    """RecursionError of the recursive generateImpliedEndTags: real (Python limit 1000) vs model
    (Cfg.maxRecursion = 1000).  Far from the limit both sides must agree; near it the real threshold
    depends on the Python stack depth at the call site, which the model does not track."""
    global PARSE_RECLIMIT
    PARSE_RECLIMIT = 1000
    paths = {
        "InBodyPhase.endTagBlock": ("<div>", "<rt>", "</div>"),
        "InBodyPhase.endTagBlock/optgroup": ("<div>", "<optgroup>", "</div>"),
        "InBodyPhase.endTagP": ("<p>", "<rt>", "</p>"),
        "InCellPhase.endTagTableCell": ("<table><tr><td>", "<rt>", "</td>"),
        "InBodyPhase.endTagListItem": ("<li>", "<rp>", "</li>"),
        "InBodyPhase.endTagOther": ("<span>", "<rt>", "</span>"),
    }
    bad = 0
    for name, (pre, rep, post) in paths.items():
        row = []
        for n in (10, 400, 800, 940, 960, 970, 980, 990, 999, 1000, 1001, 1200, 3000):
            case = (pre + rep * n + post, None, False, True)
            toks, real = run_real("dom", case)
            line = request_line(case, toks).replace("tree ", "treer 1000 ", 1)
            m = L.run_driver([line])[0]
            r_raised = real.startswith("err RecursionError")
            m_raised = m.startswith("err RecursionError")
            ok = (r_raised == m_raised)
            if n <= 800 or n >= 1200:
                if not ok or (not r_raised and not same_response(real, m, dom=True)):
                    bad += 1
            row.append("%d:%s/%s" % (n, "R" if r_raised else "-", "R" if m_raised else "-"))
        print("  %-36s %s" % (name, " ".join(row)))
    print("  (N:real/model, R = RecursionError).  disagreements outside 800 < N < 1200: %d" % bad)
    PARSE_RECLIMIT = 0
    return bad


TOKNAMES = None


def gen_tokens(rng):
    """a random token list as the tokenizer *could not necessarily* produce it (start tags in the text
    phase, empty or NUL character data, upper-case names, doctype without name, ...): the tree builder
    is compared on arbitrary token sequences"""
    global TOKNAMES
    if TOKNAMES is None:
        TOKNAMES = ALLNAMES + ["DIV", "Table", "SVG", "", "a:b", "x y", "h1", "h6"]
    pools = [TOKNAMES, FORMATTING + TABLEY + SCOPERS + BLOCKS, HEADY + RAWISH + VOIDS, SVG_NAMES + MATH_NAMES + NAMECONFUSION]
    pool = rng.choice(pools)
    out = []
    for _ in range(rng.randint(1, 14)):
        r = rng.random()
        if r < 0.45:
            k = rng.choice([0, 0, 0, 1, 2, 3])
            data = {}
            for _ in range(k):
                a, v = rng.choice(ATTRS)
                data[a if rng.random() < 0.9 else a.upper()] = v
            nm = rng.choice(pool)
            if nm in ("input", "font", "annotation-xml") and rng.random() < 0.5:
                data.update({"input": {"type": "hidden"}, "font": {"size": "1"}, "annotation-xml": {"encoding": "text/html"}}[nm])
            out.append({"type": TOK["StartTag"], "name": nm, "data": data, "selfClosing": rng.random() < 0.1,
                        "selfClosingAcknowledged": False})
        elif r < 0.72:
            out.append({"type": TOK["EndTag"], "name": rng.choice(pool),
                        "data": [] if rng.random() < 0.9 else [["a", "b"]], "selfClosing": rng.random() < 0.05})
        elif r < 0.84:
            out.append({"type": TOK["Characters"], "data": rng.choice(["x", "y z", "", "\x00", "a\x00", "\nq", " x", "é"])})
        elif r < 0.92:
            out.append({"type": TOK["SpaceCharacters"], "data": rng.choice([" ", "\n", "\n\n", "\t\n ", "", "\x0c"])})
        elif r < 0.96:
            out.append({"type": TOK["Comment"], "data": rng.choice(["c", "", "--", "\x00"])})
        elif r < 0.98:
            out.append({"type": TOK["Doctype"], "name": rng.choice(["html", "", None, "HTML", "x"]),
                        "publicId": rng.choice([None, "", "html", "-//W3C//DTD HTML 4.01 Frameset//", "-//w3c//dtd xhtml 1.0 frameset//x"]),
                        "systemId": rng.choice([None, "", "about:legacy-compat", "x"]), "correct": rng.random() < 0.8})
        else:
            pe = {"type": TOK["ParseError"], "data": rng.choice(["eof-in-comment", "made-up-code"])}
            if rng.random() < 0.5:
                pe["datavars"] = {"charAsInt": rng.randint(0, 99), "name": "n"}
            out.append(pe)
    return out


EXH_ALPHABET = ["table", "tr", "td", "caption", "select", "option", "b", "a", "p", "div", "li", "svg", "math", "mi",
                "foreignObject", "button", "applet", "html", "body", "head", "frameset", "form", "h1", "nobr", "br",
                "input", "textarea", "title", "colgroup", "font"]


def exh_symbols(limit):
    syms = []
    for nm in EXH_ALPHABET:
        syms.append("<%s>" % nm)
    for nm in ["table", "tr", "td", "select", "b", "a", "p", "div", "svg", "html", "body", "br", "form",
               "caption"]:
        syms.append("</%s>" % nm)
    syms += ["x", " ", "<!--c-->", "<!DOCTYPE html>"]
    return syms[:limit] if limit else syms


def exh_cases(maxlen, limit=0):
    syms = exh_symbols(limit)
    for n in range(0, maxlen + 1):
        for combo in itertools.product(syms, repeat=n):
            yield ("".join(combo), None, False, True)


# ------------------------------------------------------------------------------------------------
# worker

def work(args):
    cases, builders, opts_vars = args
    import resource
    resource.setrlimit(resource.RLIMIT_AS, (6 << 30, 6 << 30))
    global OPTS_VARS
    OPTS_VARS = opts_vars
    HITS.clear()
    out = []
    for case in cases:
        rec = {"case": case}
        toks_dom, resp_dom = run_real("dom", case)
        rec["dom"] = resp_dom
        rec["req"] = request_line(case, toks_dom)
        if "etree" in builders:
            toks_et, resp_et = run_real("etree", case)
            rec["etree"] = resp_et
            if [enc_ttok(t) for t in toks_et] != [enc_ttok(t) for t in toks_dom]:
                rec["req_etree"] = request_line(case, toks_et)
        out.append(rec)
    return out, set(HITS)


_DT = re.compile(r"\(dt (\S+) ")


def _dec_str(w):
    return "" if w == "-" else "".join(chr(int(x, 16)) for x in w.split("."))


def dom_view(model):
    """minidom's DocumentType keeps only the local part of a qualified name and turns an empty name
    into None (xml.dom.minidom.DocumentType.__init__): apply the same lossy map to the model's tree
    before comparing with the dom builder."""
    def fix(m):
        w = m.group(1)
        if w == "~":
            return m.group(0)
        name = _dec_str(w)
        if name and ":" in name:
            name = name.split(":", 1)[1]
        return "(dt %s " % enc_ostr(name if name else None)
    return _DT.sub(fix, model)


def norm_treev(model):
    """treev response -> 'ok tree | errors-with-sorted-vars' (drops the switch / initial-state fields)"""
    if not model.startswith("ok "):
        return model
    parts = model.split(" | ")
    tail = "".join(" | " + x for x in parts[2:])
    ws = parts[1].split()
    n = int(ws[0])
    i = 1
    out = []
    for _ in range(n):
        code = ws[i]
        k = int(ws[i + 1])
        pairs = [(ws[i + 2 + 2 * j], ws[i + 3 + 2 * j]) for j in range(k)]
        i += 2 + 2 * k
        pairs.sort(key=lambda p: _dec_str(p[0]))
        out.append("%s %s" % (code, " ".join([str(k)] + ["%s %s" % p for p in pairs])))
    return parts[0] + " | " + " ".join([str(n)] + out) + tail


def same_response(real, model, dom=False):
    """real: 'ok ...' or 'err Class:func:line';  model: 'ok ...' or 'err Class:Cls.func:detail'"""
    if OPTS_VARS:
        model = norm_treev(model)
    if real == model:
        return True
    if dom and model.startswith("ok ") and dom_view(model) == real:
        return True
    if real.startswith("err Timeout"):
        # the real parser did not terminate (killed after CASE_TIMEOUT): the model must run out of
        # fuel in the corresponding loop
        return model.startswith("err OutOfFuel:HTMLParser.mainLoop:reprocess")
    if real.startswith("err ") and model.startswith("err "):
        rc, rf = real[4:].split(":")[:2]
        parts = model[4:].split(":")
        mc = parts[0]
        mf = parts[1].split(".")[-1] if len(parts) > 1 else "?"
        if rc != mc:
            return False
        if rc == "RecursionError":
            return True
        return rf == mf
    return False


class _P:
    def __init__(self, text):
        self.w = text.replace("(", " ( ").replace(")", " ) ").split()
        self.i = 0

    def next(self):
        x = self.w[self.i]
        self.i += 1
        return x

    def ostr(self):
        w = self.next()
        return None if w == "~" else _dec_str(w)

    def tree(self, out, ind):
        assert self.next() == "("
        k = self.next()
        pad = "| " + "  " * ind
        if k in ("doc", "frag"):
            out.append("#" + k)
            for _ in range(int(self.next())):
                self.tree(out, ind)
        elif k == "dt":
            out.append("%s<!DOCTYPE %r %r %r>" % (pad, self.ostr(), self.ostr(), self.ostr()))
        elif k == "t":
            out.append("%s%r" % (pad, self.ostr()))
        elif k == "c":
            out.append("%s<!-- %r -->" % (pad, self.ostr()))
        elif k == "el":
            ns = self.ostr()
            name = self.ostr()
            short = {None: "", "http://www.w3.org/1999/xhtml": "", "http://www.w3.org/2000/svg": "svg ",
                     "http://www.w3.org/1998/Math/MathML": "math "}.get(ns, "{%s}" % ns)
            out.append("%s<%s%s>%s" % (pad, short, name, " (no ns)" if ns is None else ""))
            for _ in range(int(self.next())):
                ans, an, av = self.ostr(), self.ostr(), self.ostr()
                out.append("%s  %s%s=%r" % (pad, "" if ans is None else "{%s}" % ans, an, av))
            for _ in range(int(self.next())):
                self.tree(out, ind + 1)
        assert self.next() == ")"


def pretty(resp):
    if not resp.startswith("ok "):
        return resp
    try:
        tree, errs = resp[3:].split(" | ", 1)
        extra = ""
        if OPTS_VARS:
            errs, extra = errs.split(" | ", 1)
        out = []
        _P(tree).tree(out, 0)
        ws = errs.split()
        if OPTS_VARS:
            return "\n      ".join(out) + "\n      errors(raw): " + errs[:300] + "\n      switches/initial/cdata: " + extra
        codes = [_dec_str(w) for w in ws[1:]]
        return "\n      ".join(out) + "\n      errors: " + ", ".join(codes)
    except Exception as e:  # noqa
        return resp[:800] + "  [unparsed: %s]" % e


def describe(case):
    text, container, scripting, nshtml = case
    if isinstance(text, list):
        text = "TOKENS[" + " ".join("%s:%s%s" % (TOKNAME[t["type"]][:5], t.get("name", t.get("data")),
                                                   ("%r" % (t["data"],)) if t["type"] == TOK["StartTag"] and t["data"] else "")
                                    for t in text) + "]"
        return "%s container=%r scripting=%r nsHtml=%r" % (text, container, scripting, nshtml)
    return "text=%r container=%r scripting=%r nsHtml=%r" % (text, container, scripting, nshtml)


def main():
    ap = argparse.ArgumentParser()
    ap.add_argument("seed", nargs="?", default="0")
    ap.add_argument("count", type=int, nargs="?", default=1000)
    ap.add_argument("--pycov", action="store_true",
                    help="run in-process under coverage.py (branch mode) and list the lines / branches of "
                         "html5parser.py and treebuilders/base.py that no generated input reached")
    ap.add_argument("--recursion", action="store_true", help="RecursionError comparison around Python's limit")
    ap.add_argument("--one", help="run a single HTML text and print the three results")
    ap.add_argument("--container")
    ap.add_argument("--scripting", action="store_true")
    ap.add_argument("--no-ns", action="store_true")
    ap.add_argument("--mode", default="soup")
    ap.add_argument("--jobs", type=int, default=os.cpu_count() or 4)
    ap.add_argument("--batch", type=int, default=20000)
    ap.add_argument("--show", type=int, default=15)
    ap.add_argument("--vars", action="store_true")
    ap.add_argument("--out")
    ap.add_argument("--no-etree", action="store_true")
    ap.add_argument("--exh-len", type=int, default=3)
    ap.add_argument("--exh-limit", type=int, default=0)
    o = ap.parse_args()
    builders = ["dom"] if o.no_etree else ["dom", "etree"]
    global OPTS_VARS
    OPTS_VARS = o.vars

    if o.one is not None:
        case = (o.one.encode().decode("unicode_escape") if "\\" in o.one else o.one, o.container, o.scripting, not o.no_ns)
        recs, _ = work(([case], builders, o.vars))
        r = recs[0]
        m = L.run_driver([r["req"]])[0]
        print(describe(case))
        print("tokens:", r["req"][:0] + " ".join(TOKNAME[t["type"]] + ":" + str(t.get("name", t.get("data"))) for t in run_real("dom", case)[0]))
        print("dom  :", pretty(r["dom"]))
        if "etree" in r:
            print("etree:", pretty(r["etree"]))
        print("model:", pretty(m))
        print("model==dom:", same_response(r["dom"], m, dom=True))
        return 0

    if o.recursion:
        return 1 if recursion_report() else 0

    def case_stream():
        for c in FIXED_CASES:
            yield c
        if o.mode in ("soup", "all"):
            for i in range(o.count):
                yield gen_case(o.seed, i)
        if o.mode in ("tokens", "all"):
            for i in range(o.count if o.mode == "tokens" else o.count // 4):
                yield gen_case(o.seed, i, tokens=True)
        if o.mode in ("exh", "all"):
            for c in exh_cases(o.exh_len, o.exh_limit):
                yield c

    if o.pycov:
        import coverage
        files = [os.path.join(REPO, "html5lib", "html5parser.py"), os.path.join(REPO, "html5lib", "treebuilders", "base.py")]
        cov = coverage.Coverage(branch=True, include=files, data_file=None)
        cov.start()
        cases = list(case_stream())
        work((cases, ["dom"], False))
        cov.stop()
        for f in files:
            tree = ast.parse(open(f, encoding="utf-8").read())
            body_lines = set()
            for fn in ast.walk(tree):
                if isinstance(fn, (ast.FunctionDef, ast.Lambda)):
                    stmts_ = fn.body if isinstance(fn, ast.FunctionDef) else [fn.body]
                    for st in stmts_:
                        for n in ast.walk(st):
                            if hasattr(n, "lineno"):
                                body_lines.add(n.lineno)
            _fn, stmts, _excl, missing, fmt = cov.analysis2(f)
            an = cov._analyze(f)
            miss = [m for m in missing if m in body_lines]
            arcs = sorted(a for a in an.arcs_missing() if a[0] in body_lines and a[0] not in miss and abs(a[1]) not in miss)
            src = open(f, encoding="utf-8").read().split("\n")
            print("== %s: %d statements in function bodies never executed:" % (os.path.relpath(f, REPO), len(miss)))
            for m in miss:
                print("   %5d  %s" % (m, src[m - 1].strip()[:110]))
            print("   branches never taken (from->to), excluding the lines above:")
            for a, b in arcs:
                print("   %5d -> %-5d %s" % (a, b, src[a - 1].strip()[:100]))
        return 0

    t0 = time.time()
    total = disagreements = backend_diffs = real_exceptions = etree_tokdiff = 0
    hits = set()
    shown_dis, shown_diff = [], []
    exc_kinds = {}
    diff_kinds = {}
    pool = Pool(o.jobs)
    stream = case_stream()
    while True:
        batch = list(itertools.islice(stream, o.batch))
        if not batch:
            break
        chunk = max(1, len(batch) // (o.jobs * 4))
        parts = [(batch[i:i + chunk], builders, o.vars) for i in range(0, len(batch), chunk)]
        recs = []
        for out, h in pool.imap(work, parts):
            recs.extend(out)
            hits |= h
        lines = [r["req"] for r in recs]
        extra = [(i, r["req_etree"]) for i, r in enumerate(recs) if "req_etree" in r]
        resp = L.run_driver(lines + [x[1] for x in extra])
        model = resp[:len(lines)]
        model_et = {i: resp[len(lines) + k] for k, (i, _) in enumerate(extra)}
        for i, r in enumerate(recs):
            total += 1
            m = model[i]
            if r["dom"].startswith("err "):
                real_exceptions += 1
                k = r["dom"]
                exc_kinds.setdefault(k, []).append(r["case"])
            if not same_response(r["dom"], m, dom=True):
                disagreements += 1
                if len(shown_dis) < o.show:
                    shown_dis.append((r["case"], r["dom"], m, r["req"]))
            if "etree" in r:
                if i in model_et:
                    etree_tokdiff += 1
                if r["etree"] != r["dom"] and dom_view(r["etree"]) != r["dom"] and not (r["etree"].startswith("err ") and r["dom"].startswith("err ") and
                                                   r["etree"].split(":")[0] == r["dom"].split(":")[0]):
                    backend_diffs += 1
                    kind = r["etree"].split(" | ")[0][:60] if r["etree"].startswith("err ") else "tree/errors differ"
                    m_et = model_et.get(i, m)
                    agrees = "model=etree" if same_response(r["etree"], m_et) else (
                        "model=dom" if same_response(r["dom"], m, dom=True) else "model=neither")
                    diff_kinds.setdefault((kind, agrees), []).append(r["case"])
                    if len(shown_diff) < o.show:
                        shown_diff.append((r["case"], r["dom"], r["etree"], agrees))
        print("[%6.1fs] %d cases, %d model/dom disagreements, %d dom/etree differences, %d real exceptions" % (
            time.time() - t0, total, disagreements, backend_diffs, real_exceptions), flush=True)
    pool.close()

    print("\n=== model vs dom builder: %d disagreements on %d cases ===" % (disagreements, total))
    for case, real, m, req in shown_dis:
        print("--", describe(case))
        print("   real :", pretty(real))
        print("   model:", pretty(m))
    print("\n=== real exceptions (dom builder), by kind ===")
    for k, cs in sorted(exc_kinds.items(), key=lambda kv: -len(kv[1])):
        print("  %6d  %s   e.g. %s" % (len(cs), k, describe(min(cs, key=lambda c: len(c[0])))))
    print("\n=== dom vs etree differences: %d (token streams differ: %d) ===" % (backend_diffs, etree_tokdiff))
    for (kind, agrees), cs in sorted(diff_kinds.items(), key=lambda kv: -len(kv[1])):
        print("  %6d  etree: %-40s %-12s e.g. %s" % (len(cs), kind, agrees, describe(min(cs, key=lambda c: len(c[0])))))
    for case, d, e, agrees in shown_diff[:o.show]:
        print("--", describe(case), agrees)
        print("   dom  :", pretty(d))
        print("   etree:", pretty(e))
    print("\n=== known back-end deviations (model = intended common semantics) ===")
    for case, why in KNOWN_BACKEND_CASES:
        recs, _ = work(([case], ["dom", "etree"], o.vars))
        r = recs[0]
        m = L.run_driver([r["req"]])[0]
        print("  dom %s model, etree %s model : %s  -- %s" % (
            "==" if same_response(r["dom"], m) else "!=", "==" if same_response(r["etree"], m) else "!=",
            describe(case), why))
    unreached = sorted(ALL_FUNCS - hits)
    print("\n=== coverage: %d of %d phase functions reached; unreached: ===" % (len(ALL_FUNCS) - len(unreached), len(ALL_FUNCS)))
    for u in unreached:
        print("   ", u)
    if o.out:
        json.dump({"seed": o.seed, "count": total, "disagreements": disagreements,
                   "backend_diffs": backend_diffs, "real_exceptions": {k: len(v) for k, v in exc_kinds.items()},
                   "examples_exceptions": {k: [describe(c) for c in sorted(v, key=lambda c: len(c[0]))[:3]]
                                           for k, v in exc_kinds.items()},
                   "diff_kinds": {"%s / %s" % k: {"n": len(v), "examples": [describe(c) for c in
                                                                              sorted(v, key=lambda c: len(c[0]))[:5]]}
                                  for k, v in diff_kinds.items()},
                   "unreached": unreached, "wall_s": round(time.time() - t0, 1)}, open(o.out, "w"), indent=1)
    return 1 if disagreements else 0


if __name__ == "__main__":
    sys.exit(main())
