"""C04 — the parsed tree does not depend on the tree builder chosen."""
from h5 import backends, gen, lean, trees
from props import _tree

ID = "C04"
PROPS_MODULE = "H5.Props.C04"
EXTRA_PROPS_MODULES = ["H5.Props.C04b"]
GEN_MODULES = ["Constants"]
CORRESPONDENCE_OPS = ["treev", "prims:etree", "prims:dom"]
SOURCES = ["html5lib/treebuilders/etree.py", "html5lib/treebuilders/dom.py", "html5lib/treebuilders/base.py",
           "html5lib/treebuilders/__init__.py"]
LEVEL = "proof"
TRUSTED = ["H5.Model.Dom: one arena model of the node primitives with the intended common semantics (adjacent text merged), "
           "tied to BOTH real back ends through the tree correspondence",
           "H5.Model.Backend.ETree / H5.Model.Backend.MiniDom: hand models of treebuilders/etree.py over ElementTree and of "
           "treebuilders/dom.py over xml.dom.minidom (CPython 3.12), each tied to the real wrapper classes by the ops "
           "prims:etree / prims:dom (random, contract-respecting and exhaustive-short primitive scripts); minidom Text nodes "
           "are kept by value in the child list (never handed out, never modified); the minidom case 'setAttributeNS on an "
           "existing attribute with another prefix' (the Attr is renamed but stays under its old _attrs key; needs "
           "attributes[name]=... followed by cloneNode on the same node, which the parser never does) is declared "
           "unmodelled by the model and such scripts are counted, not compared",
           "the C04_prim_* theorems are stated under preconditions (parentless new child, refNode a child, fresh reparent "
           "target, no text after a removed node, non-empty data, collision-free attribute keys); that the parser keeps them "
           "is checked by instrumented real parses (contract section), not proved",
           "direct traversal of minidom / ElementTree results (tools/h5/trees.py)"]
RULE = ("same input parsed with etree, etree(fullTree) and dom builders x namespaceHTMLElements on/off x document/fragment: "
        "abstract trees (adjacent text merged) must be equal (modulo the HTML namespace when namespacing is off); inputs: "
        "soup biased to foster parenting / adoption agency / fragments + the tree-correspondence generators; "
        "non-trivial = tree has >= 4 nodes.  Back-end level: primitive scripts (create / appendChild / insertText / "
        "insertBefore / removeChild / reparentChildren / cloneNode / attributes / hasContent / parent / getDocument / "
        "getFragment on numbered nodes) run on the real etree and dom wrapper classes and on the two Lean back-end models "
        "(all node trees + per-call results/exceptions compared): wild scripts, contract-respecting scripts and all scripts "
        "of <= 2 (thorough: 3) calls over a 37-call alphabet from 3 start states; oracle: for every script inside the "
        "contract the two back ends give equal trees for every node and equal results; non-trivial = script has a "
        "structural call after its creations")


def strip_html_ns(t):
    if t[0] in ("doc", "frag"):
        return (t[0], [strip_html_ns(k) for k in t[1]])
    if t[0] == "elem":
        ns = None if t[1] == gen.HTML_NS else t[1]
        return ("elem", ns, t[2], t[3], [strip_html_ns(k) for k in t[4]])
    return t


def first_diff(a, b):
    """first pair of differing nodes in a parallel walk"""
    if a == b:
        return None
    if a[0] != b[0]:
        return (a, b)
    if a[0] in ("doc", "frag"):
        ka, kb = a[1], b[1]
    elif a[0] == "elem":
        if a[1:4] != b[1:4]:
            return (a, b)
        ka, kb = a[4], b[4]
    else:
        return (a, b)
    for x, y in zip(ka, kb):
        d = first_diff(x, y)
        if d:
            return d
    return (a, b)


def _local(n):
    """minidom: Attr.localName of an attribute created without a namespace"""
    return n.split(":", 1)[-1]


def dom_defects(t, doctype, attrs):
    """what the two recorded minidom defects make of a tree built by the etree builder:
    doctype: DocumentType keeps only the local part of a qualified name and turns '' into None;
    attrs:   un-namespaced attributes of one element that share the part after the first ':' collide in minidom's
             _attrsNS[(None, localName)]: each one set later removes the earlier one (order of the survivors is kept)"""
    if t[0] in ("doc", "frag"):
        return (t[0], [dom_defects(k, doctype, attrs) for k in t[1]])
    if t[0] == "doctype" and doctype:
        name = t[1]
        if name and ":" in name:
            name = name.split(":", 1)[1]
        return ("doctype", name if name else None, t[2], t[3])
    if t[0] == "elem":
        a = t[3]
        if attrs:
            a = [(ns, n, v) for i, (ns, n, v) in enumerate(a)
                 if not (ns is None and any(ns2 is None and _local(n2) == _local(n) for ns2, n2, _ in a[i + 1:]))]
        return ("elem", t[1], t[2], a, [dom_defects(k, doctype, attrs) for k in t[4]])
    return t


def classify(dom, etree):
    """dom / etree: the two abstract trees (same shape: both documents or both fragments).  A recorded class is returned only
    when applying that recorded defect (and nothing else) to the etree-built tree gives exactly the dom-built tree."""
    if dom is None or etree is None:
        return "builders-differ"
    if dom_defects(etree, False, True) == dom:
        return "dom-attribute-local-name-collision"
    if dom_defects(etree, True, False) == dom:
        return "dom-doctype-name"
    if dom_defects(etree, True, True) == dom:
        return "dom-doctype-name"          # both recorded defects in one document, and nothing else
    return "builders-differ"


def classify_case(case):
    """tree-correspondence case (text, container, scripting, namespaceHTMLElements): parse again with both builders"""
    text, container, scripting, ns = case
    try:
        d = trees.merge_text(trees.from_dom(gen.parse_real(text, tb="dom", fragment=container, ns=ns, scripting=scripting)))
        e = trees.merge_text(trees.from_etree(gen.parse_real(text, tb="etree", fragment=container, ns=ns, full=True,
                                                              scripting=scripting)))
    except Exception:
        return "builders-differ"
    if container is None:
        d = ("doc", list(d[1]))
    else:
        d, e = ("frag", d[1]), ("frag", e[1])
    return classify(d, e)


def body_of(t):
    return t


def one(ctx, text, frag, ns):
    res = {}
    for name, tb, full in (("etree", "etree", False), ("etree-full", "etree", True), ("dom", "dom", False)):
        try:
            tr = gen.parse_real(text, tb=tb, fragment=frag, ns=ns, full=full)
            res[name] = trees.merge_text(trees.from_dom(tr) if tb == "dom" else trees.from_etree(tr))
        except RecursionError:
            return
        except Exception as e:
            res[name] = ("exc", type(e).__name__)
    ctx.case("builders", "%r|%s|%s" % (text, frag, ns), nontrivial=trees.size(res["dom"]) >= 4 if res["dom"][0] != "exc" else True,
             sample={"input": text[:80], "fragment": frag, "ns": ns})
    d, e, f = res["dom"], res["etree"], res["etree-full"]
    if "exc" in (d[0], e[0], f[0]):
        if not (d[0] == e[0] == f[0] == "exc"):
            ctx.fail("one-builder-raises", "one builder raises where another does not", {"input": text, "fragment": frag,
                                                                                         "results": repr((d[:2], e[:2], f[:2]))})
        return
    # root form vs full-tree form: the html subtree must agree
    if frag is None:
        root_full = [k for k in f[1] if k[0] == "elem"]
        if len(root_full) != 1 or root_full[0] != e:
            ctx.fail("etree-root-vs-fulltree", "etree root-element form differs from the html subtree of the full-tree form",
                     {"input": text})
        dd = ("doc", [k for k in d[1]])
        ff = f
        # minidom has no document-level text; compare documents
        if dd != ff:
            ctx.fail(classify(dd, ff), "dom and etree builders build different trees", {"input": text, "ns": ns,
                     "dom": repr(dd)[:500], "etree": repr(ff)[:500]})
    else:
        if d[1] != e[1]:
            ctx.fail(classify(("frag", d[1]), ("frag", e[1])), "dom and etree builders build different fragments", {"input": text, "fragment": frag,
                     "ns": ns, "dom": repr(d)[:500], "etree": repr(e)[:500]})
    return res


# ---------------------------------------------------------------- back-end level: primitive scripts

PRIM_FINDINGS = {
    # class -> (script, what to observe); reproduced by witness_case and by run()
    "etree-reparentChildren-typeerror-on-nonempty-target":
        (False, False, [("E", None, "a"), ("E", None, "b"), ("E", None, "c"), ("a", 2, 3), ("t", 1, "x", None), ("m", 1, 2)]),
    "etree-removeChild-drops-following-text":
        (False, False, [("E", None, "a"), ("E", None, "b"), ("a", 1, 2), ("t", 1, "x", None), ("r", 1, 2)]),
}


def script_nontrivial(script):
    return any(c[0] in "atbrmkGs" for c in script[2])


def run_scripts(ctx, scripts, label):
    """correspondence of both back-end models with the real classes on the given scripts; returns the real results"""
    reqs, reals, keep = {"prims:etree": [], "prims:dom": []}, {"prims:etree": [], "prims:dom": []}, []
    for sc in scripts:
        e = backends.run_real(backends.RealEtree, sc)
        d = backends.run_real(backends.RealDom, sc)
        if e is None or d is None:
            ctx.count("prims:%s:refused-by-cycle-guard" % label)
            continue
        wire_sc = backends.enc_script(sc)
        for op, r in (("prims:etree", e), ("prims:dom", d)):
            reqs[op].append(op + " " + wire_sc)
            reals[op].append(r[0])
            ctx.case(op, wire_sc, nontrivial=script_nontrivial(sc), sample={"script": repr(sc)[:200], "real": r[0][:120]})
        ctx.count("prims:%s" % label)
        ctx.count("prims:%s:%s" % (label, "raises" if e[1] is None or d[1] is None else "completes"))
        keep.append((sc, e, d))
    if ctx.driver_ok:
        from h5.wire import same
        for op in reqs:
            for rq, r, m in zip(reqs[op], reals[op], lean.run_driver(reqs[op])):
                if m.endswith("!UNMODELLED"):
                    # minidom renames an Attr in place but keeps it under its old _attrs key (setAttributeNS on an existing
                    # attribute with another prefix; needs attributes[name]=… followed by cloneNode/attributes=… on one node)
                    ctx.count("prims:%s:unmodelled-minidom-attr-rename" % label)
                    continue
                if not same(r, m):
                    ctx.disagree(op, rq, r, m)
    return keep


def has_ns_attr(script):
    return any(c[0] == "s" and any(isinstance(k, tuple) for k, _ in c[2]) for c in script[2])


def cross_oracle(ctx, sc, e, d, sh):
    """the two back ends on one contract-respecting script: equal trees for every handle, equal results"""
    inp = {"script": repr(sc)}
    if e[1] is None or d[1] is None:
        ctx.fail("prims-contract-script-raises", "a primitive call inside the contract raises",
                 dict(inp, etree=e[0][:300], dom=d[0][:300]))
        return
    if e[1] != d[1]:
        bad = [h for h, (x, y) in enumerate(zip(e[1], d[1])) if x != y]
        ctx.fail("prims-backends-differ", "etree and dom back ends build different trees from the same primitive calls",
                 dict(inp, node=bad[0], etree=repr(e[1][bad[0]])[:300], dom=repr(d[1][bad[0]])[:300]))
        return
    ns_attrs = has_ns_attr(sc)
    for c, x, y in zip(sc[2], e[2], d[2]):
        if x == y or c[0] in "Dc":
            continue            # D: root element vs Document; c: NodeBuilder.childNodes is never maintained (always [])
        if c[0] in "gq" and ns_attrs:
            continue            # namespaced attribute names are spelled '{ns}local' / 'prefix:local'
        if c[0] == "P" and (c[1] in sh.moved or sh.parent[c[1]] == 0 or x == "n0"):
            continue            # dom: children of the document have parent None; reparentChildren leaves .parent stale
        ctx.fail("prims-results-differ:%s" % c[0], "a primitive returns different values on the two back ends",
                 dict(inp, call=repr(c), etree=x, dom=y))
        return
    # getDocument(): root form = the html subtree of the full form
    for idx, (c, x) in enumerate(zip(sc[2], e[2])):
        if c[0] == "D" and not sc[1] and idx == len(sc[2]) - 1:      # the trees are those of the final state
            ns = gen.HTML_NS if sc[0] else None
            htmls = [k for k in e[1][0][1] if k[0] == "elem" and k[1] == ns and k[2] == "html"]
            want = htmls[0] if htmls else None
            got = None if x == "~" else e[1][int(x[1:])]
            if got != want:
                ctx.fail("etree-root-vs-fulltree", "etree getDocument() root form is not the html subtree of the full tree",
                         dict(inp, got=repr(got)[:200], want=repr(want)[:200]))
                return


def prim_finding_case(ctx, cls):
    sc = PRIM_FINDINGS[cls]
    e = backends.run_real(backends.RealEtree, sc)
    d = backends.run_real(backends.RealDom, sc)
    ctx.case("prims-finding", cls, nontrivial=True)
    if cls == "etree-reparentChildren-typeerror-on-nonempty-target":
        if e[2][-1] == "!TypeError" and d[1] is not None:
            ctx.fail(cls, "etree reparentChildren raises TypeError where dom moves the children", {"script": repr(sc), "etree": e[0]})
    elif cls == "etree-removeChild-drops-following-text":
        if e[1] is not None and d[1] is not None and e[1][1] != d[1][1]:
            ctx.fail(cls, "etree removeChild removes the text after the node as well", {"script": repr(sc), "etree": repr(e[1][1]),
                                                                                       "dom": repr(d[1][1])})


def contract_reachability(ctx, n):
    """instrument the REAL etree wrappers during real parses: does the tree builder ever make a call outside the contract
    under which the back ends are proved equivalent?  (a hit would make a latent back-end defect reachable)"""
    import xml.etree.ElementTree as ET
    from html5lib.treebuilders import etree as etb
    mod = etb.getETreeModule(ET, fullTree=True)
    E = mod.Element
    orig = {k: E.__dict__[k] for k in ("removeChild", "appendChild", "insertBefore", "reparentChildren", "insertText", "cloneNode",
                                        "attributes")}
    hits, cur, inrep = {}, [None], [0]

    def note(k):
        hits.setdefault(k, cur[0])

    def removeChild(self, node):
        if node._element.tail:
            note("removeChild:text-follows-node")
        if node not in self._childNodes:
            note("removeChild:not-a-child")
        return orig["removeChild"](self, node)

    def appendChild(self, node):
        if not inrep[0]:
            if node.parent is not None:
                note("appendChild:node-has-parent")
            if node._element.tail:
                note("appendChild:node-has-tail")
            if node is self:
                note("appendChild:self")
        return orig["appendChild"](self, node)

    def insertBefore(self, node, ref):
        if node.parent is not None:
            note("insertBefore:node-has-parent")
        if node._element.tail:
            note("insertBefore:node-has-tail")
        if ref not in self._childNodes:
            note("insertBefore:ref-not-a-child")
        return orig["insertBefore"](self, node, ref)

    def reparentChildren(self, newParent):
        if newParent._childNodes or len(newParent._element):
            note("reparentChildren:target-has-children")
        if newParent is self:
            note("reparentChildren:self")
        inrep[0] += 1
        try:
            return orig["reparentChildren"](self, newParent)
        finally:
            inrep[0] -= 1

    def insertText(self, data, insertBefore=None):
        if data == "":
            note("insertText:empty-data")
        if insertBefore is not None and insertBefore not in self._childNodes:
            note("insertText:ref-not-a-child")
        if not isinstance(self._element.tag, str) or self._element.tag == "<!DOCTYPE>":
            note("insertText:into-comment-or-doctype")
        return orig["insertText"](self, data, insertBefore)

    def cloneNode(self):
        if type(self) is not E:
            note("cloneNode:not-an-element")
        return orig["cloneNode"](self)

    def _setAttributes(self, attributes):
        if len(self._element.attrib):
            note("setAttributes:not-fresh")
        if attributes and not backends.Shadow.attrs_ok(list(attributes.items())):
            # two attribute names with the same part after ':' is the recorded dom finding; anything else is new
            names = [k for k in attributes if not isinstance(k, tuple)]
            local = [k.split(":", 1)[-1] for k in names]
            if len(set(local)) == len(local) or any(isinstance(k, tuple) for k in attributes):
                if any(k == "" or (not isinstance(k, tuple) and k.startswith("{")) for k in attributes):
                    note("setAttributes:name-reads-back-differently")
                elif len(set(local)) == len(local):
                    note("setAttributes:colliding-keys")
        return orig["attributes"].fset(self, attributes)

    E.removeChild, E.appendChild, E.insertBefore, E.reparentChildren = removeChild, appendChild, insertBefore, reparentChildren
    E.insertText, E.cloneNode = insertText, cloneNode
    E.attributes = property(orig["attributes"].fget, _setAttributes)
    hard = ["<table><b>", "<b><div><table><i>x</table></b>", "<table><a>x<td>", "<a><table><a>y</table>z</a>", "<table>x<tr>y<td>z",
            "<b><table><td></b><i></table>X", "<p><b><i><u></p>x", "<select><b><option>x</select>y", "<b><p><table>", "<a><p><table>x<a>",
            "<frameset>", "<body><frameset>", "<table><caption><b></caption>x</table>"]
    frags = [None, None, "div", "table", "tr", "select", "svg", "tbody", "td"]
    try:
        for i in range(n):
            text = ctx.rng.choice(hard) + gen.soup(ctx.rng, maxparts=8) if i % 3 == 0 else gen.soup(ctx.rng, maxparts=14)
            cur[0] = text
            try:
                gen.parse_real(text, tb="etree", fragment=ctx.rng.choice(frags), ns=ctx.rng.random() < 0.5, full=True)
            except RecursionError:
                continue
            except Exception:        # noqa  (parser exceptions are the business of C03)
                continue
            ctx.case("contract", text, nontrivial=len(text) > 10)
    finally:
        for k, v in orig.items():
            setattr(E, k, v)
    for k, text in sorted(hits.items()):
        if k == "setAttributes:name-reads-back-differently":
            ctx.count("contract:attribute-name-starting-with-brace")     # C04 'builders' oracle covers the parse-level effect
            continue
        ctx.fail("parser-breaks-backend-contract:" + k, "the tree builder calls a back-end primitive outside the contract under which "
                 "the two back ends are equivalent", {"input": text, "which": k})


def run_prims(ctx):
    rng = ctx.rng
    # 1. wild scripts: any call sequence (no cycles, no self-reparent): models vs real classes, exceptions included
    wild = [backends.random_script(rng, rng.randint(3, 14), True)[0] for _ in range(ctx.scale(1200, 40000))]
    run_scripts(ctx, wild, "wild")
    # 2. contract-respecting scripts: correspondence + the cross-back-end oracle
    good = [backends.random_script(rng, rng.randint(4, 18), False)[0] for _ in range(ctx.scale(1200, 40000))]
    good = [(ns, full, calls + [("D",)]) for ns, full, calls in good]
    for sc, e, d in run_scripts(ctx, good, "contract"):
        ok, sh = backends.classify_contract(sc)
        assert ok
        cross_oracle(ctx, sc, e, d, sh)
    # 3. exhaustive short scripts from three start states
    short = list(backends.exhaustive_scripts(ctx.scale(2, 3)))
    if ctx.tier != "thorough":
        short += [(False, False, list(rng.choice(backends.PREAMBLES)) + [rng.choice(backends.short_alphabet()) for _ in range(3)])
                  for _ in range(1500)]
    n_in = 0
    for sc, e, d in run_scripts(ctx, short, "short"):
        ok, sh = backends.classify_contract(sc)
        if ok:
            n_in += 1
            cross_oracle(ctx, sc, e, d, sh)
    ctx.count("prims:short:inside-contract", n_in)
    # 4. the recorded back-end findings stay reproducible
    for cls in PRIM_FINDINGS:
        prim_finding_case(ctx, cls)
    # 5. does the parser stay inside the contract?
    contract_reachability(ctx, ctx.scale(2500, 60000))


def witness_case(ctx, w):
    if "prim_class" in w:
        prim_finding_case(ctx, w["prim_class"])
    else:
        one(ctx, w["input"], w.get("fragment"), True)


def run(ctx):
    thorough = ctx.tier == "thorough"
    run_prims(ctx)
    T, recs, hits = _tree.run(ctx, 60000 if thorough else 4000, modes=("soup",))
    for r in recs:
        ctx.case("treev", repr(r["case"]), nontrivial=True)
        if "model" in r and not T.same_response(r["dom"], r["model"], dom=True):
            ctx.disagree("treev", r["req"], r["dom"], r["model"])
        if "etree" in r and r["etree"] != r["dom"] and T.dom_view(r["etree"]) != r["dom"]:
            case = r["case"]
            if isinstance(case[0], str):
                ctx.fail(classify_case(case), "dom and etree builders differ (tree correspondence run)",
                         {"case": T.describe(case), "dom": r["dom"][:400], "etree": r["etree"][:400]})
    hard = ["<table><b>", "<b><div><table><i>x</table></b>", "<table><a>x<td>", "<a><table><a>y</table>z</a>", "<table>x<tr>y<td>z",
            "<b><table><td></b><i></table>X", "<p><b><i><u></p>x", "<select><b><option>x</select>y", "<table><caption><b></caption>x</table>"]
    frags = [None, None, "div", "table", "tr", "select", "svg", "tbody", "td"]
    for i in range(ctx.scale(1200, 30000)):
        text = ctx.rng.choice(hard) + gen.soup(ctx.rng, maxparts=8) if i % 3 == 0 else gen.soup(ctx.rng, maxparts=14)
        one(ctx, text, ctx.rng.choice(frags), ctx.rng.random() < 0.75)
    # namespacing off == namespacing on modulo the HTML namespace
    for i in range(ctx.scale(300, 6000)):
        text = gen.soup(ctx.rng, maxparts=10)
        for tb in ("etree", "dom"):
            try:
                a = trees.merge_text((trees.from_dom if tb == "dom" else trees.from_etree)(gen.parse_real(text, tb=tb, ns=True, full=True)))
                b = trees.merge_text((trees.from_dom if tb == "dom" else trees.from_etree)(gen.parse_real(text, tb=tb, ns=False, full=True)))
            except Exception:
                continue
            ctx.case("namespacing", "%s|%r" % (tb, text), nontrivial=True)
            if strip_html_ns(a) != b:
                ctx.fail("namespacing-changes-tree:%s" % tb, "namespaceHTMLElements=False changes more than the HTML namespace",
                         {"input": text, "builder": tb})


def replay(path):
    import json
    print(json.dumps(json.load(open(path)), indent=1)[:3000])
    return 0
