"""C04 — the parsed tree does not depend on the tree builder chosen."""
from h5 import gen, lean, trees
from props import _tree

ID = "C04"
PROPS_MODULE = "H5.Props.C04"
GEN_MODULES = ["Constants"]
CORRESPONDENCE_OPS = ["treev"]
SOURCES = ["html5lib/treebuilders/etree.py", "html5lib/treebuilders/dom.py", "html5lib/treebuilders/base.py",
           "html5lib/treebuilders/__init__.py"]
LEVEL = "translation_validation"
TRUSTED = ["H5.Model.Dom: one arena model of the node primitives with the intended common semantics (adjacent text merged), "
           "tied to BOTH real back ends through the tree correspondence; the per-backend representations (etree text/tail + "
           "_childNodes shadow list, minidom text nodes / AttrList) are not modelled separately",
           "direct traversal of minidom / ElementTree results (tools/h5/trees.py)"]
RULE = ("same input parsed with etree, etree(fullTree) and dom builders x namespaceHTMLElements on/off x document/fragment: "
        "abstract trees (adjacent text merged) must be equal (modulo the HTML namespace when namespacing is off); inputs: "
        "soup biased to foster parenting / adoption agency / fragments + the tree-correspondence generators; "
        "non-trivial = tree has >= 4 nodes")


def strip_html_ns(t):
    if t[0] in ("doc", "frag"):
        return (t[0], [strip_html_ns(k) for k in t[1]])
    if t[0] == "elem":
        ns = None if t[1] == gen.HTML_NS else t[1]
        return ("elem", ns, t[2], t[3], [strip_html_ns(k) for k in t[4]])
    return t


def first_diff(a, b):
    """first pair of differing nodes in a parallel walk"""
    if a == b:
        return None
    if a[0] != b[0]:
        return (a, b)
    if a[0] in ("doc", "frag"):
        ka, kb = a[1], b[1]
    elif a[0] == "elem":
        if a[1:4] != b[1:4]:
            return (a, b)
        ka, kb = a[4], b[4]
    else:
        return (a, b)
    for x, y in zip(ka, kb):
        d = first_diff(x, y)
        if d:
            return d
    return (a, b)


def classify(text, a, b):
    d = first_diff(a, b) if a is not None and b is not None else None
    if d is None:
        import re
        if re.search(r"(\w+):(\w+)=[^>]*\b\2=|\b(\w+)=[^>]*\w+:\3=", text):
            return "dom-attribute-local-name-collision"
        return "builders-differ"
    x, y = d
    if x[0] == "doctype" or y[0] == "doctype":
        return "dom-doctype-name"
    if x[0] == "elem" and y[0] == "elem" and x[1:3] == y[1:3] and x[3] != y[3]:
        nx, ny = [n for _, n, _ in x[3]], [n for _, n, _ in y[3]]
        allnames = set(nx) | set(ny)
        missing = set(nx) ^ set(ny)
        for m in missing:
            local = m.split(":", 1)[1] if ":" in m else m
            if any((o != m) and ((o.split(":", 1)[1] if ":" in o else o) == local) for o in allnames):
                return "dom-attribute-local-name-collision"
    return "builders-differ"


def body_of(t):
    return t


def one(ctx, text, frag, ns):
    res = {}
    for name, tb, full in (("etree", "etree", False), ("etree-full", "etree", True), ("dom", "dom", False)):
        try:
            tr = gen.parse_real(text, tb=tb, fragment=frag, ns=ns, full=full)
            res[name] = trees.merge_text(trees.from_dom(tr) if tb == "dom" else trees.from_etree(tr))
        except RecursionError:
            return
        except Exception as e:
            res[name] = ("exc", type(e).__name__)
    ctx.case("builders", "%r|%s|%s" % (text, frag, ns), nontrivial=trees.size(res["dom"]) >= 4 if res["dom"][0] != "exc" else True,
             sample={"input": text[:80], "fragment": frag, "ns": ns})
    d, e, f = res["dom"], res["etree"], res["etree-full"]
    if "exc" in (d[0], e[0], f[0]):
        if not (d[0] == e[0] == f[0] == "exc"):
            ctx.fail("one-builder-raises", "one builder raises where another does not", {"input": text, "fragment": frag,
                                                                                         "results": repr((d[:2], e[:2], f[:2]))})
        return
    # root form vs full-tree form: the html subtree must agree
    if frag is None:
        root_full = [k for k in f[1] if k[0] == "elem"]
        if len(root_full) != 1 or root_full[0] != e:
            ctx.fail("etree-root-vs-fulltree", "etree root-element form differs from the html subtree of the full-tree form",
                     {"input": text})
        dd = ("doc", [k for k in d[1]])
        ff = f
        # minidom has no document-level text; compare documents
        if dd != ff:
            ctx.fail(classify(text, dd, ff), "dom and etree builders build different trees", {"input": text, "ns": ns,
                     "dom": repr(dd)[:500], "etree": repr(ff)[:500]})
    else:
        if d[1] != e[1]:
            ctx.fail(classify(text, d, e), "dom and etree builders build different fragments", {"input": text, "fragment": frag,
                     "ns": ns, "dom": repr(d)[:500], "etree": repr(e)[:500]})
    return res


def witness_case(ctx, w):
    one(ctx, w["input"], w.get("fragment"), True)


def run(ctx):
    thorough = ctx.tier == "thorough"
    T, recs, hits = _tree.run(ctx, 60000 if thorough else 4000, modes=("soup",))
    for r in recs:
        ctx.case("treev", repr(r["case"]), nontrivial=True)
        if "model" in r and not T.same_response(r["dom"], r["model"], dom=True):
            ctx.disagree("treev", r["req"], r["dom"], r["model"])
        if "etree" in r and r["etree"] != r["dom"] and T.dom_view(r["etree"]) != r["dom"]:
            case = r["case"]
            if isinstance(case[0], str):
                ctx.fail(classify(case[0], None, None), "dom and etree builders differ (tree correspondence run)",
                         {"case": T.describe(case), "dom": r["dom"][:400], "etree": r["etree"][:400]})
    hard = ["<table><b>", "<b><div><table><i>x</table></b>", "<table><a>x<td>", "<a><table><a>y</table>z</a>", "<table>x<tr>y<td>z",
            "<b><table><td></b><i></table>X", "<p><b><i><u></p>x", "<select><b><option>x</select>y", "<table><caption><b></caption>x</table>"]
    frags = [None, None, "div", "table", "tr", "select", "svg", "tbody", "td"]
    for i in range(ctx.scale(1200, 30000)):
        text = ctx.rng.choice(hard) + gen.soup(ctx.rng, maxparts=8) if i % 3 == 0 else gen.soup(ctx.rng, maxparts=14)
        one(ctx, text, ctx.rng.choice(frags), ctx.rng.random() < 0.75)
    # namespacing off == namespacing on modulo the HTML namespace
    for i in range(ctx.scale(300, 6000)):
        text = gen.soup(ctx.rng, maxparts=10)
        for tb in ("etree", "dom"):
            try:
                a = trees.merge_text((trees.from_dom if tb == "dom" else trees.from_etree)(gen.parse_real(text, tb=tb, ns=True, full=True)))
                b = trees.merge_text((trees.from_dom if tb == "dom" else trees.from_etree)(gen.parse_real(text, tb=tb, ns=False, full=True)))
            except Exception:
                continue
            ctx.case("namespacing", "%s|%r" % (tb, text), nontrivial=True)
            if strip_html_ns(a) != b:
                ctx.fail("namespacing-changes-tree:%s" % tb, "namespaceHTMLElements=False changes more than the HTML namespace",
                         {"input": text, "builder": tb})


def replay(path):
    import json
    print(json.dumps(json.load(open(path)), indent=1)[:3000])
    return 0
