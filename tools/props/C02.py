"""C02 — tokenizer output equals the WHATWG tokenization (correspondence model <-> real tokenizer)."""
import os
import random
import sys
from multiprocessing import Pool

from h5 import lean, wire

ID = "C02"
PROPS_MODULE = "H5.Props.C02"
EXTRA_PROPS_MODULES = ["H5.Props.C02b", "H5.Props.C02c", "H5.Props.C02cOk"]
GEN_MODULES = ["Constants", "Entities"]
CORRESPONDENCE_OPS = ["tok", "toksteps", "tokpull"]
SOURCES = ["html5lib/_tokenizer.py", "html5lib/_inputstream.py", "html5lib/constants.py", "html5lib/_trie/py.py",
           "html5lib/_trie/_base.py"]
LEVEL = "proof"
TRUSTED = ["hand model H5.Model.Tokenizer / H5.Model.CharRef of _tokenizer.py (67 state methods), tied by exact "
           "token-for-token comparison incl. chunking, parse errors and state-call counts",
           "input-stream layer (CR/LF, invalid-codepoint errors) is not part of this model: see C05",
           "WHATWG reference for the search: H5.Spec.Tokenizer when present, otherwise the model itself "
           "(= behaviour of the pinned tree modulo recorded deviations)"]
RULE = ("tok: fixed special cases + all strings of length <= k over a 22-symbol alphabet x 5 entry states x lastStartTag "
        "{none, matching, other} x cdataAllowed + state-parking prefixes x all suffixes + seeded soup of 174 fragments + "
        "arbitrary start states; non-trivial = every case (each is a distinct (config, input)); "
        "disagreement = any difference in tokens, chunking, parse errors or number of state calls")


def run(ctx):
    sys.path.insert(0, lean.VERIF + "/tools")
    import tok_corr
    if not ctx.driver_ok:
        ctx.notes.append("driver unavailable: correspondence not run")
        return
    stats = {"cases": 0, "bad": 0, "visited": 0, "maxslack": -10 ** 9, "slackcase": None, "errs": {}, "shape": {}}
    rng = random.Random(ctx.seed * 7919 + 2)
    cfgs = [(s, l, c) for s in tok_corr.START_STATES for l in (None, "a", "b") for c in (False, True)]
    thorough = ctx.tier == "thorough"
    batches = [("special", tok_corr.gen_special()),
               ("exhaustive-cfg", tok_corr.gen_exhaustive(3 if thorough else 2, cfgs)),
               ("exhaustive-data", tok_corr.gen_exhaustive(4 if thorough else 3, [("dataState", None, False)])),
               ("prefix+suffix", tok_corr.gen_prefixed(2 if thorough else 1)),
               ("soup", tok_corr.gen_soup(rng, 400000 if thorough else 25000))]
    bad_all = []
    with Pool(os.cpu_count()) as pool:
        for label, g in batches:
            cases = list(g)
            bad = tok_corr.check(cases, label, stats, pool, verbose=False)
            bad_all += bad
            for c in cases[:: max(1, len(cases) // 3)][:3]:
                ctx.samples.append({"state": c[0], "lastStartTag": c[1], "cdata": c[2], "input": c[3][:80]})
            ctx.ops[label] = len(cases)
            ctx.evaluations += len(cases)
            for c in cases:
                ctx.nontrivial.add(hash(c))
        n_main = stats["cases"]
        any_cases = list(tok_corr.gen_anystate(rng, 50000 if thorough else 3000))
        bad_all += tok_corr.check(any_cases, "any-start-state", stats, pool, verbose=False, anystate=True)
        ctx.ops["any-start-state"] = len(any_cases)
        ctx.evaluations += len(any_cases)
    # ---- the WHATWG clause: real tokenizer against the independent Spec (H5.Spec.Tokenizer), canonicalised
    import spec_corr
    spec_cases = []
    for label, g in [("exh", tok_corr.gen_exhaustive(2, cfgs)), ("prefix", tok_corr.gen_prefixed(1)),
                     ("soup", tok_corr.gen_soup(rng, 60000 if thorough else 6000)),
                     ("extra", spec_corr.gen_extra_prefixed()), ("sig", spec_corr.gen_random_sig(rng, 20000 if thorough else 3000)),
                     ("numref", spec_corr.gen_numeric_refs())]:
        spec_cases += list(g)
    # a last-start-tag with upper-case ASCII can never come from the tokenizer: outside the property's domain
    spec_cases = [c for c in spec_cases if c[1] is None or c[1] == spec_corr._ascii_lower(c[1])]
    spec_cases += [("dataState", None, True, "<![CDATA[\x00]]>"), ("rcdataState", "\u212a", False, "</K >")]   # recorded findings
    # named references whose prefix walk runs past a legacy name, in attribute values and text
    for w in ("noti", "notin", "copys", "lti", "gtc", "degr", "ampx", "paralle", "notit;"):
        for term in ('"', " ", ">", "&", "=", "x", "1", ";", ""):
            spec_cases.append(("dataState", None, False, '<a t="x&%s%s y">' % (w, term if term != '"' else "")))
            spec_cases.append(("dataState", None, False, "<a t=&%s%s>" % (w, term if term not in (">", " ") else "")))
            spec_cases.append(("dataState", None, False, "&%s%s" % (w, term)))
    with Pool(os.cpu_count()) as pool:
        real_lines = pool.map(spec_corr.real_canon, spec_cases, chunksize=500)
    spec_lines = lean.run_driver([tok_corr.req("spec-tok", c) for c in spec_cases])
    diffs = [(c, r, sp) for c, r, sp in zip(spec_cases, real_lines, spec_lines) if r != sp]
    ctx.evaluations += len(spec_cases)
    # second pass for the recorded CDATA/NUL defect: it explains a difference iff the real tokenization equals the WHATWG
    # tokenization of the input with the NULs inside CDATA sections already replaced
    cand = {}
    for c, r, sp in diffs:
        if c[2] and "\x00" in c[3] and "<![CDATA[" in c[3]:
            cand[c] = spec_corr.cdata_nul_candidates(c[3])
    flat = [(c, t) for c, ts in cand.items() for t in ts]
    cand_lines = lean.run_driver([tok_corr.req("spec-tok", (c[0], c[1], c[2], t)) for c, t in flat]) if flat else []
    explained = {}
    for (c, t), line in zip(flat, cand_lines):
        explained.setdefault(c, set()).add(line)
    for c, r, sp in diffs:
        if r in explained.get(c, ()):
            cls = "nul-in-cdata-section"
        else:
            try:
                cls = spec_corr.classify(c, spec_corr.dec_line(r), spec_corr.dec_line(sp))
            except Exception:
                cls = "UNCLASSIFIED"
            if cls == "UNCLASSIFIED":
                cls = "whatwg-differs:%s" % c[0]
        ctx.fail(cls, "real tokenizer output differs from the WHATWG tokenization (H5.Spec.Tokenizer)",
                 {"state": c[0], "lastStartTag": c[1], "cdata": c[2], "input": c[3][:200], "real": r[:300], "spec": sp[:300]})
    ctx.ops["real-vs-spec"] = len(spec_cases)
    reached = [n for n in tok_corr.ALL_STATES if stats["visited"] & tok_corr.STATE_BIT[n]]
    ctx.dist["states_reached"] = len(reached)
    ctx.dist["states_total"] = len(tok_corr.ALL_STATES)
    ctx.dist["max_steps_minus_2n"] = stats["maxslack"]
    ctx.notes.append("real-side exceptions agreed by the model: %s" % stats["errs"])
    for why, c, rline, mline, rpull, mpull in bad_all[:50]:
        ctx.disagree("tok:" + why, "state=%s last=%r cdata=%s input=%r" % (c[0], c[1], c[2], c[3][:300]), rline, mline)
    # oracle on the real code: from the five entry states the tokenizer never raises
    for line, n in stats["errs"].items():
        pass  # exceptions only occur in the any-start-state set (malformed preset token); not a property failure
    if len(reached) < len(tok_corr.ALL_STATES):
        ctx.notes.append("states not reached: %s" % [n for n in tok_corr.ALL_STATES if n not in reached])


def replay(path):
    import json
    print(json.dumps(json.load(open(path)), indent=1)[:3000])
    return 0
