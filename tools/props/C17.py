"""C17 — the whitespace filter changes nothing but whitespace."""
import re

from h5 import gen, lean, wire

ID = "C17"
PROPS_MODULE = "H5.Props.C17"
EXTRA_PROPS_MODULES = ["H5.Props.C17b"]
GEN_MODULES = ["Whitespace"]
CORRESPONDENCE_OPS = ["ws"]
SOURCES = ["html5lib/filters/whitespace.py", "html5lib/constants.py"]
LEVEL = "proof"
TRUSTED = ["hand model of whitespace.Filter.__iter__ / collapse_spaces (H5.Model.Whitespace), tied by op ws",
           "re: a '[class]+' pattern substitutes each maximal run (the class itself is extracted exactly)"]
RULE = ("ws: seeded random token streams (balanced and unbalanced, nested preserve elements) + streams walked from "
        "parsed soup with the etree and dom walkers; non-trivial = stream has a text token containing whitespace; "
        "distinct by canonical encoding")

WS = " \t\n\x0c\r"
PRESERVE = {"pre", "textarea", "script", "style", "xmp", "iframe", "noembed", "noframes", "noscript"}


def real_filter(toks):
    from html5lib.filters.whitespace import Filter
    return list(Filter(toks))


def spec(toks):
    """reference for the per-token behaviour + region tracking as the statement describes it"""
    out = []
    preserve = 0
    for t in toks:
        t = wire.copy_tok(t)
        if t["type"] == "StartTag" and (preserve or t["name"] in PRESERVE):
            preserve += 1
        elif t["type"] == "EndTag" and preserve:
            preserve -= 1
        elif not preserve and t["type"] in ("Characters", "SpaceCharacters"):
            t["data"] = re.sub("[ \t\n\x0c\r]+", " ", t["data"])
        out.append(t)
    return out


def cross_token_runs(out):
    """outside preserve regions: a run of two or more spaces that SPANS the boundary between adjacent text tokens, each of
    which is by itself correctly collapsed (the recorded defect: collapsing is done token by token).  Whitespace left
    uncollapsed INSIDE one token is not this class: the per-token oracle reports it under its own name."""
    preserve = 0
    parts = []
    for t in out + [{"type": "Comment", "data": ""}]:
        if t["type"] in ("Characters", "SpaceCharacters") and not preserve:
            parts.append(t["data"])
            continue
        if len(parts) > 1 and not any(re.search("[\t\n\x0c\r]|[ ]{2,}", p) for p in parts):
            buf = "".join(parts)
            if re.search("[ ]{2,}", buf):
                return buf
        parts = []
        if t["type"] == "StartTag" and (preserve or t["name"] in PRESERVE):
            preserve += 1
        elif t["type"] == "EndTag" and preserve:
            preserve -= 1
    return None


def one(ctx, toks, reqs, reals, src):
    cp = [wire.copy_tok(t) for t in toks]
    req = "ws " + wire.enc_toks(toks)
    try:
        out = real_filter(toks)
        real = "ok " + wire.enc_toks(out)
        exp = spec(cp)
        if out != exp:
            # classify: which token differs
            k = next((i for i, (a, b) in enumerate(zip(out, exp)) if a != b), -1)
            ctx.fail("per-token-behaviour:%s" % (cp[k]["type"] if 0 <= k < len(cp) else "count"),
                     "filter output differs from 'collapse each run to one space outside preserve regions, everything else unchanged'",
                     {"tokens": repr(cp), "index": k})
        def nows(x):
            return "".join(c for c in x if c not in WS)
        for a, b in zip(cp, out):
            if a["type"] in ("Characters", "SpaceCharacters") and b["type"] in ("Characters", "SpaceCharacters") \
                    and nows(a["data"]) != nows(b["data"]):
                ctx.fail("non-whitespace-altered:%s" % a["type"], "a character other than the five ASCII whitespace characters was changed",
                         {"token": repr(a), "out": repr(b), "source": src})
                break
        run = cross_token_runs(out)
        if run is not None:
            ctx.fail("whitespace-run-split-across-tokens", "a whitespace run split over adjacent text tokens is not collapsed to one space",
                     {"tokens": repr(cp)[:1500], "run": repr(run), "source": src})
        if real_filter([wire.copy_tok(t) for t in out]) != out:
            ctx.fail("not-idempotent", "applying the filter twice differs from once", {"tokens": repr(cp)})
    except Exception as e:
        real = wire.exc_tag(e)
        ctx.fail("filter-raises:%s" % type(e).__name__, "whitespace.Filter raised", {"tokens": repr(cp)})
    reqs.append(req)
    reals.append(real)
    nt = any(t["type"] in ("Characters", "SpaceCharacters") and any(c in WS for c in t["data"]) for t in cp)
    ctx.case("ws", req, nontrivial=nt, sample=req if nt and len(req) < 400 else None)
    ctx.count(src)


def witness_case(ctx, w):
    toks = gen.walk_real(gen.parse_real(w["html"], tb=w["walker"]), w["walker"])
    one(ctx, toks, [], [], "witness")


def run(ctx):
    names = ["p", "pre", "textarea", "script", "div", "b", "style", "PRE", "xmp", "br", "title", "noscript", "iframe", "noembed",
             "noframes", "listing", "plaintext", "code", "td", "svg", "option", "TEXTAREA", "head", "select"]
    reqs, reals = [], []
    for i in range(ctx.scale(2500, 50000)):
        if i % 2:
            toks = gen.balanced_stream(ctx.rng, names, maxdepth=4, void=("br",))
        else:
            toks = gen.token_stream(ctx.rng, names, maxlen=10)
        # the walkers never emit an empty text token next to text; keep generated streams free of adjacent text
        cleaned = []
        for t in toks:
            if cleaned and t["type"] in ("Characters", "SpaceCharacters") and cleaned[-1]["type"] in ("Characters", "SpaceCharacters"):
                continue
            if t["type"] == "SpaceCharacters":
                t["data"] = "".join(c for c in t["data"] if c in WS) or " "
            cleaned.append(t)
        one(ctx, cleaned, reqs, reals, "G-tok")
    for i in range(ctx.scale(400, 8000)):
        text = gen.soup(ctx.rng)
        kind = "dom" if i % 2 else "etree"
        try:
            toks = gen.walk_real(gen.parse_real(text, tb=kind), kind)
        except Exception:
            continue
        one(ctx, toks, reqs, reals, "walk-" + kind)
    if ctx.driver_ok:
        ctx.compare("ws", reqs, reals, lean.run_driver(reqs))


def replay(path):
    import json
    print(json.dumps(json.load(open(path)), indent=1)[:3000])
    return 0
