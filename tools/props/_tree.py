"""Shared runner for the tree-construction correspondence (C01, C03, C04): real parser (dom + etree builders) against
the Lean model H5.Model.TreeBuilder through the `treev` op, on the generators of tools/tree_corr.py."""
import itertools
import os
import sys
from multiprocessing import Pool

from h5 import lean


FORMATTING = ["b", "i", "font", "nobr", "em", "strong", "u", "s", "tt", "code", "big", "small", "strike", "a"]


def targeted(ctx, T):
    """deterministic + seeded hard patterns that random soup reaches too rarely (kept small; every case is
    (text, container, scripting, namespaceHTMLElements))"""
    rng = ctx.rng
    out = []
    # 1. Noah's ark clause: k copies of one formatting element with equal / differently-valued / differently-named attributes
    variants = [lambda j: "", lambda j: " class=k", lambda j: " size=%d" % j, lambda j: " id=x%d class=c" % j,
                lambda j: " a%d=1" % j, lambda j: " size=1" if j % 2 else " size=2", lambda j: " x=1 y=%d" % (j // 2)]
    for tag in (FORMATTING if ctx.tier == "thorough" else rng.sample(FORMATTING, 5)):
        for k in (3, 4, 5):
            for v in variants:
                opens = "".join("<%s%s>" % (tag, v(j)) for j in range(k))
                for wrap, close in (("<p>", "</p>"), ("<div>", "</div>"), ("", ""), ("<p>", "<p>")):
                    out.append((wrap + opens + "a" + close + "x", None, False, True))
                out.append(("<div>" + opens + "</div>q", "div", False, True))
    # 2. pre / listing / textarea and the drop-newline handler: what follows the start tag
    bits = ["\n", "&#10;", "x", "</i>", "\x00", "<!--c-->", " ", "<b>", "\n\n", "&#13;"]
    import itertools
    for tag in ("pre", "listing", "textarea"):
        for n in (1, 2, 3):
            combos = list(itertools.product(bits, repeat=n))
            if n == 3 and ctx.tier != "thorough":
                combos = rng.sample(combos, 150)
            for c in combos:
                out.append(("<%s>%s</%s>y" % (tag, "".join(c), tag), rng.choice([None, None, "div"]), False, True))
    # 3. every start/end tag right after </head>, after <head>, after <html>, after </body>, in table/select/frameset contexts
    names = sorted(set(T.dispatch_names())) if hasattr(T, "dispatch_names") else []
    names = [n for n in names if n and all(c.isalnum() for c in n)][:160]
    ctxs = ["<head></head>%s", "<head>%s", "<html>%s", "<body></body>%s", "<table>%s", "<table><tr>%s", "<select>%s",
            "<frameset>%s", "<table><caption>%s", "<svg>%s", "<math><mi>%s", "<table><colgroup>%s", "</html>%s"]
    for n in names:
        for c in (ctxs if ctx.tier == "thorough" else rng.sample(ctxs, 4)):
            for sc in (False, True):
                out.append((c % ("<%s>x</%s>y<p>z" % (n, n)), None, sc, True))
    # 4. parser-level pointers and flags that must be (re)set at exactly the right moment: form element pointer
    #    (an ignored </form> still clears it), frameset-ok flag, head pointer after </head>
    scopers = ["<table><tr><td>", "<table><tr><th>", "<table><caption>", "<object>", "<applet>", "<marquee>", "<svg><foreignObject>",
               "<svg><desc>", "<svg><title>", "<math><mi>", "<math><annotation-xml encoding='text/html'>", "<template>", "<button>",
               "<div>", "<p>", "<select>", "<table>", "<table><tr>", "<b><i>", "<ul><li>", ""]
    for sc_ in scopers:
        for first in ("<form id=a>", "<form id=a><div>", "<div><form id=a>", "<table><form id=a>", ""):
            for endt in ("</form>", "</form></form>", "</FORM>", ""):
                for second in ("<form id=b><input>", "<table><form id=b><input name=n>", "<form id=b>x</form><form id=c>y"):
                    out.append((first + sc_ + endt + second + "t", rng.choice([None, None, "div", "form"]), False, True))
    for n in names[:160]:
        for pre in ("", "<p>", " ", "<!--c-->"):
            out.append((pre + "<%s></%s><frameset><frame></frameset>" % (n, n), None, rng.random() < 0.3, True))
    out.append(("<input type=hidden><frameset>", None, False, True))
    out.append(("<input type=HiDdEn><frameset>", None, False, True))
    out.append(("<input type=text><frameset>", None, False, True))
    for n in ("title", "meta", "script", "style", "base", "link", "noframes", "template", "noscript", "basefont", "bgsound", "command"):
        out.append(("<head></head><%s>x</%s><p>y" % (n, n), None, False, True))
        out.append(("<head></head> <%s a=b><%s>x</%s>" % (n, n, n), None, True, True))
    # 5. tag names with non-ASCII letters that have Unicode case mappings (the standard folds ASCII A-Z only): start and end
    #    tags spelled differently, in HTML, SVG and MathML content
    odd = [("a\u00c9", "a\u00e9"), ("lin\u212a", "link"), ("g\u00c0", "g\u00e0"), ("t\u0394", "t\u03b4"), ("b\u0130", "bi\u0307"),
           ("\u00e9", "\u00c9"), ("x\u00df", "xSS"), ("foreignObject", "FOREIGNOBJECT"), ("clipPath", "clippath"), ("DIV", "div")]
    for a_, b_ in odd:
        for wrap in ("%s", "<svg>%s</svg>z", "<math>%s</math>z", "<svg><foreignObject>%s", "<table><tr><td>%s", "<p>%s"):
            for st, en in ((a_, b_), (b_, a_), (a_, a_), (a_.upper(), a_.lower())):
                out.append((wrap % ("<%s>x</%s>y" % (st, en)), rng.choice([None, None, "div", "td", "svg"]), False, True))
                out.append((wrap % ("<%s %s=1 %s=2>x" % (st, st, en)), None, False, True))
    # 6. quirks-mode decision: doctypes (public identifier families x system identifier missing / empty / present) followed by the
    #    one construct whose tree depends on the mode (<table> while a p is open)
    pubs = ["-//W3C//DTD HTML 4.01 Transitional//EN", "-//W3C//DTD HTML 4.01 Frameset//EN", "-//W3C//DTD XHTML 1.0 Transitional//EN",
            "-//W3C//DTD XHTML 1.0 Frameset//EN", "-//W3C//DTD HTML 4.01//EN", "-//W3O//DTD W3 HTML Strict 3.0//EN//", "-/W3C/DTD HTML 4.0 Transitional/EN",
            "HTML", "-//IETF//DTD HTML//EN", "-//w3c//dtd html 4.01 transitional//en", "", "x"]
    syss = [None, "", "http://www.w3.org/TR/html4/loose.dtd", "http://www.ibm.com/data/dtd/v11/ibmxhtml1-transitional.dtd", "about:legacy-compat", "x"]
    for pu in pubs:
        for sy in syss:
            for q in ('"', "'"):
                dt = "<!DOCTYPE html PUBLIC %s%s%s%s>" % (q, pu, q, "" if sy is None else " %s%s%s" % (q, sy, q))
                out.append((dt + "<p>a<table><tr><td>b", None, False, True))
    for nm in ("html", "HTML", "htm", ""):
        for sy in syss:
            out.append(("<!DOCTYPE %s%s><p>a<table>" % (nm, "" if sy is None else " SYSTEM '%s'" % sy), None, False, True))
    # 8. which tokens an HTML / MathML-text integration point hands to the current insertion mode (start tags, characters AND
    #    whitespace-only runs), in contexts where that mode does more with them than append text: pending formatting elements
    #    to reconstruct, table text, select, pre's dropped newline
    ips = ["<svg><desc>", "<svg><title>", "<svg><foreignObject>", "<math><annotation-xml encoding='text/html'>",
           "<math><annotation-xml encoding=application/xhtml+xml>", "<math><mi>", "<math><mtext>", "<math><annotation-xml>", "<svg><g>"]
    inner = ["<p><b></p>", "<table>", "<table><tr>", "<select>", "<p><i><b></p>", "", "<pre>", "<b><p></b>"]
    after = [" ", "\n", " x", "\t<b>", "x", " <svg>", "<b>", "<mglyph>", "<malignmark>", "</p>", "<!--c-->", "\x00", " \x00", " </b> "]
    for ip in ips:
        for inn in inner:
            for af in after:
                out.append((ip + inn + af + "y", None, False, True))
                out.append((ip + inn + af + "y", rng.choice(["div", "svg", "td", "math"]), rng.random() < 0.3, True))
    return out


def run(ctx, count, modes=("soup",), exh_len=2, exh_limit=0, builders=("dom", "etree")):
    sys.path.insert(0, lean.VERIF + "/tools")
    import tree_corr as T
    T.OPTS_VARS = True

    def stream():
        for c in T.FIXED_CASES:
            yield c
        for c in targeted(ctx, T):
            yield c
        if "soup" in modes:
            for i in range(count):
                yield T.gen_case(str(ctx.seed), i)
        if "tokens" in modes:
            for i in range(count // 4):
                yield T.gen_case(str(ctx.seed), i, tokens=True)
        if "exh" in modes:
            for c in T.exh_cases(exh_len, exh_limit):
                yield c
    records = []
    hits = set()
    jobs = os.cpu_count() or 4
    with Pool(jobs) as pool:
        s = stream()
        while True:
            batch = list(itertools.islice(s, 20000))
            if not batch:
                break
            chunk = max(1, len(batch) // (jobs * 4))
            parts = [(batch[i:i + chunk], list(builders), True) for i in range(0, len(batch), chunk)]
            recs = []
            for out, h in pool.imap(T.work, parts):
                recs.extend(out)
                hits |= h
            if ctx.driver_ok:
                lines = [r["req"] for r in recs]
                extra = [(i, r["req_etree"]) for i, r in enumerate(recs) if "req_etree" in r]
                resp = lean.run_driver(lines + [x[1] for x in extra])
                for i, r in enumerate(recs):
                    r["model"] = resp[i]
                for k, (i, _) in enumerate(extra):
                    recs[i]["model_etree"] = resp[len(lines) + k]
            records.extend(recs)
    return T, records, hits
