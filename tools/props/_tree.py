"""Shared runner for the tree-construction correspondence (C01, C03, C04): real parser (dom + etree builders) against
the Lean model H5.Model.TreeBuilder through the `treev` op, on the generators of tools/tree_corr.py."""
import itertools
import os
import sys
from multiprocessing import Pool

from h5 import lean


def run(ctx, count, modes=("soup",), exh_len=2, exh_limit=0, builders=("dom", "etree")):
    sys.path.insert(0, lean.VERIF + "/tools")
    import tree_corr as T
    T.OPTS_VARS = True

    def stream():
        for c in T.FIXED_CASES:
            yield c
        if "soup" in modes:
            for i in range(count):
                yield T.gen_case(str(ctx.seed), i)
        if "tokens" in modes:
            for i in range(count // 4):
                yield T.gen_case(str(ctx.seed), i, tokens=True)
        if "exh" in modes:
            for c in T.exh_cases(exh_len, exh_limit):
                yield c
    records = []
    hits = set()
    jobs = os.cpu_count() or 4
    with Pool(jobs) as pool:
        s = stream()
        while True:
            batch = list(itertools.islice(s, 20000))
            if not batch:
                break
            chunk = max(1, len(batch) // (jobs * 4))
            parts = [(batch[i:i + chunk], list(builders), True) for i in range(0, len(batch), chunk)]
            recs = []
            for out, h in pool.imap(T.work, parts):
                recs.extend(out)
                hits |= h
            if ctx.driver_ok:
                lines = [r["req"] for r in recs]
                extra = [(i, r["req_etree"]) for i, r in enumerate(recs) if "req_etree" in r]
                resp = lean.run_driver(lines + [x[1] for x in extra])
                for i, r in enumerate(recs):
                    r["model"] = resp[i]
                for k, (i, _) in enumerate(extra):
                    recs[i]["model_etree"] = resp[len(lines) + k]
            records.extend(recs)
    return T, records, hits
