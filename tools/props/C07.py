"""C07 — serialize then parse is the identity on conforming documents."""
import os
from h5 import conf, gen, lean, lexical, trees, wire

ID = "C07"
PROPS_MODULE = "H5.Props.C07"
# C07b: the END-TO-END identity theorem on the models for the explicit grammar G0 (H5.Props.C07bGrammar):
#   C07_identity : G0 t -> Pipeline.roundTrip {} {omitOptionalTags := false} t = ok (t, out, [])     C07_no_errors
EXTRA_EXES = ["driver_g0"]     # op g0 (grammar membership decided by the Lean definition), separate from the main driver
# the top module states the end-to-end theorems (C07_identity, C07_no_errors, roundTrip_doc); `#print axioms` on them covers the
# 21 helper modules (C07bTok*, C07bStep*, C07bRun*, ...) transitively, and the forbidden-token grep covers their sources
EXTRA_PROPS_MODULES = ["H5.Props.C07b", "H5.Props.C07bGrammar", "H5.Props.C08Tables"]

GEN_MODULES = ["Serializer", "OptionalTags", "Constants", "Dispatch", "ParserLiterals"]
CORRESPONDENCE_OPS = ["roundtrip"]
SOURCES = ["html5lib/serializer.py", "html5lib/filters/optionaltags.py", "html5lib/filters/alphabeticalattributes.py",
           "html5lib/treewalkers/base.py", "html5lib/treewalkers/etree.py", "html5lib/treewalkers/dom.py", "html5lib/constants.py"]
LEVEL = "proof"
TRUSTED = ["the composed Lean pipeline H5.Model.Pipeline.roundTrip = walker ∘ filters ∘ serializer ∘ (tokenizer + tree builder), "
           "each component a hand model tied to /repo by its own correspondence, and the composition tied by op roundtrip",
           "G-conf (tools/h5/conf.py): the grammar of 'conforming document' used here; each generated document is first parsed "
           "from its explicit markup and must give the intended tree with no parse error",
           "the identity theorem is PROVED on the models for the grammar G0 only (H5.Props.C07b: C07_identity, C07_no_errors; "
           "default serializer options, omit_optional_tags=False); outside G0 / for other options it is decided by search on the real code",
           "G0 membership of a generated document is decided by the Lean definition itself (driver op g0), and every document in G0 "
           "is run through the REAL library with the theorem's options: the re-parsed tree must be the document and both error lists empty "
           "(oracle family G0-identity)"]
RULE = ("G-conf trees (depth <= 5) x random serializer option combinations (quoting mode/char, omission, minimisation, "
        "solidus, escaping flags, alphabetical attributes, output encoding in {none, utf-8, ascii}) x walker in {etree, dom}; "
        "oracle: parse(render(tree)) == tree; failing trees are shrunk and classified; non-trivial = every document.  "
        "G0-identity: every G-conf document and every document of the dedicated G0 generator (random trees of the grammar of "
        "H5.Props.C07bGrammar plus near misses) is classified by the Lean definition G0 (op g0); for the members the real round trip with "
        "default options / omit_optional_tags=False (walkers etree and dom) must give the document back with no serializer error "
        "and no parse error, and the model's roundTrip must agree with it (op roundtrip)")


def abstract_of(tree, kind):
    return trees.merge_text(trees.from_dom(tree) if kind == "dom" else trees.from_etree(tree))


def sort_attrs(t):
    if t[0] in ("doc", "frag"):
        return (t[0], [sort_attrs(k) for k in t[1]])
    if t[0] == "elem":
        return ("elem", t[1], t[2], sorted(t[3], key=repr), [sort_attrs(k) for k in t[4]])
    return t


def real_roundtrip(text, opts, encoding, kind, nshtml=True):
    import html5lib
    from html5lib.serializer import HTMLSerializer
    tb = html5lib.getTreeBuilder("etree", fullTree=True) if kind == "etree" else html5lib.getTreeBuilder("dom")
    p = html5lib.HTMLParser(tree=tb, namespaceHTMLElements=nshtml)
    t0 = p.parse(text)
    a0 = abstract_of(t0, kind)
    s = HTMLSerializer(inject_meta_charset=False, **opts)
    out = s.render(html5lib.getTreeWalker(kind)(t0), encoding)
    p2 = html5lib.HTMLParser(tree=tb, namespaceHTMLElements=nshtml)
    t1 = p2.parse(out, **({"override_encoding": encoding} if encoding else {}))
    return a0, out, list(s.errors), abstract_of(t1, kind), list(p.errors)


def fails(text, opts, encoding, kind):
    try:
        a0, out, serrs, a1, perrs = real_roundtrip(text, opts, encoding, kind)
    except Exception as e:
        return True, None, "exc:%s" % type(e).__name__
    if opts.get("alphabetical_attributes"):
        return sort_attrs(a0) != sort_attrs(a1), a0, out
    return a0 != a1, a0, out


def candidates(t):
    """smaller documents: drop a child, hoist an element's children, drop an attribute, shorten a text"""
    out = []

    def rec(node, rebuild):
        if node[0] in ("doc", "frag"):
            kids = node[1]
            mk = lambda ks: rebuild((node[0], ks))
        elif node[0] == "elem":
            kids = node[4]
            mk = lambda ks: rebuild(("elem", node[1], node[2], node[3], ks))
            for i in range(len(node[3])):
                out.append(rebuild(("elem", node[1], node[2], node[3][:i] + node[3][i + 1:], kids)))
        else:
            return
        for i, k in enumerate(kids):
            if not (k[0] == "elem" and k[2] in ("html", "head", "body")) and k[0] != "doctype":
                out.append(mk(kids[:i] + kids[i + 1:]))
                # (rt/rp are never hoisted out of their ruby: outside ruby the parser does not imply their end tags, so the
                # smaller document would fail for a reason of its own that has nothing to do with the original failure)
                if k[0] == "elem" and k[4] and not (k[2] == "ruby" and any(c[0] == "elem" and c[2] in ("rt", "rp") for c in k[4])):
                    out.append(mk(kids[:i] + k[4] + kids[i + 1:]))
                if k[0] == "text" and len(k[1]) > 1:
                    h = len(k[1]) // 2
                    out.append(mk(kids[:i] + [("text", k[1][:h])] + kids[i + 1:]))
                    out.append(mk(kids[:i] + [("text", k[1][h:])] + kids[i + 1:]))
            rec(k, lambda nk, i=i, kids=kids, mk=mk: mk(kids[:i] + [nk] + kids[i + 1:]))
    rec(t, lambda x: x)
    return out


def conforming(doc):
    """the explicit markup of doc parses to doc itself without parse errors"""
    import html5lib
    p = html5lib.HTMLParser(tree=html5lib.getTreeBuilder("etree", fullTree=True))
    try:
        t = p.parse(conf.render(doc))
    except Exception:
        return False
    return not p.errors and abstract_of(t, "etree") == doc


def shrink(doc, opts, encoding, kind):
    for _ in range(60):
        nxt = None
        for c in candidates(doc):
            c = trees.merge_text(c)
            if conforming(c) and fails(conf.render(c), opts, encoding, kind)[0]:
                nxt = c
                break
        if nxt is None:
            break
        doc = nxt
    return doc


def names_in(t, acc):
    if t[0] in ("doc", "frag"):
        for k in t[1]:
            names_in(k, acc)
    elif t[0] == "elem":
        acc.append(t)
        for k in t[4]:
            names_in(k, acc)
    return acc


KNOWN_OMISSIONS = ("p-end-omitted-before-end-of-a-like-parent", "body-start-omitted-before-meta-link-script-style-template")
READER_RAW = {"script", "style", "xmp", "iframe", "noembed", "noframes"}     # raw text for a reader without scripting


def t_bool(t, opts):
    """recorded: minimize_boolean_attributes drops the value of an attribute listed in booleanAttributes"""
    from h5.lexical import BOOLEAN_ATTRIBUTES_PINNED as BA   # pinned: see lexical.py
    if t[0] in ("doc", "frag"):
        return (t[0], [t_bool(k, opts) for k in t[1]])
    if t[0] == "elem":
        attrs = [(ns, n, "" if (n in BA.get(t[2], ()) or n in BA.get("", ())) else v) for ns, n, v in t[3]]
        return ("elem", t[1], t[2], attrs, [t_bool(k, opts) for k in t[4]])
    return t


def t_escape(t, opts, raw=False):
    """recorded: escape_rcdata=True escapes the text of raw-text elements, and the parser does not decode it there"""
    from xml.sax.saxutils import escape
    if t[0] in ("doc", "frag"):
        return (t[0], [t_escape(k, opts) for k in t[1]])
    if t[0] == "elem":
        r = t[1] in (None, gen.HTML_NS) and t[2] in READER_RAW
        return ("elem", t[1], t[2], t[3], [t_escape(k, opts, r) for k in t[4]])
    if t[0] == "text" and raw:
        return ("text", escape(t[1]))
    return t


def expected_modulo_recorded(a0, opts):
    """[(class, tree)]: the conforming tree as the recorded option defects would hand it back (single defects first)"""
    out = []
    b = t_bool(a0, opts) if opts.get("minimize_boolean_attributes", True) else a0
    e = t_escape(a0, opts) if opts.get("escape_rcdata") else a0
    if b != a0:
        out.append(("boolean-attribute-value-minimised", b))
    if e != a0:
        out.append(("escape-rcdata-option-alters-rawtext", e))
    if b != a0 and e != a0:
        out.append(("boolean-attribute-value-minimised", t_escape(b, opts)))
    return out


def same(x, y, opts):
    return sort_attrs(x) == sort_attrs(y) if opts.get("alphabetical_attributes") else x == y


def omission_repair(text, opts, encoding, kind):
    """-> (class, re-parsed tree) when every tag that the optional-tags filter removed AGAINST the HTML syntax falls in ONE
    of the recorded deviation classes of C13 (decided from the omitted token and the token that follows it); the tree is
    the re-parse of the serialization in which exactly those tags are written again (all legal omissions stay).
    None when nothing was omitted illegally or when some illegal omission is not a recorded one."""
    import html5lib
    from html5lib.serializer import HTMLSerializer
    from html5lib.filters import alphabeticalattributes, optionaltags, whitespace
    from props import C13
    tb = html5lib.getTreeBuilder("etree", fullTree=True) if kind == "etree" else html5lib.getTreeBuilder("dom")
    toks = list(html5lib.getTreeWalker(kind)(html5lib.HTMLParser(tree=tb).parse(text)))
    if opts.get("alphabetical_attributes"):
        toks = list(alphabeticalattributes.Filter(toks))
    if opts.get("strip_whitespace"):
        toks = list(whitespace.Filter(toks))
    kept = {id(t) for t in optionaltags.Filter(toks)}
    classes, restore = [], set()
    for i, t in enumerate(toks):
        if id(t) in kept:
            continue
        nxt = toks[i + 1] if i + 1 < len(toks) else None
        if t["type"] == "StartTag":
            legal, dev = C13.spec_start(t["name"], nxt), C13.dev_start(t["name"], nxt)
        elif t["type"] == "EndTag":
            legal, dev = C13.spec_end(t["name"], nxt), C13.dev_end(t["name"], nxt)
        else:
            return None
        if legal:
            continue
        if dev not in KNOWN_OMISSIONS:
            return None
        classes.append(dev)
        restore.add(id(t))
    if not classes or len(set(classes)) != 1:
        return None
    o2 = {k: v for k, v in opts.items() if k not in ("omit_optional_tags", "alphabetical_attributes", "strip_whitespace")}
    ser = HTMLSerializer(inject_meta_charset=False, omit_optional_tags=False, **o2)
    out = ser.render([t for t in toks if id(t) in kept or id(t) in restore], encoding)
    t1 = html5lib.HTMLParser(tree=tb).parse(out, **({"override_encoding": encoding} if encoding else {}))
    return classes[0], abstract_of(t1, kind)


def classify(doc, opts, encoding=None, kind="etree"):
    """class of a MINIMAL failing conforming document.  A recorded class is returned only when the recorded defect explains
    the whole difference between the conforming tree and the re-parsed one; otherwise a generic (not recorded) class."""
    text = conf.render(doc)
    try:
        a0, out, serrs, a1, perrs = real_roundtrip(text, opts, encoding, kind)
        variants = expected_modulo_recorded(a0, opts)
        for cls, want in variants:
            if same(want, a1, opts):
                return cls
        if opts.get("omit_optional_tags", True):
            r = omission_repair(text, opts, encoding, kind)
            if r is not None:
                if same(a0, r[1], opts):
                    return r[0]
                for cls, want in variants:          # an illegal omission together with a recorded option defect
                    if same(want, r[1], opts):
                        return r[0]
    except Exception:
        pass
    cls = classify_features(doc, opts)
    known = KNOWN_OMISSIONS + ("boolean-attribute-value-minimised", "escape-rcdata-option-alters-rawtext")
    return cls + ":not-explained-by-the-recorded-defect" if cls in known else cls


def classify_features(doc, opts):
    """descriptive label from the features of the minimal document (never used for a recorded class)"""
    from h5.lexical import BOOLEAN_ATTRIBUTES_PINNED as BA   # pinned: see lexical.py
    els = names_in(doc, [])
    if opts.get("minimize_boolean_attributes", True) and any(
            (n in BA.get(e[2], ()) or n in BA.get("", ())) and v != "" for e in els for _, n, v in e[3]):
        return "boolean-attribute-value-minimised"
    if opts.get("escape_rcdata") and any(e[2] in ("script", "style", "xmp", "iframe", "noembed", "noframes", "noscript") and
                                         any(k[0] == "text" and any(c in k[1] for c in "<>&") for k in e[4]) for e in els):
        return "escape-rcdata-option-alters-rawtext"
    if opts.get("omit_optional_tags", True):
        for e in els:
            if e[2] in ("a", "audio", "del", "ins", "map", "noscript", "video") and e[4] and e[4][-1][0] == "elem" and e[4][-1][2] == "p":
                return "p-end-omitted-before-end-of-a-like-parent"
            if e[2] == "body" and e[4] and e[4][0][0] == "elem" and e[4][0][2] in ("meta", "link") and not e[3]:
                return "body-start-omitted-before-meta-link-script-style-template"
    for e in els:
        if e[2] in ("pre", "textarea", "listing") and e[4] and e[4][0][0] == "text" and e[4][0][1].startswith("\n"):
            return "leading-newline-in-pre-textarea"
    if any("\r" in k[1] for e in els for k in e[4] if k[0] == "text"):
        return "carriage-return-not-escaped"
    return "roundtrip-differs"


def one(ctx, doc, opts, encoding, kind, reqs, reals, src):
    text = conf.render(doc)
    try:
        a0, out, serrs, a1, perrs = real_roundtrip(text, opts, encoding, kind)
    except Exception as e:
        ctx.fail("roundtrip-raises:%s" % type(e).__name__, "serialize/parse raised on a conforming document", {"input": text[:600], "options": opts})
        return
    ctx.case("roundtrip", "%s|%s|%s|%s" % (text, sorted(opts.items()), encoding, kind), nontrivial=True,
             sample={"markup": text[:120], "options": opts, "encoding": encoding, "walker": kind})
    ctx.count(src + ":" + kind)
    if a0 != trees.merge_text(doc) or perrs:
        ctx.count("generator-document-not-parsed-as-intended")
        return
    bad = (sort_attrs(a0) != sort_attrs(a1)) if opts.get("alphabetical_attributes") else (a0 != a1)
    if bad:
        small = shrink(doc, opts, encoding, kind)
        ctx.fail(classify(small, opts, encoding, kind), "parse(serialize(tree)) differs from the conforming tree",
                 {"markup": conf.render(small)[:800], "options": opts, "encoding": encoding, "walker": kind,
                  "serialized": fails(conf.render(small), opts, encoding, kind)[2][:400] if True else ""})
    if encoding is None and kind == "etree" and not opts.get("strip_whitespace"):
        flags = "%s %s 0" % (wire.enc_bool(opts.get("omit_optional_tags", True)), wire.enc_bool(opts.get("alphabetical_attributes", False)))
        reqs.append("roundtrip %s %s %s" % (lexical.opts_word(opts), flags, trees.enc_tree(a0)))
        reals.append("ok %s | %s | %s" % (trees.enc_tree_sexpr(a1), wire.enc_str(out), wire.enc_list(wire.enc_str(e) for e in serrs)))


# ---------------------------------------------------------------------------------------------------------------------
# G0-identity: the class of documents of the proved theorem (H5.Props.C07b), checked on the real library
# ---------------------------------------------------------------------------------------------------------------------
G0_OPTS = {"omit_optional_tags": False}
G0_ORDINARY = ["span", "abbr", "cite", "dfn", "q", "sub", "sup", "var", "kbd", "samp", "mark", "time", "data", "bdi", "bdo",
               "label", "output", "ruby", "ins", "del", "x-foo", "video", "audio", "canvas", "map", "legend", "meter",
               "progress", "slot", "picture", "datalist"]
G0_BLOCK = ["div", "section", "article", "aside", "nav", "header", "footer", "main", "address", "blockquote", "center",
            "details", "dir", "dl", "fieldset", "figcaption", "figure", "hgroup", "menu", "ol", "summary", "ul"]
G0_VOID = ["br", "img", "area", "embed", "wbr", "param", "source", "track"]
G0_FMT = ["a", "b", "big", "code", "em", "font", "i", "s", "small", "strike", "strong", "tt", "u"]
G0_COMMENTS = ["c", " a comment ", "x-y", "<b>", "&amp;", "a>b", "-x", "!", "[if IE]", "<!-x"]
# near misses (mostly outside G0; the Lean definition decides): formatting / special elements, p in p, bad comments, ...
G0_NEAR = ["b", "i", "em", "a", "pre", "h1", "li", "table", "form", "button", "hr", "input", "keygen", "dialog", "textarea",
           "select", "object", "p", "div"]


class G0Gen(object):
    def __init__(self, rng):
        self.rng = rng
        self.g = conf.G(rng)

    def attrs(self):
        return self.g.attrs()

    def forest(self, depth, in_p, near, fm=(), parent="body"):
        out = []
        if parent in ("ul", "ol", "dl") and not near:
            # list containers: items only (the grammar also allows other content there; the near-miss family produces it)
            for _ in range(self.rng.randint(0, 3)):
                nm = "li" if parent != "dl" else self.rng.choice(["dt", "dd"])
                out.append(("elem", conf.H, nm, self.attrs(), self.forest(depth + 1, False, near, fm, nm)))
            return out
        for _ in range(self.rng.randint(0, 4)):
            r = self.rng.random()
            if not in_p and self.rng.random() < 0.12 and depth < 5:
                k = self.rng.random()
                if k < 0.4 and (parent not in ("h1", "h2", "h3", "h4", "h5", "h6") or near):
                    nm = self.rng.choice(["h1", "h2", "h3", "h4", "h5", "h6"])
                    out.append(("elem", conf.H, nm, self.attrs(), self.forest(depth + 1, False, near, fm, nm)))
                elif k < 0.6:
                    out.append(("elem", conf.H, "hr", self.attrs(), []))
                else:
                    nm = self.rng.choice(["ul", "ol", "dl"])
                    out.append(("elem", conf.H, nm, self.attrs(), self.forest(depth + 1, False, near, fm, nm)))
                continue
            if r < 0.30 or depth >= 5:
                t = self.rng.choice(conf.TEXTS)
                out.append(("text", t))
            elif r < 0.38:
                out.append(("comment", self.rng.choice(G0_COMMENTS + (["a--b", "x-", ">x", "->"] if near else []))))
            elif r < 0.48:
                out.append(("elem", conf.H, self.rng.choice(G0_VOID), self.attrs(), []))
            elif r < 0.66:
                out.append(("elem", conf.H, self.rng.choice(G0_ORDINARY), self.attrs(), self.forest(depth + 1, in_p, near, fm, 'x')))
            elif r < 0.80:
                nm = self.rng.choice(G0_FMT)
                if nm not in fm or (near and self.rng.random() < 0.5):
                    extra = [(None, "href", self.rng.choice(["#x", "http://e/?a=1&b=2"]))] if nm == "a" and self.rng.random() < 0.7 else []
                    out.append(("elem", conf.H, nm, self.g.attrs(extra), self.forest(depth + 1, in_p, near, fm + (nm,), nm)))
            elif r < 0.90 and (not in_p or near):
                nm = self.rng.choice(G0_BLOCK)
                out.append(("elem", conf.H, nm, self.attrs(), self.forest(depth + 1, False, near, fm, nm)))
            elif r < 0.97 and (not in_p or near):
                out.append(("elem", conf.H, "p", self.attrs(), self.forest(depth + 1, True, near, fm, "p")))
            elif near:
                nm = self.rng.choice(G0_NEAR)
                out.append(("elem", conf.H, nm, self.attrs(), self.forest(depth + 1, in_p, near, fm, nm)))
        return self.g.norm(out)

    def document(self, near=False):
        body = self.forest(0, False, near)
        head = []
        r = self.rng.random()
        if r < 0.6:
            t = self.rng.choice(["t", "a & b", "<t>", " x ", "</title", "caf\u00e9 &amp;", "a\nb"] + conf.TEXTS)
            head = [("elem", conf.H, "title", [], [("text", t)])]
        elif r < 0.7:
            head = [("elem", conf.H, "title", [], [])]
        elif near and r < 0.8:
            head = [("elem", conf.H, "title", [(None, "id", "t")], [("text", "x")])]
        html = ("elem", conf.H, "html", [], [("elem", conf.H, "head", [], head), ("elem", conf.H, "body", [], body)])
        return ("doc", [("doctype", "html", None, None), html])


def g0_real(doc, kind):
    """the real round trip with the theorem's options, starting from the explicit markup of doc:
    -> (tree parsed from the markup, its parse errors, serializer output, serializer errors, re-parsed tree, re-parse errors)"""
    import html5lib
    from html5lib.serializer import HTMLSerializer
    tb = html5lib.getTreeBuilder("etree", fullTree=True) if kind == "etree" else html5lib.getTreeBuilder("dom")
    p = html5lib.HTMLParser(tree=tb)
    t0 = p.parse(conf.render(doc))
    s = HTMLSerializer(inject_meta_charset=False, **G0_OPTS)
    out = s.render(html5lib.getTreeWalker(kind)(t0))
    p2 = html5lib.HTMLParser(tree=tb)
    t1 = p2.parse(out)
    return abstract_of(t0, kind), list(p.errors), out, list(s.errors), abstract_of(t1, kind), list(p2.errors)


def g0_identity(ctx, docs, reqs, reals):
    """docs: [(source label, document)].  Lean decides membership (op g0); members are checked on the real library."""
    if not getattr(ctx, "aux_ok", {}).get("driver_g0") or not docs:
        ctx.count("G0-identity:skipped (driver_g0 not built)")
        return
    answers = lean.run_driver(["g0 " + trees.enc_tree(d) for _, d in docs], exe=os.path.join(lean.LEAN, ".lake", "build", "bin", "driver_g0"))
    for (src, doc), ans in zip(docs, answers):
        if ans not in ("ok 1", "ok 0"):
            ctx.fail("g0-op-bad-answer", "the driver did not decide G0 membership", {"answer": ans[:200], "tree": trees.enc_tree(doc)[:400]})
            continue
        ctx.case("g0", trees.enc_tree(doc), nontrivial=True)
        if ans == "ok 0":
            ctx.count("G0-identity:outside-G0:" + src)
            continue
        ctx.count("G0-identity:in-G0:" + src)
        for kind in ("etree", "dom"):
            try:
                a0, perrs0, out, serrs, a1, perrs1 = g0_real(doc, kind)
            except Exception as e:
                ctx.fail("G0-identity:raises:%s" % type(e).__name__, "the real round trip raised on a document of G0",
                         {"markup": conf.render(doc)[:800], "walker": kind})
                continue
            ctx.case("G0-identity", "%s|%s" % (conf.render(doc), kind), nontrivial=True,
                     sample={"markup": conf.render(doc)[:160], "walker": kind, "family": "G0-identity"})
            inp = {"markup": conf.render(doc)[:800], "serialized": out[:800], "walker": kind, "options": G0_OPTS}
            if a0 != doc or perrs0:
                # the explicit source markup is not the theorem's text, but a G0 document written with every tag must parse to itself
                ctx.fail("G0-identity:source-markup-not-parsed-as-written", "explicit markup of a G0 document parsed to another tree / with errors",
                         dict(inp, errors=[str(e) for e in perrs0][:5]))
                continue
            if a1 != doc:
                ctx.fail("G0-identity:tree-differs", "THEOREM C07_identity contradicted on the real library: parse(serialize(t)) != t for t in G0", inp)
            if serrs:
                ctx.fail("G0-identity:serializer-errors", "THEOREM C07_no_errors contradicted on the real library: serializer reported errors on t in G0",
                         dict(inp, errors=serrs[:5]))
            if perrs1:
                ctx.fail("G0-identity:parse-errors", "THEOREM C07_no_errors contradicted on the real library: parse errors on serialize(t), t in G0",
                         dict(inp, errors=[str(e) for e in perrs1][:5]))
            if kind == "etree":
                reqs.append("roundtrip %s 0 0 0 %s" % (lexical.opts_word(G0_OPTS), trees.enc_tree(doc)))
                reals.append("ok %s | %s | %s" % (trees.enc_tree_sexpr(a1), wire.enc_str(out), wire.enc_list(wire.enc_str(e) for e in serrs)))


def witness_case(ctx, w):
    import random
    doc = ("doc", [("doctype", "html", None, None)] + [None])
    text = w["markup"]
    opts = w.get("options", {})
    bad, a0, out = fails(text, opts, None, "etree")
    if bad and a0 is not None:
        small = shrink(a0, opts, None, "etree")
        ctx.fail(classify(small, opts, None, "etree"), "parse(serialize(tree)) differs from the conforming tree", {"markup": text, "options": opts})


def regression_docs():
    """conforming documents exercising the repaired serializer finding C08-foreign-raw (f446f43: text of a foreign
    style/script is escaped): they must round-trip"""
    H, S, M = gen.HTML_NS, gen.SVG_NS, gen.MATHML_NS

    def doc(body):
        return ("doc", [("doctype", "html", None, None),
                        ("elem", H, "html", [], [("elem", H, "head", [], []), ("elem", H, "body", [], body)])])
    return [doc([("elem", S, "svg", [], [("elem", S, "style", [], [("text", "<b>&</b>")])])]),
            doc([("elem", M, "math", [], [("elem", M, "script", [], [("text", "a<b")])]), ("elem", H, "p", [], [("text", "t")])])]


def run(ctx):
    reqs, reals = [], []
    for doc in regression_docs():
        for kind in ("etree", "dom"):
            for opts in ({"omit_optional_tags": False}, {"omit_optional_tags": True, "quote_attr_values": "always"}):
                one(ctx, trees.merge_text(doc), dict(opts), None, kind, reqs, reals, "regression-f446f43")
    g0docs = []
    gg = G0Gen(ctx.rng)
    for i in range(ctx.scale(400, 6000)):
        g0docs.append(("G0-gen", trees.merge_text(gg.document(near=False))))
    for i in range(ctx.scale(200, 3000)):
        g0docs.append(("G0-near", trees.merge_text(gg.document(near=True))))
    for i in range(ctx.scale(700, 20000)):
        doc = trees.merge_text(conf.G(ctx.rng).document())
        g0docs.append(("G-conf", doc))
        opts = lexical.random_opts(ctx.rng)
        opts["omit_optional_tags"] = ctx.rng.random() < 0.6
        if ctx.rng.random() < 0.2:
            opts["alphabetical_attributes"] = True
        enc = ctx.rng.choice([None, None, None, "utf-8", "ascii"])
        one(ctx, doc, opts, enc, "dom" if i % 4 == 0 else "etree", reqs, reals, "G-conf")
        # the same document as a tree WITHOUT the HTML namespace (namespaceHTMLElements=False): whenever the namespaced
        # round trip is the identity, the namespace-less one must be too (void elements, optional tags and raw-text
        # elements are recognised by name in both)
        if i % 3 == 0:
            text = conf.render(doc)
            kind = "dom" if i % 4 == 0 else "etree"
            try:
                a0, out, _, a1, _ = real_roundtrip(text, opts, enc, kind)
                b0, bout, _, b1, _ = real_roundtrip(text, opts, enc, kind, nshtml=False)
            except Exception as e:
                ctx.fail("roundtrip-raises:%s" % type(e).__name__, "serialize/parse raised on a conforming document", {"input": text[:600], "options": opts})
                continue
            ctx.case("roundtrip-no-html-namespace", "%s|%s|%s|%s" % (text, sorted(opts.items()), enc, kind), nontrivial=True)
            ctx.count("no-html-namespace:" + kind)
            cmp_ = sort_attrs if opts.get("alphabetical_attributes") else (lambda t: t)
            if cmp_(a0) == cmp_(a1) and cmp_(b0) != cmp_(b1):
                ctx.fail("roundtrip-differs-only-without-html-namespace", "parse(serialize(tree)) is the identity for the namespaced tree "
                         "but not for the tree parsed with namespaceHTMLElements=False",
                         {"markup": text[:800], "options": opts, "encoding": enc, "walker": kind, "serialized": str(bout)[:400],
                          "serialized_namespaced": str(out)[:400]})
    g0_identity(ctx, g0docs, reqs, reals)
    if not any(k.startswith("G0-identity:in-G0:G0-gen") for k in ctx.dist) and ctx.driver_ok:
        ctx.fail("G0-identity:vacuous", "no generated document fell in G0", {})
    if ctx.driver_ok:
        ctx.compare("roundtrip", reqs, reals, lean.run_driver(reqs))


def replay(path):
    import json
    print(json.dumps(json.load(open(path)), indent=1)[:3000])
    return 0
