"""C07 — serialize then parse is the identity on conforming documents."""
from h5 import conf, gen, lean, lexical, trees, wire

ID = "C07"
PROPS_MODULE = "H5.Props.C07"
GEN_MODULES = ["Serializer", "OptionalTags", "Constants", "Dispatch", "ParserLiterals"]
CORRESPONDENCE_OPS = ["roundtrip"]
SOURCES = ["html5lib/serializer.py", "html5lib/filters/optionaltags.py", "html5lib/filters/alphabeticalattributes.py",
           "html5lib/treewalkers/base.py", "html5lib/treewalkers/etree.py", "html5lib/treewalkers/dom.py", "html5lib/constants.py"]
LEVEL = "translation_validation"
TRUSTED = ["the composed Lean pipeline H5.Model.Pipeline.roundTrip = walker ∘ filters ∘ serializer ∘ (tokenizer + tree builder), "
           "each component a hand model tied to /repo by its own correspondence, and the composition tied by op roundtrip",
           "G-conf (tools/h5/conf.py): the grammar of 'conforming document' used here; each generated document is first parsed "
           "from its explicit markup and must give the intended tree with no parse error",
           "the identity theorem itself (conforming t → roundTrip t = t) is not proved: decided by search on the real code"]
RULE = ("G-conf trees (depth <= 5) x random serializer option combinations (quoting mode/char, omission, minimisation, "
        "solidus, escaping flags, alphabetical attributes, output encoding in {none, utf-8, ascii}) x walker in {etree, dom}; "
        "oracle: parse(render(tree)) == tree; failing trees are shrunk and classified; non-trivial = every document")


def abstract_of(tree, kind):
    return trees.merge_text(trees.from_dom(tree) if kind == "dom" else trees.from_etree(tree))


def sort_attrs(t):
    if t[0] in ("doc", "frag"):
        return (t[0], [sort_attrs(k) for k in t[1]])
    if t[0] == "elem":
        return ("elem", t[1], t[2], sorted(t[3], key=repr), [sort_attrs(k) for k in t[4]])
    return t


def real_roundtrip(text, opts, encoding, kind):
    import html5lib
    from html5lib.serializer import HTMLSerializer
    tb = html5lib.getTreeBuilder("etree", fullTree=True) if kind == "etree" else html5lib.getTreeBuilder("dom")
    p = html5lib.HTMLParser(tree=tb)
    t0 = p.parse(text)
    a0 = abstract_of(t0, kind)
    s = HTMLSerializer(inject_meta_charset=False, **opts)
    out = s.render(html5lib.getTreeWalker(kind)(t0), encoding)
    p2 = html5lib.HTMLParser(tree=tb)
    t1 = p2.parse(out, **({"override_encoding": encoding} if encoding else {}))
    return a0, out, list(s.errors), abstract_of(t1, kind), list(p.errors)


def fails(text, opts, encoding, kind):
    try:
        a0, out, serrs, a1, perrs = real_roundtrip(text, opts, encoding, kind)
    except Exception as e:
        return True, None, "exc:%s" % type(e).__name__
    if opts.get("alphabetical_attributes"):
        return sort_attrs(a0) != sort_attrs(a1), a0, out
    return a0 != a1, a0, out


def candidates(t):
    """smaller documents: drop a child, hoist an element's children, drop an attribute, shorten a text"""
    out = []

    def rec(node, rebuild):
        if node[0] in ("doc", "frag"):
            kids = node[1]
            mk = lambda ks: rebuild((node[0], ks))
        elif node[0] == "elem":
            kids = node[4]
            mk = lambda ks: rebuild(("elem", node[1], node[2], node[3], ks))
            for i in range(len(node[3])):
                out.append(rebuild(("elem", node[1], node[2], node[3][:i] + node[3][i + 1:], kids)))
        else:
            return
        for i, k in enumerate(kids):
            if not (k[0] == "elem" and k[2] in ("html", "head", "body")) and k[0] != "doctype":
                out.append(mk(kids[:i] + kids[i + 1:]))
                # (rt/rp are never hoisted out of their ruby: outside ruby the parser does not imply their end tags, so the
                # smaller document would fail for a reason of its own that has nothing to do with the original failure)
                if k[0] == "elem" and k[4] and not (k[2] == "ruby" and any(c[0] == "elem" and c[2] in ("rt", "rp") for c in k[4])):
                    out.append(mk(kids[:i] + k[4] + kids[i + 1:]))
                if k[0] == "text" and len(k[1]) > 1:
                    h = len(k[1]) // 2
                    out.append(mk(kids[:i] + [("text", k[1][:h])] + kids[i + 1:]))
                    out.append(mk(kids[:i] + [("text", k[1][h:])] + kids[i + 1:]))
            rec(k, lambda nk, i=i, kids=kids, mk=mk: mk(kids[:i] + [nk] + kids[i + 1:]))
    rec(t, lambda x: x)
    return out


def conforming(doc):
    """the explicit markup of doc parses to doc itself without parse errors"""
    import html5lib
    p = html5lib.HTMLParser(tree=html5lib.getTreeBuilder("etree", fullTree=True))
    try:
        t = p.parse(conf.render(doc))
    except Exception:
        return False
    return not p.errors and abstract_of(t, "etree") == doc


def shrink(doc, opts, encoding, kind):
    for _ in range(60):
        nxt = None
        for c in candidates(doc):
            c = trees.merge_text(c)
            if conforming(c) and fails(conf.render(c), opts, encoding, kind)[0]:
                nxt = c
                break
        if nxt is None:
            break
        doc = nxt
    return doc


def names_in(t, acc):
    if t[0] in ("doc", "frag"):
        for k in t[1]:
            names_in(k, acc)
    elif t[0] == "elem":
        acc.append(t)
        for k in t[4]:
            names_in(k, acc)
    return acc


KNOWN_OMISSIONS = ("p-end-omitted-before-end-of-a-like-parent", "body-start-omitted-before-meta-link-script-style-template")
READER_RAW = {"script", "style", "xmp", "iframe", "noembed", "noframes"}     # raw text for a reader without scripting


def t_bool(t, opts):
    """recorded: minimize_boolean_attributes drops the value of an attribute listed in booleanAttributes"""
    from html5lib.constants import booleanAttributes as BA
    if t[0] in ("doc", "frag"):
        return (t[0], [t_bool(k, opts) for k in t[1]])
    if t[0] == "elem":
        attrs = [(ns, n, "" if (n in BA.get(t[2], ()) or n in BA.get("", ())) else v) for ns, n, v in t[3]]
        return ("elem", t[1], t[2], attrs, [t_bool(k, opts) for k in t[4]])
    return t


def t_escape(t, opts, raw=False):
    """recorded: escape_rcdata=True escapes the text of raw-text elements, and the parser does not decode it there"""
    from xml.sax.saxutils import escape
    if t[0] in ("doc", "frag"):
        return (t[0], [t_escape(k, opts) for k in t[1]])
    if t[0] == "elem":
        r = t[1] in (None, gen.HTML_NS) and t[2] in READER_RAW
        return ("elem", t[1], t[2], t[3], [t_escape(k, opts, r) for k in t[4]])
    if t[0] == "text" and raw:
        return ("text", escape(t[1]))
    return t


def expected_modulo_recorded(a0, opts):
    """[(class, tree)]: the conforming tree as the recorded option defects would hand it back (single defects first)"""
    out = []
    b = t_bool(a0, opts) if opts.get("minimize_boolean_attributes", True) else a0
    e = t_escape(a0, opts) if opts.get("escape_rcdata") else a0
    if b != a0:
        out.append(("boolean-attribute-value-minimised", b))
    if e != a0:
        out.append(("escape-rcdata-option-alters-rawtext", e))
    if b != a0 and e != a0:
        out.append(("boolean-attribute-value-minimised", t_escape(b, opts)))
    return out


def same(x, y, opts):
    return sort_attrs(x) == sort_attrs(y) if opts.get("alphabetical_attributes") else x == y


def omission_repair(text, opts, encoding, kind):
    """-> (class, re-parsed tree) when every tag that the optional-tags filter removed AGAINST the HTML syntax falls in ONE
    of the recorded deviation classes of C13 (decided from the omitted token and the token that follows it); the tree is
    the re-parse of the serialization in which exactly those tags are written again (all legal omissions stay).
    None when nothing was omitted illegally or when some illegal omission is not a recorded one."""
    import html5lib
    from html5lib.serializer import HTMLSerializer
    from html5lib.filters import alphabeticalattributes, optionaltags, whitespace
    from props import C13
    tb = html5lib.getTreeBuilder("etree", fullTree=True) if kind == "etree" else html5lib.getTreeBuilder("dom")
    toks = list(html5lib.getTreeWalker(kind)(html5lib.HTMLParser(tree=tb).parse(text)))
    if opts.get("alphabetical_attributes"):
        toks = list(alphabeticalattributes.Filter(toks))
    if opts.get("strip_whitespace"):
        toks = list(whitespace.Filter(toks))
    kept = {id(t) for t in optionaltags.Filter(toks)}
    classes, restore = [], set()
    for i, t in enumerate(toks):
        if id(t) in kept:
            continue
        nxt = toks[i + 1] if i + 1 < len(toks) else None
        if t["type"] == "StartTag":
            legal, dev = C13.spec_start(t["name"], nxt), C13.dev_start(t["name"], nxt)
        elif t["type"] == "EndTag":
            legal, dev = C13.spec_end(t["name"], nxt), C13.dev_end(t["name"], nxt)
        else:
            return None
        if legal:
            continue
        if dev not in KNOWN_OMISSIONS:
            return None
        classes.append(dev)
        restore.add(id(t))
    if not classes or len(set(classes)) != 1:
        return None
    o2 = {k: v for k, v in opts.items() if k not in ("omit_optional_tags", "alphabetical_attributes", "strip_whitespace")}
    ser = HTMLSerializer(inject_meta_charset=False, omit_optional_tags=False, **o2)
    out = ser.render([t for t in toks if id(t) in kept or id(t) in restore], encoding)
    t1 = html5lib.HTMLParser(tree=tb).parse(out, **({"override_encoding": encoding} if encoding else {}))
    return classes[0], abstract_of(t1, kind)


def classify(doc, opts, encoding=None, kind="etree"):
    """class of a MINIMAL failing conforming document.  A recorded class is returned only when the recorded defect explains
    the whole difference between the conforming tree and the re-parsed one; otherwise a generic (not recorded) class."""
    text = conf.render(doc)
    try:
        a0, out, serrs, a1, perrs = real_roundtrip(text, opts, encoding, kind)
        variants = expected_modulo_recorded(a0, opts)
        for cls, want in variants:
            if same(want, a1, opts):
                return cls
        if opts.get("omit_optional_tags", True):
            r = omission_repair(text, opts, encoding, kind)
            if r is not None:
                if same(a0, r[1], opts):
                    return r[0]
                for cls, want in variants:          # an illegal omission together with a recorded option defect
                    if same(want, r[1], opts):
                        return r[0]
    except Exception:
        pass
    cls = classify_features(doc, opts)
    known = KNOWN_OMISSIONS + ("boolean-attribute-value-minimised", "escape-rcdata-option-alters-rawtext")
    return cls + ":not-explained-by-the-recorded-defect" if cls in known else cls


def classify_features(doc, opts):
    """descriptive label from the features of the minimal document (never used for a recorded class)"""
    from html5lib.constants import booleanAttributes as BA
    els = names_in(doc, [])
    if opts.get("minimize_boolean_attributes", True) and any(
            (n in BA.get(e[2], ()) or n in BA.get("", ())) and v != "" for e in els for _, n, v in e[3]):
        return "boolean-attribute-value-minimised"
    if opts.get("escape_rcdata") and any(e[2] in ("script", "style", "xmp", "iframe", "noembed", "noframes", "noscript") and
                                         any(k[0] == "text" and any(c in k[1] for c in "<>&") for k in e[4]) for e in els):
        return "escape-rcdata-option-alters-rawtext"
    if opts.get("omit_optional_tags", True):
        for e in els:
            if e[2] in ("a", "audio", "del", "ins", "map", "noscript", "video") and e[4] and e[4][-1][0] == "elem" and e[4][-1][2] == "p":
                return "p-end-omitted-before-end-of-a-like-parent"
            if e[2] == "body" and e[4] and e[4][0][0] == "elem" and e[4][0][2] in ("meta", "link") and not e[3]:
                return "body-start-omitted-before-meta-link-script-style-template"
    for e in els:
        if e[2] in ("pre", "textarea", "listing") and e[4] and e[4][0][0] == "text" and e[4][0][1].startswith("\n"):
            return "leading-newline-in-pre-textarea"
    if any("\r" in k[1] for e in els for k in e[4] if k[0] == "text"):
        return "carriage-return-not-escaped"
    return "roundtrip-differs"


def one(ctx, doc, opts, encoding, kind, reqs, reals, src):
    text = conf.render(doc)
    try:
        a0, out, serrs, a1, perrs = real_roundtrip(text, opts, encoding, kind)
    except Exception as e:
        ctx.fail("roundtrip-raises:%s" % type(e).__name__, "serialize/parse raised on a conforming document", {"input": text[:600], "options": opts})
        return
    ctx.case("roundtrip", "%s|%s|%s|%s" % (text, sorted(opts.items()), encoding, kind), nontrivial=True,
             sample={"markup": text[:120], "options": opts, "encoding": encoding, "walker": kind})
    ctx.count(src + ":" + kind)
    if a0 != trees.merge_text(doc) or perrs:
        ctx.count("generator-document-not-parsed-as-intended")
        return
    bad = (sort_attrs(a0) != sort_attrs(a1)) if opts.get("alphabetical_attributes") else (a0 != a1)
    if bad:
        small = shrink(doc, opts, encoding, kind)
        ctx.fail(classify(small, opts, encoding, kind), "parse(serialize(tree)) differs from the conforming tree",
                 {"markup": conf.render(small)[:800], "options": opts, "encoding": encoding, "walker": kind,
                  "serialized": fails(conf.render(small), opts, encoding, kind)[2][:400] if True else ""})
    if encoding is None and kind == "etree" and not opts.get("strip_whitespace"):
        flags = "%s %s 0" % (wire.enc_bool(opts.get("omit_optional_tags", True)), wire.enc_bool(opts.get("alphabetical_attributes", False)))
        reqs.append("roundtrip %s %s %s" % (lexical.opts_word(opts), flags, trees.enc_tree(a0)))
        reals.append("ok %s | %s | %s" % (trees.enc_tree_sexpr(a1), wire.enc_str(out), wire.enc_list(wire.enc_str(e) for e in serrs)))


def witness_case(ctx, w):
    import random
    doc = ("doc", [("doctype", "html", None, None)] + [None])
    text = w["markup"]
    opts = w.get("options", {})
    bad, a0, out = fails(text, opts, None, "etree")
    if bad and a0 is not None:
        small = shrink(a0, opts, None, "etree")
        ctx.fail(classify(small, opts, None, "etree"), "parse(serialize(tree)) differs from the conforming tree", {"markup": text, "options": opts})


def run(ctx):
    reqs, reals = [], []
    for i in range(ctx.scale(700, 20000)):
        doc = trees.merge_text(conf.G(ctx.rng).document())
        opts = lexical.random_opts(ctx.rng)
        opts["omit_optional_tags"] = ctx.rng.random() < 0.6
        if ctx.rng.random() < 0.2:
            opts["alphabetical_attributes"] = True
        enc = ctx.rng.choice([None, None, None, "utf-8", "ascii"])
        one(ctx, doc, opts, enc, "dom" if i % 4 == 0 else "etree", reqs, reals, "G-conf")
    if ctx.driver_ok:
        ctx.compare("roundtrip", reqs, reals, lean.run_driver(reqs))


def replay(path):
    import json
    print(json.dumps(json.load(open(path)), indent=1)[:3000])
    return 0
