"""C16 — strict mode raises ParseError exactly when a parse error exists."""
import io

from h5 import gen, lean, wire

ID = "C16"
PROPS_MODULE = "H5.Props.C16"
EXTRA_PROPS_MODULES = ["H5.Props.C16b", "H5.Props.C16bTok", "H5.Props.C16bDispatch"]
GEN_MODULES = ["ErrorSites"]
CORRESPONDENCE_OPS = ["parsex"]
SOURCES = ["html5lib/html5parser.py", "html5lib/_tokenizer.py", "html5lib/_inputstream.py", "html5lib/constants.py"]
LEVEL = "proof"
TRUSTED = ["extraction of parse-error sites from the AST (tools/extract.py: ParseError dict literals, parseError(...) calls, "
           "stream errors.append) — a site with a non-literal code other than the two forwarders fails extraction",
           "Python %-formatting: a template formats iff every %(name) placeholder is a key of the supplied dict",
           "the strict/lenient equivalence is proved for the MODEL (H5.Props.C16b: C16_strict_ok / _raises / _iff / "
           "_lenient_never_parseError) and tied to the real parser by the `parsex` correspondence (strict and lenient runs, "
           "result tree or ParseError with the code of the error raised); stream positions and the message text are not modelled"]
RULE = ("parsex: real HTMLParser(strict=True/False, dom) vs the composed Lean parser on fixed cases, conforming documents and "
        "seeded soup x document/fragment x scripting x namespaceHTMLElements (tree, error codes, or ParseError with the code "
        "raised), and the C16b statements evaluated on the real results; "
        "strict vs lenient on seeded soup + EOF-truncated soup (every prefix of sampled documents) x document/fragment; "
        "non-trivial = the lenient parse records at least one error; distinct by (input, mode)")


class _Src(io.StringIO):
    """the input as a text stream that remembers whether a read came back empty (= the input stream hit EOF and reset
    its chunk); html5lib wraps a str in a StringIO itself, so the code path is the same"""
    eof = False

    def read(self, n=-1):
        d = io.StringIO.read(self, n)
        if d == "" and n != 0:
            self.eof = True
        return d


def _observe_unget():
    """count, per stream object, the unget() calls that take the 'prepend to the chunk' branch (chunkOffset == 0):
    after EOF (the recorded C16 defect) and before EOF (a different, stream-level matter).  Observation only: the
    original method is called unchanged."""
    from html5lib import _inputstream
    cls = _inputstream.HTMLUnicodeInputStream
    if getattr(cls.unget, "_h5v", False):
        return
    orig = cls.unget

    def unget(self, char):
        if char is not _inputstream.EOF and self.chunkOffset == 0:
            if getattr(self.dataStream, "eof", False):
                self._h5v_dup_eof = getattr(self, "_h5v_dup_eof", 0) + 1
            else:
                self._h5v_dup_other = getattr(self, "_h5v_dup_other", 0) + 1
        return orig(self, char)
    unget._h5v = True
    cls.unget = unget


_P = []


def _parser_with_snapshots():
    import html5lib
    if not _P:
        class P(html5lib.HTMLParser):
            """records, for every parse error, how many characters were pushed back onto an empty chunk after EOF so
            far and how many characters are still unread in the chunk"""
            def parseError(self, errorcode="XXX-undefined-error", datavars=None):
                st = self.tokenizer.stream
                self.snaps.append((getattr(st, "_h5v_dup_eof", 0), getattr(st, "_h5v_dup_other", 0),
                                   st.chunkSize - st.chunkOffset, bool(getattr(st.dataStream, "eof", False))))
                return html5lib.HTMLParser.parseError(self, errorcode, datavars)
        _P.append(P)
    p = _P[0]()
    p.snaps = []
    return p


def eof_unget_explains(nl, pos, snap):
    """the recorded defect and nothing else: the error was recorded after the stream hit EOF, `dup` characters had been
    pushed back onto the emptied chunk (each is counted a second time), and the recorded position is exactly the true
    position (end of input minus the characters still unread) on the last line with the column moved right by `dup`"""
    dup, other, pending, eof = snap
    if not eof or dup < 1 or other:
        return False
    idx = len(nl) - pending
    if idx < 0:
        return False
    line = nl.count("\n", 0, idx) + 1
    col = idx - (nl.rfind("\n", 0, idx) + 1)
    return line == nl.count("\n") + 1 and pos == (line, col + dup)


def run_one(ctx, text, fragment):
    import html5lib
    from html5lib.html5parser import ParseError
    from html5lib.constants import E
    kw = {}
    _observe_unget()
    p = _parser_with_snapshots()
    try:
        if fragment:
            p.parseFragment(_Src(text), container=fragment)
        else:
            p.parse(_Src(text))
    except Exception as e:
        # exceptions in lenient mode belong to C03; recorded there
        return
    errs = list(p.errors)
    snaps = list(p.snaps)
    ctx.case("strict-vs-lenient", "%s|%s" % (fragment, text), nontrivial=bool(errs),
             sample={"input": text[:80], "fragment": fragment, "errors": [e[1] for e in errs[:3]]} if errs else None)
    nl = text.replace("\r\n", "\n").replace("\r", "\n")
    lines = nl.split("\n")
    for k, (pos, code, dv) in enumerate(errs):
        if code not in E:
            ctx.fail("code-without-template:%s" % code, "recorded error code has no message template", {"input": text, "code": code})
            continue
        try:
            E[code] % dv
        except Exception as e:
            ctx.fail("template-does-not-format:%s" % code, "message template does not format with the supplied variables",
                     {"input": text, "code": code, "datavars": repr(dv)})
        line, col = pos
        if not (1 <= line <= len(lines) and 0 <= col <= len(lines[line - 1])):
            # known: after EOF, characters pushed back at chunk offset 0 are counted twice (columns past the end of the
            # LAST line); anything else (wrong line, or past the end of an inner line) is a different failure
            known = line == len(lines) and col > len(lines[-1]) and len(snaps) == len(errs) and \
                eof_unget_explains(nl, tuple(pos), snaps[k])
            cls = "position-past-end-of-last-line-after-eof-unget" if known else "position-outside-input"
            ctx.fail(cls, "recorded error position lies outside the input", {"input": text, "pos": pos, "code": code})
    ps = html5lib.HTMLParser(strict=True)
    raised = None
    try:
        if fragment:
            ps.parseFragment(text, container=fragment)
        else:
            ps.parse(text)
    except ParseError as e:
        raised = ("ParseError", str(e))
    except Exception as e:
        raised = (type(e).__name__, str(e))
    if raised and raised[0] != "ParseError":
        ctx.fail("strict-raises-other:%s" % raised[0], "strict mode raised something other than ParseError", {"input": text, "exc": raised})
    elif bool(raised) != bool(errs):
        ctx.fail("strict-iff-lenient", "strict raises iff lenient records an error is violated", {"input": text, "errors": repr(errs[:2]), "raised": raised})
    elif raised:
        pos, code, dv = errs[0]
        if raised[1] != E[code] % dv:
            ctx.fail("strict-not-first-error", "the error raised is not the first one recorded", {"input": text, "first": code, "raised": raised[1]})


def witness_case(ctx, w):
    if "conforming" in w:
        conforming_case(ctx, w["conforming"])
        return
    run_one(ctx, w["input"], None)


DOC = "<!DOCTYPE html><html><head><title>t</title></head><body>%s</body></html>"
# conforming attribute / text syntax variants.  An ampersand that does not start a character reference (followed by white space,
# `<`, `&`, the closing quote of its value, `>` ending an unquoted value, or the end of the text) is conforming in every syntax.
CONF_VALUES = ["R&", "a & b", "?q=1&", "&", "a &", "x&amp;y", "a&#38;b", "1 &lt; 2", "a && b"]
# ... and so is an ampersand followed by anything that is not `alnum+ ;` (the standard's "ambiguous ampersand" needs the
# semicolon): html5lib reports expected-named-entity for these (recorded finding)
AMP_VALUES = ["a&.b", "a&=b", "a&zq", "x&-y", "a&zq b", "?a=1&zb=2", "a&!"]


def variants(v):
    yield "<p title=\"%s\">x</p>" % v
    yield "<p title='%s'>x</p>" % v
    if not any(c in v for c in " \t\n\"'=<>`"):
        yield "<p title=%s>x</p>" % v
        yield "<p title=%s id=i>x</p>" % v
    yield "<p>%s</p>" % v
    yield "<p>%s<b>y</b></p>" % v
    yield "<p title='a\"b' lang=\"x'y\">%s</p>" % v


def conforming_case(ctx, body):
    import html5lib
    from h5 import trees
    text = DOC % body
    p = html5lib.HTMLParser()
    t = p.parse(text)
    ctx.case("conforming-syntax-variants", text, nontrivial=True)
    ctx.count("conforming-syntax-variants")
    if not p.errors:
        return
    cls = "conforming-document-reports-error:%s" % p.errors[0][1]
    if all(e[1] == "expected-named-entity" for e in p.errors):
        # recorded class only if the defect explains everything: every error sits on an ampersand that starts no reference
        # (not followed by `alnum* ;`, `#`, or a legacy name), and with those ampersands written `&amp;` the same tree comes
        # out without any error
        import re
        from html5lib.constants import entities
        legacy = [k for k in entities if not k.endswith(";")]

        def plain(m):
            rest = text[m.end():]
            if rest[:1] in ("", " ", "\t", "\n", "\x0c", "\r", "<", "&", '"', "'", ">"):
                return False        # html5lib is silent here (or the character may close the value): not the recorded defect
            return not (rest.startswith("#") or re.match(r"[A-Za-z0-9]+;", rest) or any(rest.startswith(k) for k in legacy))
        esc = re.sub(r"&", lambda m: "&amp;" if plain(m) else "&", text)
        p2 = html5lib.HTMLParser()
        t2 = p2.parse(esc)
        if not p2.errors and trees.from_etree(t2) == trees.from_etree(t):
            cls += ":ampersand-not-starting-a-reference"
    ctx.fail(cls, "a conforming document records a parse error", {"conforming": body, "input": text, "errors": repr(p.errors[:3])})


def real_parsex(T, text, container, scripting, nshtml, strict):
    """the real parser (dom builder) in the format of the `parsex` op: 'ok <tree> | <n codes>' or 'err <Class>[:code]'"""
    import html5lib
    from html5lib import treebuilders
    from html5lib.html5parser import ParseError
    p = html5lib.HTMLParser(tree=treebuilders.getTreeBuilder("dom"), strict=strict, namespaceHTMLElements=nshtml)
    try:
        if container is None:
            res = p.parse(text, scripting=scripting)
        else:
            res = p.parseFragment(text, container=container, scripting=scripting)
    except ParseError:
        # the exception is raised right after the error was appended: errors[-1] is the error raised
        return "err ParseError:%s" % T.enc_str(p.errors[-1][1]), len(p.errors)
    except RecursionError:
        return "err RecursionError", len(p.errors)
    except Exception as e:
        return wire.exc_tag(e), len(p.errors)
    return "ok %s | %s" % (T.dom_tree(res), T.enc_list(T.enc_str(c) for _pos, c, _dv in p.errors)), len(p.errors)


def _colliding_attrs(text):
    """a tag with both `p:x` and `x` (or two prefixes of one local name): minidom's setAttributeNode keys un-namespaced
    attributes by the part after ':' and drops one of them (known back-end deviation, see notes_treebuilder.md);
    such inputs are left to C01/C04, which account for it"""
    import re
    for tag in re.findall(r"<[A-Za-z][^<>]*>", text):
        names = [n.lower() for n in re.findall(r"[\s/]([^\s=/>\"']+)(?==|[\s/>])", tag)]
        local = [n.split(":", 1)[1] if ":" in n else n for n in names]
        if any(":" in n for n in names) and len(set(local)) < len(set(names)):
            return True
    return False


def strict_correspondence(ctx):
    """real HTMLParser(strict=True/False) vs the composed Lean parser (`parsex` op), and the C16 relation on the REAL
    results in the form the theorems state it for the model"""
    if not ctx.driver_ok:
        return
    sys_path_fix()
    import tree_corr as T
    from html5lib._inputstream import invalid_unicode_re
    frags = [None, None, None, "div", "table", "select", "textarea", "title", "script", "svg", "td", "html", "frameset",
             "tr", "colgroup", "math", "plaintext", "noscript"]
    cases = []
    fixed = ["", "x", "<!DOCTYPE html>", "<!DOCTYPE html><title>t</title><p>x", "<p>", "<!DOCTYPE html><p></b>",
             "<!DOCTYPE html><table><b>x", "<!DOCTYPE html><svg><p>", "<!DOCTYPE html><a b=1 b=2>", "<!DOCTYPE html>&#0;",
             "<!DOCTYPE html><br/>", "<!DOCTYPE html><div/>", "<!DOCTYPE html></html><p>", "<!DOCTYPE html><select><input>",
             "<!DOCTYPE html><b><p></b>x", "<!DOCTYPE html><table><tr><td></table>", "<!DOCTYPE html><frameset></frameset>x"]
    for t in fixed:
        cases.append((t, None, False, True))
        cases.append((t, "div", False, True))
    from h5 import conf
    for i in range(ctx.scale(300, 4000)):
        cases.append((conf.render(conf.G(ctx.rng).document()), None, ctx.rng.random() < 0.3, True))
    for i in range(ctx.scale(3000, 60000)):
        text = gen.soup(ctx.rng, maxparts=8)
        if ctx.rng.random() < 0.35:
            text = "<!DOCTYPE html>" + text
        cases.append((text, ctx.rng.choice(frags), ctx.rng.random() < 0.3, ctx.rng.random() < 0.85))
    reqs, reals, meta = [], [], []
    for text, cont, sc, ns in cases:
        if "\r" in text or invalid_unicode_re.search(text) or _colliding_attrs(text):
            continue
        lo = cont.lower() if cont is not None else None
        for strict in (True, False):
            real, nerr = real_parsex(T, text, cont, sc, ns, strict)
            reqs.append("parsex %s %s %s %s %s" % (wire.enc_bool(strict), wire.enc_ostr(lo), wire.enc_bool(sc),
                                                   wire.enc_bool(ns), wire.enc_str(text)))
            reals.append(real)
            meta.append((text, cont, sc, ns, strict, nerr))
    out = lean.run_driver(reqs)
    results = {}
    for rq, real, model, m in zip(reqs, reals, out, meta):
        text, cont, sc, ns, strict, nerr = m
        ctx.evaluations += 1
        ctx.case("parsex", "%s|%s|%s|%s|%s" % (strict, cont, sc, ns, text), nontrivial=nerr > 0,
                 sample={"input": text[:80], "container": cont, "strict": strict, "real": real[:60]} if nerr else None)
        ok = real == model or (model.startswith("ok ") and T.dom_view(model) == real)
        if not ok and real.startswith("err ") and model.startswith("err ") and not real.startswith("err ParseError"):
            ok = wire.same(real, model)             # other exceptions: class only (sites are C03's business)
        if not ok:
            ctx.disagree("parsex", rq, real, model, input={"input": text[:300], "container": cont, "strict": strict})
        results[(text, cont, sc, ns, strict)] = real
    ctx.ops["parsex"] = len(reqs)
    # the statement of H5.Props.C16b on the REAL results (C16_strict_ok / C16_strict_raises / C16_strict_of_lenient_exception)
    for (text, cont, sc, ns, strict), S in results.items():
        if not strict:
            continue
        L = results.get((text, cont, sc, ns, False))
        if L is None:
            continue
        inp = {"input": text[:400], "container": cont, "scripting": sc, "lenient": L[:200], "strict": S[:200]}
        if L.startswith("ok "):
            tree, errs = L.rsplit(" | ", 1)
            ws = errs.split()
            if ws[0] == "0":
                if S != L:
                    ctx.fail("strict-differs-without-error", "no error recorded but strict mode does not return the same tree", inp)
            elif S != "err ParseError:%s" % ws[1]:
                ctx.fail("strict-not-first-error", "strict mode does not raise the first recorded error", inp)
        elif L.startswith("err ParseError"):
            ctx.fail("lenient-raises-ParseError", "the lenient parser raised ParseError", inp)
        elif not (S == L or S.startswith("err ParseError:")):
            ctx.fail("strict-raises-other", "lenient raised an exception; strict raised neither the same nor ParseError", inp)


def sys_path_fix():
    import os
    import sys
    d = os.path.join(os.path.dirname(os.path.dirname(os.path.abspath(__file__))))
    if d not in sys.path:
        sys.path.insert(0, d)


def run(ctx):
    strict_correspondence(ctx)
    frags = [None, None, None, "div", "table", "select", "textarea", "title", "script", "svg", "td", "html", "frameset"]
    for i in range(ctx.scale(2500, 60000)):
        text = gen.soup(ctx.rng, maxparts=8)
        run_one(ctx, text, ctx.rng.choice(frags))
    # conforming documents record no errors
    from h5 import conf
    import html5lib
    for i in range(ctx.scale(300, 8000)):
        text = conf.render(conf.G(ctx.rng).document())
        p = html5lib.HTMLParser()
        p.parse(text)
        ctx.case("conforming-no-errors", text, nontrivial=True)
        if p.errors:
            ctx.fail("conforming-document-reports-error:%s" % p.errors[0][1], "a conforming document records a parse error",
                     {"input": text[:600], "errors": repr(p.errors[:3])})
    for v in CONF_VALUES + AMP_VALUES:
        for body in variants(v):
            conforming_case(ctx, body)
    # character references in a conforming document: a numeric reference is conforming exactly when the standard's
    # numeric-character-reference-end state reports nothing for it; named references with their semicolon always are
    def ref_allowed(n):
        if n == 0 or n > 0x10FFFF or 0xD800 <= n <= 0xDFFF:
            return False
        if 0xFDD0 <= n <= 0xFDEF or (n & 0xFFFE) == 0xFFFE:
            return False
        if n == 0x0D:
            return False
        if (n <= 0x1F or 0x7F <= n <= 0x9F) and n not in (0x09, 0x0A, 0x0C, 0x20):
            return False
        return True
    vals = list(range(0, 0x30)) + list(range(0x7D, 0xA3)) + [0xD7FF, 0xD800, 0xDFFF, 0xE000, 0xFDCF, 0xFDD0, 0xFDEF, 0xFDF0, 0xFFFD,
                                                              0xFFFE, 0xFFFF, 0x10000, 0x1FFFD, 0x1FFFE, 0x1FFFF, 0x20000, 0x10FFFD,
                                                              0x10FFFE, 0x10FFFF, 0x110000]
    vals += [ctx.rng.randrange(0x20, 0x110000) for _ in range(ctx.scale(150, 5000))]
    for j, n in enumerate(vals):
        ref = ("&#%d;" % n) if j % 3 == 0 else ("&#x%X;" % n) if j % 3 == 1 else ("&#x%x;" % n)
        text = '<!DOCTYPE html><html><head><title>t</title></head><body><p title="%s">a%sb</p></body></html>' % (ref, ref)
        p = html5lib.HTMLParser()
        p.parse(text)
        ctx.case("numeric-reference-conformance", text, nontrivial=True)
        if ref_allowed(n) and p.errors:
            ctx.fail("conforming-document-reports-error:%s" % p.errors[0][1], "a conforming document (allowed numeric reference) records a parse error",
                     {"input": text, "errors": repr(p.errors[:3])})
        if not ref_allowed(n) and not p.errors:
            ctx.fail("non-conforming-reference-without-error", "a numeric reference the standard reports as an error records none",
                     {"input": text})
    from html5lib.constants import entities as _ents
    _semi = sorted(k for k in _ents if k.endswith(";"))
    for name in ctx.rng.sample(_semi, min(len(_semi), ctx.scale(200, 2231))):
        text = '<!DOCTYPE html><html><head><title>t</title></head><body><p title="x&%sy">a&%sb</p></body></html>' % (name, name)
        p = html5lib.HTMLParser()
        p.parse(text)
        ctx.case("named-reference-conformance", text, nontrivial=True)
        if p.errors:
            ctx.fail("conforming-document-reports-error:%s" % p.errors[0][1], "a conforming document (named reference) records a parse error",
                     {"input": text, "errors": repr(p.errors[:3])})
    # a restart of the parse (late <meta charset> beyond the first chunk) must not leave anything behind in the error
    # positions: the errors of the bytes parse are those of the str parse of the decoded text
    for pad_lines in (0, 40, 5200, 5300):
        for enc in ("utf-8", "koi8-r"):
            head = b"<!DOCTYPE html><html><head><title>t</title><!--" + b"x\n" * pad_lines + b"-->"
            body = "<meta charset=%s></head><body><p>\u0416z</b>\n<i></u>\n</p></q>" % enc
            data = head + body.encode(enc)
            pb = html5lib.HTMLParser()
            pb.parse(data)
            ps = html5lib.HTMLParser()
            ps.parse(data.decode(enc))
            ctx.case("restart-positions", "%d|%s" % (pad_lines, enc), nontrivial=True)
            eb = [(pos, code) for pos, code, _ in pb.errors]
            es = [(pos, code) for pos, code, _ in ps.errors]
            if eb != es:
                ctx.fail("positions-differ-after-restart", "error positions of a bytes parse that restarted on a late <meta> differ from the "
                         "str parse of the same characters", {"padding_lines": pad_lines, "encoding": enc, "bytes_errors": repr(eb)[:300],
                                                               "str_errors": repr(es)[:300]})
    # every tokenizer error site: short strings over the tokenizer alphabet, raw and inside a tag / attribute value
    import itertools
    alpha = ["<", ">", "/", "!", "-", "?", "=", '"', "'", "&", "#", ";", "x", "A", "0", " ", "\x00", "]"]
    L = ctx.scale(2, 3)
    shorts = ["".join(t) for n in range(1, L + 1) for t in itertools.product(alpha, repeat=n)]
    for sh in shorts:
        for text in (sh, "<a " + sh + ">", "<a b=" + sh + ">", "<!DOCTYPE " + sh + ">", "<!--" + sh + "-->"):
            run_one(ctx, text, None)
    # EOF at every offset of some documents (reaches the EOF sites of every tokenizer state)
    docs = ["<!DOCTYPE html PUBLIC \"a\" 'b'><a b='c' d=\"e\" f=g h>x</a><!-- c --><![CDATA[x]]><script><!--<script>--></script></script>&amp;&#x41;&#65;",
            "<title>a&amp;</title><textarea>\n</textarea><svg><![CDATA[x]]></svg><!DOCTYPE a SYSTEM \"x\"><?pi?></ x><a/><a b/ c=>"]
    for d in docs:
        for k in range(len(d) + 1):
            run_one(ctx, d[:k], None)
            if ctx.tier == "thorough":
                run_one(ctx, d[:k], "div")


def replay(path):
    import json
    print(json.dumps(json.load(open(path)), indent=1)[:3000])
    return 0
