"""C09 — sanitizer output contains only allow-listed markup, URLs and CSS."""
import itertools
import re
import sys
import urllib.parse
import warnings

from h5 import gen, lean, wire

ID = "C09"
PROPS_MODULE = "H5.Props.C09"
EXTRA_PROPS_MODULES = ["H5.Props.C09Tables"]
GEN_MODULES = ["Sanitizer", "Constants"]
CORRESPONDENCE_OPS = ["san", "san:css", "san:uri", "san:scheme", "san:lower", "san:split", "re:*", "spec:browserScheme"]
SOURCES = ["html5lib/filters/sanitizer.py", "html5lib/constants.py", "html5lib/filters/base.py"]
LEVEL = "proof"
TRUSTED = ["hand model H5.Model.Sanitizer of Filter.__iter__/sanitize_token/allowed_token/disallowed_token/sanitize_css, tied by op san "
           "(default + random custom lists) and the component ops san:css, san:uri, san:scheme, san:lower, san:split",
           "Python re: engine H5.Model.Regex + translation of Python's own parse of every pattern, validated pattern by pattern "
           "(re:<name> search/match/findall/sub, exhaustive over each pattern's alphabet to a length bound)",
           "urllib.parse.urlsplit (CPython 3.12): scheme/netloc/path and all ValueError branches incl. ipaddress and the NFKC "
           "check (table of code points evaluated from unicodedata), tied by op san:scheme",
           "str.lower / str.split / \\w \\s \\d: tables evaluated from the running Python",
           "the browser side of the statement: H5.Spec.Url.browserScheme (URL standard, scheme state) in Lean; in the oracle an "
           "independent Python browser_scheme() and the fetch standard's data: URL MIME type extraction"]
RULE = ("re:*: every string over the pattern's alphabet up to length 4 (quick, sampled at 4) / 5-6 (thorough); san:scheme: "
        "obfuscated URLs + IPv6-ish bracket hosts from a grammar; san:css: styles assembled from allowed/forbidden properties, "
        "keywords, url()/expression()/quotes/comments/non-ASCII; san: token streams walked from soup parses enriched with "
        "obfuscated URL / style / namespaced attributes and foreign elements, default lists + ~20 random restricted lists; "
        "oracle on the REAL output; non-trivial = stream has a tag with attributes or a disallowed tag")

C0_SPACE = "".join(chr(i) for i in range(0x21))
HTML_NS, SVG_NS, MATHML_NS, XLINK_NS, XML_NS = gen.HTML_NS, gen.SVG_NS, gen.MATHML_NS, gen.XLINK_NS, gen.XML_NS
LIST_NAMES = ["allowed_elements", "allowed_attributes", "allowed_css_properties", "allowed_css_keywords",
              "allowed_svg_properties", "allowed_protocols", "allowed_content_types", "attr_val_is_uri",
              "svg_attr_val_allows_ref", "svg_allow_local_href"]
KEY_LISTS = {"allowed_elements", "allowed_attributes", "attr_val_is_uri", "svg_attr_val_allows_ref", "svg_allow_local_href"}


def S():
    with warnings.catch_warnings():
        warnings.simplefilter("ignore")
        from html5lib.filters import sanitizer
    return sanitizer


# Which attributes are URI-valued / may carry url() references / are local-href-only is a fact about browsers, not about
# the library's tables: the oracle for the DEFAULT configuration uses at least the pinned sets below (the tables of the
# pinned commit), so that an entry silently dropped or mis-keyed in the library's own table is a failure of the property
# and not a change of the oracle (round-6 seed C09-6: (xml, base) re-keyed to (xlink, base)).
URI_VALUED_PINNED = frozenset([(None, n) for n in ("action", "background", "cite", "datasrc", "dynsrc", "href", "longdesc", "lowsrc",
                                                    "ping", "poster", "src")] + [(gen.XLINK_NS, "href"), (gen.XML_NS, "base")])
SVG_REF_PINNED = frozenset((None, n) for n in ("clip-path", "color-profile", "cursor", "fill", "filter", "marker", "marker-end",
                                               "marker-mid", "marker-start", "mask", "stroke"))
SVG_LOCAL_HREF_PINNED = frozenset((None, n) for n in ("altGlyph", "animate", "animateColor", "animateMotion", "animateTransform",
                                                      "cursor", "feImage", "filter", "linearGradient", "pattern", "radialGradient",
                                                      "set", "textpath", "tref", "use"))


def defaults():
    m = S()
    d = {n: getattr(m, n) for n in LIST_NAMES}
    d["attr_val_is_uri"] = frozenset(d["attr_val_is_uri"]) | URI_VALUED_PINNED
    d["svg_attr_val_allows_ref"] = frozenset(d["svg_attr_val_allows_ref"]) | SVG_REF_PINNED
    d["svg_allow_local_href"] = frozenset(d["svg_allow_local_href"]) | SVG_LOCAL_HREF_PINNED
    return d


# ------------------------------------------------------------------------------------------------------------------
# encoding
def enc_lists(cfg):
    if cfg is None:
        return "default"
    out = ["custom"]
    for n in LIST_NAMES:
        if n in KEY_LISTS:
            out.append(wire.enc_list("%s %s" % (wire.enc_ostr(ns), wire.enc_str(nm))
                                     for ns, nm in sorted(cfg[n], key=lambda t: (t[0] or "", t[1]))))
        else:
            out.append(wire.enc_list(wire.enc_str(x) for x in sorted(cfg[n])))
    return " ".join(out)


def enc_sc_toks(toks):
    return wire.enc_list("%s %s" % (wire.enc_bool(t.get("selfClosing")), wire.enc_tok(t)) for t in toks)


def real_filter(toks, cfg):
    with warnings.catch_warnings():
        warnings.simplefilter("ignore")
        return list(S().Filter([wire.copy_tok(t) for t in toks], **(cfg or {})))


# ------------------------------------------------------------------------------------------------------------------
# the browser side of the statement (independent of the code under test)
def browser_scheme(v):
    """URL standard, basic URL parser up to the scheme state, on an attribute value"""
    s = v.strip(C0_SPACE)
    s = "".join(c for c in s if c not in "\t\n\r")
    if not s or not ("a" <= s[0] <= "z" or "A" <= s[0] <= "Z"):
        return None
    buf = ""
    for c in s:
        if "a" <= c <= "z" or "0" <= c <= "9" or c in "+-.":
            buf += c
        elif "A" <= c <= "Z":
            buf += chr(ord(c) + 32)
        elif c == ":":
            return buf
        else:
            return None
    return None


TOKEN = set("!#$%&'*+-.^_`|~0123456789abcdefghijklmnopqrstuvwxyzABCDEFGHIJKLMNOPQRSTUVWXYZ")


def browser_data_mime(v):
    """MIME type essence a browser computes for a data: URL (URL standard opaque path + fetch 'data: URL processor')"""
    s = v.strip(C0_SPACE)
    s = "".join(c for c in s if c not in "\t\n\r")
    body = s[s.index(":") + 1:].split("#", 1)[0]
    # opaque path / query: C0 controls and everything above U+007E are percent-encoded when the URL is serialized
    ser = ""
    for c in body:
        if ord(c) < 0x20 or ord(c) > 0x7E:
            try:
                ser += "".join("%%%02X" % b for b in c.encode("utf-8"))
            except UnicodeEncodeError:
                ser += "%EF%BF%BD"
        else:
            ser += c
    if "," not in ser:
        return None                       # not a loadable data: URL at all
    mime = ser.split(",", 1)[0].strip("\t\n\x0c\r ")
    m = re.search(r";\x20*base64$", mime, re.I)
    if m:
        mime = mime[:m.start()]
    if mime.startswith(";"):
        mime = "text/plain" + mime
    typ, slash, rest = mime.partition("/")
    sub = rest.split(";", 1)[0].rstrip("\t\n\r ")
    if not slash or not typ or not sub or not set(typ) <= TOKEN or not set(sub) <= TOKEN:
        return "text/plain"
    return (typ + "/" + sub).lower()


SHORTHAND = ("background", "border", "margin", "padding")
UNITS = ("cm", "em", "ex", "in", "mm", "pc", "pt", "px", "%", ",", ")", "")


def keyword_ok(kw, cfg):
    if kw in cfg["allowed_css_keywords"]:
        return True
    if re.fullmatch(r"#[0-9a-fA-F]+", kw) or re.fullmatch(r"rgb\([0-9]+%?,[0-9]*%?,?[0-9]*%?\)?", kw):
        return True
    m = re.fullmatch(r"([0-9]{0,2})(\.?)([0-9]{0,2})(.*)", kw, re.S)
    return bool(m) and m.group(4) in UNITS


# how `url` + white space + `(` arose before the guard of COMMIT_B: the single pass of the remover deletes a complete
# url(...) group that stands between a bare `url` and a `(`, and glues the two with its replacement ' '
# (fixed: the class is no longer a known finding, a recurrence is a VIOLATION under this name)
RESPACED = re.compile(r"url\s*(?:url\s*\([^)]*\)\s*)+\(", re.I)


def style_problems(out, cfg, style_in=None):
    """[(class, detail)] for a sanitized style value (style_in: the value it was computed from, if known)"""
    bad = []
    for decl in out.split(";"):
        if not decl.strip():
            continue
        prop, colon, val = decl.partition(":")
        p = prop.strip().lower()
        if not colon:
            bad.append(("css-not-a-declaration", decl))
        elif p in cfg["allowed_css_properties"] or p in cfg["allowed_svg_properties"]:
            pass
        elif p.split("-")[0] in SHORTHAND and all(keyword_ok(k, cfg) for k in val.split()):
            pass
        else:
            bad.append(("css-property-not-allowed", decl))
    for m in re.finditer(r"url\s*\(([^)]*)\)?", out, re.I):
        # admitted = an argument the gauntlet lets through (digits, commas, white space, closed by ')')
        admitted = re.fullmatch(r"[\d,\s]*", m.group(1)) is not None and m.group(0).endswith(")")
        tight = m.group(0)[3] == "("
        if admitted and not tight and style_in is not None and RESPACED.search(style_in):
            # `url (…)` WITH white space, created by the removal of a url(...) group in between
            bad.append(("css-url-spaced-after-removal", m.group(0)))
        # the three forms repaired by COMMIT_B keep their class names: if one comes back it is reported under its old name
        elif admitted and tight and m.group(0)[:3] != "url":
            bad.append(("css-url-uppercase", m.group(0)))
        elif admitted and tight and not m.group(1).strip():
            bad.append(("css-url-empty", m.group(0)))
        elif admitted and tight and re.search(r"\s", m.group(1).strip()):
            bad.append(("css-url-with-spaces", m.group(0)))
        else:
            bad.append(("css-url-kept", m.group(0)))
    for m in re.finditer(r"\(([^)]*)", out):
        if not re.fullmatch(r"[\d,\s]*", m.group(1)):
            bad.append(("css-parenthesis-with-non-numeric-content", m.group(0)))
    return bad


def element_ok(ns, name, cfg):
    return (ns, name) in cfg["allowed_elements"] or (ns is None and (HTML_NS, name) in cfg["allowed_elements"])


def uri_problem(key, v, cfg):
    s = browser_scheme(v)
    if s is None:
        return None
    if s not in cfg["allowed_protocols"]:
        return "uri-scheme-kept"
    if s == "data":
        mime = browser_data_mime(v)
        if mime is not None and mime not in cfg["allowed_content_types"]:
            return "data-content-type-kept"
    return None


def oracle_stream(toks, out, cfg):
    """property failures of one real run: [(class-stem, detail dict)]"""
    bad = []
    kept_in = [t for t in toks if t["type"] != "Comment"]
    if any(t["type"] == "Comment" for t in out):
        bad.append(("comment-kept", {}))
    if len(kept_in) != len(out):
        bad.append(("token-count", {"in": len(kept_in), "out": len(out)}))
        return bad
    local_names = {nm for _, nm in cfg["svg_allow_local_href"]}
    for t, o in zip(kept_in, out):
        if t["type"] in ("StartTag", "EndTag", "EmptyTag"):
            if element_ok(t.get("namespace"), t["name"], cfg):
                if o["type"] != t["type"] or o.get("name") != t["name"] or o.get("namespace") != t.get("namespace"):
                    bad.append(("allowed-tag-altered", {"token": repr(t)[:300]}))
                    continue
                if o["type"] == "EndTag":
                    continue
                for key, v in o["data"].items():
                    if key not in cfg["allowed_attributes"]:
                        bad.append(("attribute-not-allowed-kept", {"attr": repr(key)}))
                    if key not in t["data"]:
                        bad.append(("attribute-invented", {"attr": repr(key)}))
                    if key in cfg["attr_val_is_uri"]:
                        p = uri_problem(key, v, cfg)
                        if p:
                            bad.append((p, {"attr": key, "value": v}))
                    if key == (None, "style"):
                        for cls, d in style_problems(v, cfg, t["data"].get(key)):
                            bad.append((cls, {"style_in": t["data"].get(key), "style_out": v, "detail": d}))
                if o["name"] in local_names and re.match(r"^\s*[^#\s]", o["data"].get((XLINK_NS, "href"), "")):
                    bad.append(("svg-nonlocal-href-kept", {"name": o["name"], "value": o["data"][(XLINK_NS, "href")]}))
            else:
                if o["type"] != "Characters" or not o["data"].startswith("<") or "name" in o:
                    bad.append(("disallowed-tag-not-inert-text", {"token": repr(t)[:300], "out": repr(o)[:300]}))
        elif o != t:
            bad.append(("non-tag-token-altered", {"token": repr(t)[:300]}))
    return bad


# ------------------------------------------------------------------------------------------------------------------
# generators
BAD_SCHEMES = ["javascript", "vbscript", "livescript", "mocha", "about", "file", "jar", "view-source", "x-y.z+1", "blob", "ws",
               "feed:javascript", "d", "datas", "dat"]
JUNK = ["\t", "\n", "\r", "\x00", " ", "\xa0", "\u2028", "`", "\ufffd", "\x0b", "\x0c", "\x1f", "\x7f", "\x85", "\u3000",
        "\u200b", "\u1680", "&", "&amp;", "&lt;", "&gt;", "\u212a", "\u0130", "é", "%0a", "\\", "\u03a3", "\ufeff", "/"]
DATA_CT = ["image/png", "image/jpeg", "image/gif", "image/webp", "image/bmp", "text/plain", "text/html", "image/svg+xml",
           "application/javascript", "TEXT/HTML", "IMAGE/PNG", "text/ht`ml", "image/p`ng", "image/p\xa0ng", "image/png ", " image/png",
           "image/p ng", "image/p\x00ng", "", "image", "image/", "/png", "text/plain\ufffd", "a.b-c/d.e-f", "image/png/x"]
DATA_PARAMS = ["", ";base64", ";charset=utf-8", ";charset=utf-8;base64", ";base64;charset=x", ";foo=bar", "; base64",
               ";charset=\"x\"", ";BASE64", ";charset=", ";charset=a;charset=b", ";base64;base64"]
DATA_BODY = ["x", "PHNjcmlwdD4=", "<script>alert(1)</script>", "a#b", "a?b,c", "", ",", "\n", "a\nb", "é"]
IP_PARTS = ["", "0", "1", "ffff", "FFFF", "12345", "g", "1.2.3.4", "256.1.1.1", "01.1.1.1", "1.2.3", "0.0.0.0", "::", "a", "١"]
HOSTS = ["[::1]", "[::1", "::1]", "[v1.x]", "[v1.]", "[vg.x]", "[v.x]", "[V1.x]", "]x[", "[1:2:3:4:5:6:7:8]:80", "[::ffff:1.2.3.4]",
         "[1.2.3.4]", "[fe80::1%eth0]", "[fe80::1%]", "[fe80::1%a%b]", "[g::1]", "a\u2100b", "x\uff0fy", "[::1]]", "[[::1]", "u@[::1]",
         "\uff03", "\u2048", "a\ufe55b", "e\u0301", "\u2100\u0338", "[::]", "[:::]", "[1::2::3]", "[1:2:3:4:5:6:7::]", "[::2:3:4:5:6:7:8]",
         "[1:2:3:4:5:6:7:8:9]", "[:1::2]", "[1::2:]", "[]", "[%x]", "[::1/]", "x", "", "a:b@c:1"]


def mixcase(rng, s):
    return "".join(c.upper() if rng.random() < 0.3 else c for c in s)


def obfuscate(rng, s, p=0.25):
    out = []
    for c in s:
        if rng.random() < p:
            out.append(rng.choice(JUNK))
        out.append(c)
    return "".join(out)


def gen_ipv6(rng):
    n = rng.choice([1, 2, 3, 3, 4, 5, 7, 8, 8, 9, 10])
    s = ":".join(rng.choice(IP_PARTS) for _ in range(n))
    if rng.random() < 0.2:
        s += rng.choice(["%eth0", "%", "%a%b", "/64"])
    return "[" + s + "]"


def gen_url(rng, protocols):
    r = rng.random()
    lead = "".join(rng.choice(JUNK[:12]) for _ in range(rng.choice([0, 0, 0, 1, 2])))
    if r < 0.30:
        sch = rng.choice(BAD_SCHEMES if rng.random() < 0.6 else sorted(protocols) or ["http"])
        sch = mixcase(rng, sch)
        if rng.random() < 0.6:
            sch = obfuscate(rng, sch)
        colon = rng.choice([":", ":", ":", " :", "\t:", ":\n", "&amp;:", "&#58;", "\ufffd:", "`:"])
        return lead + sch + colon + rng.choice(["alert(1)", "//e.com/", "x", "", "//" + rng.choice(HOSTS) + "/p", "?q#f"])
    if r < 0.55:
        sch = mixcase(rng, "data") if rng.random() < 0.7 else obfuscate(rng, mixcase(rng, "data"))
        ct = rng.choice(DATA_CT)
        if rng.random() < 0.15:
            ct = obfuscate(rng, ct, 0.15)
        return lead + sch + ":" + rng.choice(["", "", "", "//", " ", "/"]) + ct + rng.choice(DATA_PARAMS) + \
            rng.choice([",", ",", ",", "", ";", " ,"]) + rng.choice(DATA_BODY)
    if r < 0.75:
        host = rng.choice(HOSTS) if rng.random() < 0.5 else gen_ipv6(rng)
        return lead + rng.choice(["//", "http://", "HTTP://", "https://", "ftp://", "javascript://", "x//", "http:/", "///"]) + host + \
            rng.choice(["", "/", "/p?q#f", "?[", "#]", ":80/"])
    if r < 0.9:
        return lead + rng.choice(["/a/b", "a/b:c", "#frag", "?q=1:2", "../x", "a b", "1http://x", "-a:b", "+:", ".:", "a+b-c.d:e", ":x",
                                  "http", "http:", "a:", "A:", "é:", "\u212a:", "k\u212a:", "javascript&colon;x", "&lt;a:", "a&amp;b:c"])
    return "".join(rng.choice("aA:/[]%.v1f@#? \t\n&;`") for _ in range(rng.randint(0, 8)))


CSS_PROPS = ["color", "COLOR", "Color", "background-color", "width", "font-family", "behavior", "-moz-binding", "position", "background",
             "background-image", "border", "border-top", "BORDER", "margin", "padding-left", "margin-", "-border", "fill", "stroke-width",
             "FILL", "fill-rule", "list-style", "ｃolor", "colo\u212ar", "bac\u212aground", "x", "a-b", "ΑΣ", "İ", "ΑΣ-x", "_x", "1"]
CSS_VALUES = ["red", "RED", "#fff", "#FFF", "#ggg", "rgb(1,2,3)", "rgb(10%,2%,3%)", "rgb(1,2", "1px", "12.5em", "123px", "1.2.3px", "0", "",
              " ", "auto", "solid", "1px solid red", "1px  solid\tred", "none !important", "url(x)", "URL(x)", "url( x )", "url(1)", "URL(1)",
              "Url(1)", "url( 1 2 )", "url (1)", "url(\n1)", "url()", "url( )", "url(1,2)", "u\\rl(1)", "url(#a)", "url('x')", "url(\"x\")",
              "urlurl(1)(2)", "url url(x)\n(2)", "URLurl()(1,2)", "uurl(1)rl(2)", "url(url(1))", "url(1", "URL( 1", "url(1)(2)", "uRl(\n)",
              "expression(1)", "expression(alert(1))", "EXPRESSION(1)", "(1)", "( 1 , 2 )", "()", "(a)", "((1))", "'a b'", "\"a b\"", "'a;b'",
              "''", "'é'", "a-b", "a-", "-a", "a--b", "a-b-c", "/* c */", "/**/red", "re/**/d", "\\72 ed", "é", "а", "１２", "١px", "１px", "ｕｒｌ(1)",
              "x:y", "a,b", "100%", "50% 50%", ".5em", "5.em", "1 2 3 4", "1cm 2mm 3in", "1zz", "1px)", "1,", "thin", "transparent",
              "medium none", "!important", "javascript:x", "@import", "<", ">", "&", "a\nb", "a\x0bb", "a\u2028b", "a\xa0b", "a\x1cb"]
CSS_SEPS = [";", "; ", " ; ", ";\n", ";;", "", " ", ";\u2028"]
CSS_COLON = [":", ": ", " : ", ":\t", " :", "::", ""]


def gen_style(rng):
    parts = []
    for _ in range(rng.choice([1, 1, 2, 2, 3, 4])):
        parts.append(rng.choice(CSS_PROPS) + rng.choice(CSS_COLON[:5] if rng.random() < 0.9 else CSS_COLON) + rng.choice(CSS_VALUES))
        parts.append(rng.choice(CSS_SEPS[:4] if rng.random() < 0.85 else CSS_SEPS))
    s = "".join(parts)
    if rng.random() < 0.1:
        s = rng.choice([" ", "\n", ";", "x", "{", "}"]) + s
    return s


URI_ATTRS = [(None, "href"), (None, "src"), (None, "cite"), (None, "action"), (None, "longdesc"), (None, "poster"), (None, "background"),
             (None, "ping"), (XLINK_NS, "href"), (XML_NS, "base")]
REF_ATTRS = [(None, "fill"), (None, "stroke"), (None, "clip-path"), (None, "filter"), (None, "mask"), (None, "marker-end"), (None, "cursor")]
REF_VALUES = ["url(#a)", "url(http://e/x#a)", "url( http://e )", "URL(http://e)", "url(x) url(#y)", "url(&lt;x)", "red", "url(#a) url(b)",
              "url(\n#a)", "url ( x )", "url(x", "url()", "url(a)", "url(ab)", "&amp;lt;", "a&amp;b&gt;", "url(a))", "url((a)"]
LOCAL_HREFS = ["#a", " #a", "\n #a", "", " ", "\n", "x", " x", "\nx", "a#b", "#", " # ", "\xa0#a", "\x1f#a", "\u2028x", "\u200b#a", "\x00#a",
               "http://e/x#a", "&#35;a", "\t\r\n\x0b\x0c#a", "\u3000\u3000"]
LOCAL_ELEMS = ["use", "animate", "set", "filter", "feImage", "linearGradient", "radialGradient", "tref", "textpath", "cursor", "altGlyph",
               "pattern", "animateColor", "animateMotion", "animateTransform"]
OTHER_ATTRS = [(None, "id"), (None, "class"), (None, "title"), (None, "onclick"), (None, "onload"), (None, "data-x"), (None, "formaction"),
               (XML_NS, "lang"), (XML_NS, "space"), (XLINK_NS, "title"), (XLINK_NS, "actuate"), (gen.XMLNS_NS, "xlink"), (None, "xmlns"),
               (None, "viewBox"), (None, "d"), (None, "type"), (None, "name"), (None, "srcdoc"), ("urn:unknown", "a")]
FOREIGN = [(SVG_NS, n) for n in ["svg", "g", "a", "use", "image", "script", "style", "animate", "set", "linearGradient", "foreignObject",
                                 "path", "title", "desc", "filter", "feImage", "textpath", "tref", "cursor", "altGlyph", "pattern"]] + \
          [(MATHML_NS, n) for n in ["math", "mi", "mo", "mn", "annotation-xml", "mglyph", "maction", "mtext", "ms", "semantics"]] + \
          [(HTML_NS, n) for n in ["a", "img", "script", "style", "iframe", "object", "embed", "form", "input", "div", "p", "b", "video",
                                  "base", "meta", "link", "svg", "math", "blockquote", "q", "del", "body", "area"]] + \
          [(None, n) for n in ["a", "script", "b", "svg", "nosuch"]] + [("urn:unknown", "a")]


def enrich(rng, toks, protocols):
    """add obfuscated URL / style / namespaced attributes and foreign elements to a walked stream"""
    out = []
    for t in toks:
        t = wire.copy_tok(t)
        if t["type"] in ("StartTag", "EmptyTag"):
            if rng.random() < 0.25:
                ns, nm = rng.choice(FOREIGN)
                t["namespace"], t["name"] = ns, nm
            d = dict(t["data"])
            for _ in range(rng.choice([0, 1, 1, 2, 3])):
                r = rng.random()
                if r < 0.45:
                    d[rng.choice(URI_ATTRS)] = gen_url(rng, protocols)
                elif r < 0.65:
                    d[(None, "style")] = gen_style(rng)
                elif r < 0.8:
                    d[rng.choice(REF_ATTRS)] = rng.choice(REF_VALUES)
                elif r < 0.86:
                    d[(XLINK_NS, "href")] = rng.choice(LOCAL_HREFS)
                    if rng.random() < 0.6:   # an element of svg_allow_local_href, so that the local-reference rule decides
                        t["namespace"], t["name"] = rng.choice([SVG_NS, SVG_NS, SVG_NS, None, HTML_NS]), rng.choice(LOCAL_ELEMS)
                else:
                    d[rng.choice(OTHER_ATTRS)] = rng.choice(gen.ATTR_VALUES + ["&lt;&amp;&gt;", "<>&\"'"])
            t["data"] = d
            if rng.random() < 0.04:
                t["selfClosing"] = True
        elif t["type"] == "EndTag" and rng.random() < 0.2:
            ns, nm = rng.choice(FOREIGN)
            t["namespace"], t["name"] = ns, nm
            if rng.random() < 0.05:
                t["selfClosing"] = True
        out.append(t)
    return out


# several URI attributes on one tag, one of them unparseable (urlparse raises ValueError): every other one must still be checked
MULTI_URI_ATTRS = [' href="http://[/" cite="javascript:alert(1)" longdesc="javascript:alert(1)" src="javascript:alert(1)" action="javascript:alert(1)" poster="javascript:alert(1)" background="javascript:alert(1)"', ' href="h://]" cite="javascript:alert(1)" longdesc="javascript:alert(1)" src="javascript:alert(1)" action="javascript:alert(1)" poster="javascript:alert(1)" background="javascript:alert(1)"', ' href="javascript:alert(1)" cite="http://[/" longdesc="javascript:alert(1)" src="javascript:alert(1)" action="javascript:alert(1)" poster="javascript:alert(1)" background="javascript:alert(1)"', ' href="javascript:alert(1)" cite="h://]" longdesc="javascript:alert(1)" src="javascript:alert(1)" action="javascript:alert(1)" poster="javascript:alert(1)" background="javascript:alert(1)"', ' href="javascript:alert(1)" cite="javascript:alert(1)" longdesc="http://[/" src="javascript:alert(1)" action="javascript:alert(1)" poster="javascript:alert(1)" background="javascript:alert(1)"', ' href="javascript:alert(1)" cite="javascript:alert(1)" longdesc="h://]" src="javascript:alert(1)" action="javascript:alert(1)" poster="javascript:alert(1)" background="javascript:alert(1)"', ' href="javascript:alert(1)" cite="javascript:alert(1)" longdesc="javascript:alert(1)" src="http://[/" action="javascript:alert(1)" poster="javascript:alert(1)" background="javascript:alert(1)"', ' href="javascript:alert(1)" cite="javascript:alert(1)" longdesc="javascript:alert(1)" src="h://]" action="javascript:alert(1)" poster="javascript:alert(1)" background="javascript:alert(1)"', ' href="javascript:alert(1)" cite="javascript:alert(1)" longdesc="javascript:alert(1)" src="javascript:alert(1)" action="http://[/" poster="javascript:alert(1)" background="javascript:alert(1)"', ' href="javascript:alert(1)" cite="javascript:alert(1)" longdesc="javascript:alert(1)" src="javascript:alert(1)" action="h://]" poster="javascript:alert(1)" background="javascript:alert(1)"', ' href="javascript:alert(1)" cite="javascript:alert(1)" longdesc="javascript:alert(1)" src="javascript:alert(1)" action="javascript:alert(1)" poster="http://[/" background="javascript:alert(1)"', ' href="javascript:alert(1)" cite="javascript:alert(1)" longdesc="javascript:alert(1)" src="javascript:alert(1)" action="javascript:alert(1)" poster="h://]" background="javascript:alert(1)"', ' href="javascript:alert(1)" cite="javascript:alert(1)" longdesc="javascript:alert(1)" src="javascript:alert(1)" action="javascript:alert(1)" poster="javascript:alert(1)" background="http://[/"', ' href="javascript:alert(1)" cite="javascript:alert(1)" longdesc="javascript:alert(1)" src="javascript:alert(1)" action="javascript:alert(1)" poster="javascript:alert(1)" background="h://]"']

SOURCE_ATTRS = MULTI_URI_ATTRS + [' href="jav&#x09;ascript:alert(1)"', ' href="&#1;javascript:x"', ' src="java&NewLine;script:x"', ' href="javascript&colon;x"',
                ' href=" &#14; javascript:x"', ' href="data:text/html;base64,PHNjcmlwdD4="', ' src="data:image/png;base64,AAAA"',
                ' href="&#x6A;avascript:x"', ' href="feed:javascript:x"', ' href="JaVaScRiPt:x"', ' href="http://[::1]/"', ' href="//[::1"',
                ' style="color: red; background: url(javascript:x)"', ' style="width: expression(alert(1))"', ' style="color: URL(1)"',
                ' style="border: 1px solid red"', ' xlink:href="javascript:x"', ' xlink:href="#a"', ' xml:base="javascript:x"',
                ' fill="url(http://e/#x)"', ' action="vbscript:x"', ' href="java&amp;#9;script:x"', ' href="javas\x00cript:x"',
                ' poster=javascript:x', ' background="mocha:x"', ' href="&#xFFFD;javascript:x"', ' href="java\u2028script:x"']


REGRESSION_CSS = ["color: urlurl(1)(2)", "color: url url(x)\n(2)", "color: URLurl()(1,2)", "color: url (1)", "color: URL\n(1)", "color: URL(1)", "color: url( 1 2 )", "color: url( )", "color: Url(\n)", "color: uRL(1,2)", "background: URL( 1 )",
                  "color: url()", "color: url(1)", "color: url(1", "color: url(url(1))", "color: u\\rl(1)", "color: URL(x)"]
REGRESSION_SVG = ['<svg><use xlink:href="http://e/x#a"></use></svg>', '<svg><animate xlink:href=" x"></animate></svg>',
                  '<svg><set xlink:href="\nx#a"></set></svg>', '<svg><use xlink:href="#a"></use></svg>',
                  '<svg><use xlink:href=" #a"></use></svg>', '<svg><use xlink:href=""></use></svg>',
                  '<svg><a xlink:href="http://e/"></a></svg>']


def random_lists(rng):
    d = defaults()
    cfg = {}
    for n in LIST_NAMES:
        p = rng.choice([0.0, 0.3, 0.5, 0.7, 0.9, 1.0, 1.0])
        cfg[n] = frozenset(x for x in sorted(d[n], key=repr) if rng.random() < p)
    if rng.random() < 0.3:
        cfg["allowed_protocols"] = cfg["allowed_protocols"] | {"data"}
    if rng.random() < 0.5:                  # keep the attributes the generators use, so that the URI/CSS logic is exercised
        cfg["allowed_attributes"] = cfg["allowed_attributes"] | {(None, "href"), (None, "style"), (XLINK_NS, "href"), (None, "fill")}
        cfg["attr_val_is_uri"] = cfg["attr_val_is_uri"] | {(None, "href"), (XLINK_NS, "href")}
    return cfg


# ------------------------------------------------------------------------------------------------------------------
# regex correspondence
ALPHABETS = {"UriStrip": "a` \n\x7f\xa0\u2028", "SvgUrl": "url( #)x\n", "LocalHref": " #a\nx", "DataContentType": "a/;charset=b64,-.\n",
             "CssUrl": "uUrRlL( )x\n", "CssUrlGuard": "uUrRlL( )x\n", "Gauntlet1": "a-:;'\"(1, )é$", "Gauntlet2": "a-: ;x\n", "Decl": "a-: ;\né", "Keyword": "#afrgb(1%,).cm"}


# url(...)-shaped subjects for the remover (the exhaustive part over the alphabet is too short to contain a whole match):
# prefix, `url` in mixed case, white space, `(`, argument, closing, what follows
CSSURL_SHAPES = [a + u + w + "(" + arg + close + post
                 for a in ("", "x", "u", "url") for u in ("url", "URL", "uRl", "Url") for w in ("", " ", "\n")
                 for arg in ("", "1", " ", "x)", "(", "url(", "1 2") for close in (")", "", "))")
                 for post in ("", " ", "(2)", "x", "url(1)")]


def enc_m(m, base=0):
    if m is None:
        return "~"
    gs = list(m.groups()) + [None, None]
    return "%d %s %s %s" % (m.start() - base, wire.enc_str(m.group(0)), wire.enc_ostr(gs[0]), wire.enc_ostr(gs[1]))


def real_re(rx, op, s, repl="R"):
    if op == "search":
        return "ok " + enc_m(rx.search(s))
    if op == "match":
        return "ok " + enc_m(rx.match(s))
    if op == "sub":
        return "ok " + wire.enc_str(rx.sub(repl, s))
    out = []
    pos = 0
    for m in rx.finditer(s):
        out.append("%s %s" % (wire.enc_str(s[pos:m.start()]), enc_m(m, pos)))
        pos = m.end()
    return "ok " + wire.enc_list(out) + " " + wire.enc_str(s[pos:])


def regex_cases(ctx, extra):
    sys.path.insert(0, lean.VERIF + "/tools")
    import gen_sanitizer
    try:
        pats = gen_sanitizer.patterns()
    except Exception as e:          # the library's re calls are not the ones the model was written for
        ctx.fail("regex-calls-changed", "tools/gen_sanitizer.py cannot identify the sanitizer's regular expressions", {"error": str(e)[:400]})
        return [], []
    reqs, reals = [], []
    budget = ctx.scale(3000, 60000)
    for name, (pat, flags) in pats.items():
        rx = re.compile(pat, flags)
        alph = "".join(dict.fromkeys(ALPHABETS[name]))
        full = 1
        while len(alph) ** (full + 1) <= budget:
            full += 1
        strings = []
        for n in range(0, full + 1):
            strings += ["".join(t) for t in itertools.product(alph, repeat=n)]
        for n in (full + 1, full + 2, 9, 14):
            strings += ["".join(ctx.rng.choice(alph) for _ in range(n)) for _ in range(ctx.scale(600, 5000))]
        strings += extra.get(name, [])
        for s in strings:
            for op in ("search", "match", "findall", "sub"):
                reqs.append("re:%s %s %s%s" % (name, op, "52 " if op == "sub" else "", wire.enc_str(s)))
                reals.append(real_re(rx, op, s))
                ctx.case("re:*", reqs[-1], nontrivial=(reals[-1] not in ("ok ~", "ok 0 " + wire.enc_str(s))))
    return reqs, reals


# ------------------------------------------------------------------------------------------------------------------
def shrink_str(s, pred, limit=3000):
    """greedy deletion of substrings (long ones first) while pred holds"""
    n = 0
    changed = True
    while changed and n < limit:
        changed = False
        for size in range(max(len(s) // 2, 1), 0, -1):
            i = 0
            while i + size <= len(s) and n < limit:
                cand = s[:i] + s[i + size:]
                n += 1
                if pred(cand):
                    s = cand
                    changed = True
                else:
                    i += 1
    return s


def classify_css(style, cfg):
    """(class, shrunk style) of the first style problem of sanitize_css(style)"""
    F = S().Filter([], **(cfg or {}))
    c = cfg or defaults()

    def first(st):
        try:
            pr = style_problems(F.sanitize_css(st), c, st)
        except Exception as e:
            return "sanitize_css-raises:" + type(e).__name__
        return pr[0][0] if pr else None
    cls = first(style)
    if cls is None:
        return None, style
    small = shrink_str(style, lambda st: first(st) == cls)
    return cls, small


IGNORED_BY_SANITIZER = re.compile("[`\x00-\x20\x7f-\xa0\\s\ufffd]+")


def classify_uri(key, v, cfg):
    c = cfg or defaults()

    def kept_problem(val):
        tok = {"type": "StartTag", "name": "a", "namespace": HTML_NS, "data": {key: val}}
        cc = dict(c)
        cc["allowed_elements"] = frozenset([(HTML_NS, "a")])
        cc["allowed_attributes"] = frozenset([key])
        cc["attr_val_is_uri"] = frozenset([key])
        cc["svg_attr_val_allows_ref"] = frozenset()
        try:
            out = real_filter([tok], cc)
        except Exception as e:
            return "raises:" + type(e).__name__
        if key not in out[0]["data"]:
            return None
        return uri_problem(key, out[0]["data"][key], cc)
    stem = kept_problem(v)
    if stem is None:
        return None, v
    small = shrink_str(v, lambda x: kept_problem(x) == stem)
    if stem == "data-content-type-kept":
        mime = browser_data_mime(small)
        raw = small.split(":", 1)[1].split(",", 1)[0]
        # recorded cause of all three sub-classes: characters that the sanitizer deletes before it looks at the content type
        # but that a browser keeps.  It explains the failure only if WITHOUT those characters the browser reads an allowed
        # content type too (the sanitizer's verdict is right for the cleaned value); otherwise something else is wrong.
        # (checked on the ORIGINAL value as well: shrinking must not slide from another cause into the recorded one)
        def explained(val):
            cleaned = IGNORED_BY_SANITIZER.sub("", val)
            return cleaned != val and uri_problem(key, cleaned, c) is None
        if not (explained(small) and explained(v)):
            why = "other"
        elif "`" in raw:
            why = "backtick-ignored"
        elif mime == "text/plain":
            why = "browser-falls-back-to-text-plain"
        elif "%" in (mime or "") and "%" not in raw:
            why = "control-or-non-ascii-ignored"
        else:
            why = "other"
        return "data-content-type-kept:" + why, small
    return stem, small


BUDGET = {}


def report(ctx, stem, detail, toks, cfg, src):
    """turn an oracle hit into a failure with a specific class (after shrinking)"""
    cname = "default" if cfg is None else "custom"
    BUDGET.setdefault(stem, ctx.scale(60, 400))
    if BUDGET[stem] <= 0:                    # enough witnesses of this kind were shrunk and classified already
        ctx.count("oracle hits not shrunk (budget): " + stem)
        return
    BUDGET[stem] -= 1
    if stem in ("uri-scheme-kept", "data-content-type-kept"):
        cls, small = classify_uri(detail["attr"], detail["value"], cfg)
        if cls is None:                      # depends on the other lists: keep the unshrunk value
            cls, small = stem + ":context-dependent", detail["value"]
        ctx.fail(cls, "a URI-valued attribute is kept although a browser resolves its scheme / data: content type outside the allow-lists",
                 {"attr": repr(detail["attr"]), "value": detail["value"], "minimal_value": small, "lists": cname, "source": src,
                  "browser_scheme": browser_scheme(small), "allowed_protocols": sorted((cfg or defaults())["allowed_protocols"]),
                  "allowed_content_types": sorted((cfg or defaults())["allowed_content_types"])})
    elif stem.startswith("css-"):
        cls, small = classify_css(detail["style_in"], cfg)
        if cls is None:
            cls, small = stem, detail["style_in"]
        ctx.fail(cls, "sanitize_css keeps text outside the statement's CSS clause",
                 {"style": detail["style_in"], "minimal_style": small, "output": S().Filter([], **(cfg or {})).sanitize_css(small),
                  "lists": cname, "source": src})
    else:
        ctx.fail(stem, "sanitizer output violates the allow-list / inert-text clause", dict(detail, lists=cname, source=src,
                                                                                         tokens=repr(toks)[:1500]))


def classify_exception(e, toks, cfg):
    """specific class for an exception of the real filter: find one token that raises alone"""
    for t in toks:
        try:
            real_filter([t], cfg)
        except Exception as e2:
            if type(e2) is type(e):
                if isinstance(e, KeyError) and t["type"] in ("StartTag", "EmptyTag"):
                    c = cfg or defaults()
                    if element_ok(t.get("namespace"), t["name"], c):
                        for key, v in t["data"].items():
                            if key in c["attr_val_is_uri"] and key in c["allowed_attributes"] and \
                                    "data" not in c["allowed_protocols"]:
                                try:
                                    real_filter([dict(t, data={key: v})], cfg)
                                except KeyError:
                                    # fixed in /repo 1347e6e (if ... elif): no longer a known finding, so any
                                    # recurrence is reported as a VIOLATION under this precise class
                                    return "filter-raises-KeyError:data-url-when-data-not-in-allowed-protocols", \
                                        {"token": repr(dict(t, data={key: v}))[:400]}
                    else:
                        if any(k[0] is not None and k[0] not in PREFIXED for k in t["data"]):
                            return "filter-raises-KeyError:disallowed-tag-attribute-in-unknown-namespace", {"token": repr(t)[:400]}
                return "filter-raises-%s:other" % type(e).__name__, {"token": repr(t)[:400]}
    return "filter-raises-%s:stream" % type(e).__name__, {}


PREFIXED = set()


def one_stream(ctx, toks, cfg, reqs, reals, src):
    req = "san %s %s" % (enc_lists(cfg), enc_sc_toks(toks))
    c = cfg or defaults()
    try:
        out = real_filter(toks, cfg)
        real = "ok " + wire.enc_toks(out)
    except Exception as e:
        out = None
        real = wire.exc_tag(e)
        cls, det = classify_exception(e, toks, cfg)
        if cls.endswith("attribute-in-unknown-namespace"):
            ctx.count("synthetic: attribute namespace no parser produces -> KeyError in prefixes[ns] (not a finding)")
        else:
            ctx.fail(cls, "the sanitizer raises instead of sanitizing", dict(det, lists="default" if cfg is None else "custom",
                                                                          allowed_protocols=sorted(c["allowed_protocols"]), source=src))
    reqs.append(req)
    reals.append(real)
    nt = any(t["type"] in ("StartTag", "EmptyTag") and (t["data"] or not element_ok(t.get("namespace"), t["name"], c)) for t in toks)
    ctx.case("san", req, nontrivial=nt, sample=req if nt and len(req) < 500 else None)
    ctx.count(src + ("/default" if cfg is None else "/custom"))
    if out is not None:
        seen = set()
        for stem, det in oracle_stream(toks, out, c):
            if stem in seen:
                continue
            seen.add(stem)
            report(ctx, stem, det, toks, cfg, src)


def witness_case(ctx, w):
    global PREFIXED
    from html5lib.constants import prefixes
    PREFIXED = set(prefixes)
    cfg = None
    if w.get("lists"):
        cfg = dict(defaults())
        for k, v in w["lists"].items():
            cfg[k] = frozenset(tuple(x) if isinstance(x, list) else x for x in v)
    if "style" in w:
        cls, small = classify_css(w["style"], cfg)
        if cls:
            ctx.fail(cls, "sanitize_css keeps text outside the statement's CSS clause", {"style": w["style"], "minimal_style": small})
    elif "html" in w:
        toks = gen.walk_real(gen.parse_real(w["html"], tb="etree", fragment="div"), "etree")
        one_stream(ctx, toks, cfg, [], [], "witness")


def run(ctx):
    global PREFIXED
    sys.path.insert(0, lean.VERIF + "/tools")
    from html5lib.constants import prefixes
    PREFIXED = set(prefixes)
    rng = ctx.rng
    D = defaults()
    F = S().Filter([])
    BUDGET.clear()

    # ---- (1) regular expressions, pattern by pattern
    extra = {"DataContentType": [ct + p + "," + b for ct in DATA_CT[:8] for p in DATA_PARAMS for b in DATA_BODY[:4]],
             "Gauntlet1": [gen_style(rng) for _ in range(ctx.scale(300, 5000))],
             "Gauntlet2": [gen_style(rng) for _ in range(ctx.scale(300, 5000))],
             "Decl": [gen_style(rng) for _ in range(ctx.scale(300, 5000))],
             "CssUrl": [gen_style(rng) for _ in range(ctx.scale(300, 5000))] + CSS_VALUES + CSSURL_SHAPES,
             "CssUrlGuard": [gen_style(rng) for _ in range(ctx.scale(300, 5000))] + CSS_VALUES + CSSURL_SHAPES,
             "SvgUrl": REF_VALUES + CSS_VALUES, "Keyword": [k for v in CSS_VALUES for k in v.split()],
             "LocalHref": REF_VALUES + ["#a", " #a", "\n#a", " a", "", " ", "a\nb"], "UriStrip": JUNK}
    reqs, reals = regex_cases(ctx, extra)

    # ---- (2) library models: str.lower, str.split, urlsplit
    lows = ["".join(rng.choice(["A", "Σ", "σ", "a", ".", "\u0345", "\u00ad", " ", "1", "İ", "\u212a", "ǅ", "ß", "ẞ", "\U00010400",
                                "Ω", "ª", "\u02b0", "'", ":", "\u0301", "\u1e9e", "\ufb00", "Ⅷ"])
                    for _ in range(rng.randint(0, 6))) for _ in range(ctx.scale(1500, 40000))]
    step = ctx.scale(37, 1)
    lows += [chr(c) for c in range(0, 0x110000, step) if not 0xD800 <= c <= 0xDFFF]
    lows += ["A" + chr(c) + "Σ" + chr(c) + "b" for c in range(0, 0x30000, ctx.scale(211, 7)) if not 0xD800 <= c <= 0xDFFF]
    for s in lows:
        reqs.append("san:lower " + wire.enc_str(s))
        reals.append("ok " + wire.enc_str(s.lower()))
        ctx.case("san:lower", s, nontrivial=(s.lower() != s))
    for s in [chr(c) for c in range(0, 0x3100, ctx.scale(3, 1))] + ["a" + chr(c) + "b" + chr(c) for c in range(0, 0x3100, ctx.scale(5, 1))] + \
            CSS_VALUES:
        reqs.append("san:split " + wire.enc_str(s))
        reals.append("ok " + wire.enc_list(wire.enc_str(x) for x in s.split()))
        ctx.case("san:split", s, nontrivial=(s.split() != [s]))
    urls = [gen_url(rng, D["allowed_protocols"]) for _ in range(ctx.scale(4000, 120000))]
    urls += ["//" + gen_ipv6(rng) for _ in range(ctx.scale(2500, 80000))]
    urls += [p + h + q for h in HOSTS for p in ("//", "http://", "x:", "") for q in ("", "/", "?", "#")]
    urls += ["//" + chr(c) for c in range(0x80, 0x30000, ctx.scale(13, 1)) if not 0xD800 <= c <= 0xDFFF]
    for n in range(0, ctx.scale(5, 6)):
        for tup in itertools.product("a:/[]1%.v", repeat=n):
            urls.append("".join(tup))
    for u in urls:
        reqs.append("san:scheme " + wire.enc_str(u))
        try:
            sp = urllib.parse.urlsplit(u)
            scheme = urllib.parse.urlparse(u).scheme
            reals.append("ok %s %s %s" % (wire.enc_str(scheme), wire.enc_str(sp.netloc), wire.enc_str(sp.path)))
            nt = bool(scheme)
        except ValueError as e:
            reals.append(wire.exc_tag(e))
            nt = True
        ctx.case("san:scheme", u, nontrivial=nt)
    # the Lean statement's browser side (H5.Spec.Url) against the oracle's independent browser_scheme()
    for u in urls[:ctx.scale(12000, 200000)]:
        reqs.append("spec:browserScheme " + wire.enc_str(u))
        reals.append("ok " + wire.enc_ostr(browser_scheme(u)))
        ctx.case("spec:browserScheme", u, nontrivial=(browser_scheme(u) is not None))

    # ---- (3) the URI verdict and sanitize_css, default and custom lists
    configs = [None] + [random_lists(rng) for _ in range(ctx.scale(20, 60))]
    for i in range(ctx.scale(6000, 150000)):
        cfg = configs[i % len(configs)] if i % 3 == 0 else None
        c = cfg or D
        v = gen_url(rng, c["allowed_protocols"])
        tok = {"type": "StartTag", "name": "a", "namespace": HTML_NS, "data": {(None, "href"): v}}
        cc = dict(c, allowed_elements=frozenset([(HTML_NS, "a")]), allowed_attributes=frozenset([(None, "href")]),
                  attr_val_is_uri=frozenset([(None, "href")]), svg_attr_val_allows_ref=frozenset())
        reqs.append("san:uri %s %s" % (enc_lists(cc), wire.enc_str(v)))
        try:
            out = real_filter([tok], cc)
            kept = (None, "href") in out[0]["data"]
            reals.append("ok " + wire.enc_bool(kept))
            if kept:
                p = uri_problem((None, "href"), v, cc)
                if p:
                    report(ctx, p, {"attr": (None, "href"), "value": v}, [tok], cc, "G-url")
        except Exception as e:
            reals.append(wire.exc_tag(e))
            cls, det = classify_exception(e, [tok], cc)
            ctx.fail(cls, "the sanitizer raises instead of sanitizing", dict(det, allowed_protocols=sorted(cc["allowed_protocols"]), source="G-url"))
        ctx.case("san:uri", reqs[-1], nontrivial=(browser_scheme(v) is not None))
    n_reg = len(REGRESSION_CSS)
    for i in range(-n_reg, ctx.scale(5000, 120000)):
        cfg = configs[i % len(configs)] if i % 3 == 0 and i >= 0 else None
        # i < 0: regression of the fixed findings C09-css-url-uppercase/-spaces/-empty/-respaced (COMMIT_B); their classes are no longer
        # known findings, so a style of this list that keeps its url() again is a VIOLATION
        st = REGRESSION_CSS[i + n_reg] if i < 0 else gen_style(rng) if i % 10 else "".join(rng.choice("a-:;'\"(1, )éuUrRlL#%.\n!") for _ in range(rng.randint(0, 10)))
        reqs.append("san:css %s %s" % (enc_lists(cfg), wire.enc_str(st)))
        Fc = F if cfg is None else S().Filter([], **cfg)
        try:
            o = Fc.sanitize_css(st)
            reals.append("ok " + wire.enc_str(o))
            seen = set()
            for cls, d in style_problems(o, cfg or D, st):
                if cls not in seen:
                    seen.add(cls)
                    report(ctx, cls, {"style_in": st, "style_out": o, "detail": d}, [], cfg, "G-css")
        except Exception as e:
            o = None
            reals.append(wire.exc_tag(e))
            ctx.fail("sanitize_css-raises:" + type(e).__name__, "sanitize_css raises", {"style": st})
        ctx.case("san:css", reqs[-1], nontrivial=bool(o), sample=("css %r -> %r" % (st, o)) if o else None)

    # ---- (4) whole streams
    # regression of the fixed finding C09-keyerror-data-protocol (1347e6e): a data: URL when 'data' is not an allowed protocol
    for html in ('<a href="data:x">y</a>', '<img src="data:text/html,x">', '<a href="DATA:image/png,x">y</a>'):
        toks = gen.walk_real(gen.parse_real(html, tb="etree", fragment="div"), "etree")
        one_stream(ctx, toks, dict(D, allowed_protocols=frozenset(["http", "https"])), reqs, reals, "regression-1347e6e")
    # regression of the fixed finding C09-svg-local-href-dead (COMMIT_A): non-local xlink:href on the svg_allow_local_href
    # elements must be deleted (a kept one is reported by oracle_stream as svg-nonlocal-href-kept, no longer a known class)
    for html in REGRESSION_SVG:
        toks = gen.walk_real(gen.parse_real(html, tb="etree", fragment="div"), "etree")
        one_stream(ctx, toks, None, reqs, reals, "regression-COMMIT_A")
    for i in range(ctx.scale(2500, 60000)):
        cfg = configs[i % len(configs)] if i % 2 else None
        r = i % 5
        if r < 3:
            text = gen.soup(rng)
            if rng.random() < 0.5:          # obfuscated attributes in the SOURCE (decoded by the real parser)
                text = re.sub(r"<([a-zA-Z]+)", lambda m: m.group(0) + (rng.choice(SOURCE_ATTRS) if rng.random() < 0.4 else ""), text)
            kind = "dom" if i % 4 == 0 else "etree"
            try:
                toks = gen.walk_real(gen.parse_real(text, tb=kind, fragment=rng.choice([None, None, "div", "svg"])), kind)
            except Exception:
                continue
            toks = enrich(rng, toks, (cfg or D)["allowed_protocols"])
            src = "walk-" + kind
        else:
            toks = enrich(rng, gen.token_stream(rng, ["a", "b", "script", "svg", "use", "p", "img", "style", "nosuch"], maxlen=8),
                          (cfg or D)["allowed_protocols"])
            src = "G-tok"
        one_stream(ctx, toks, cfg, reqs, reals, src)

    if ctx.driver_ok:
        models = lean.run_driver(reqs)
        by_op = {}
        for q, r, m in zip(reqs, reals, models):
            op = q.split(" ", 1)[0]
            op = "re:*" if op.startswith("re:") else op
            by_op.setdefault(op, ([], [], []))
            for lst, x in zip(by_op[op], (q, r, m)):
                lst.append(x)
        for op, (q, r, m) in by_op.items():
            ctx.compare(op, q, r, m)


def replay(path):
    import json
    print(json.dumps(json.load(open(path)), indent=1)[:4000])
    return 0
