"""C05 — the result does not depend on how the input characters are delivered."""
import io
import itertools
import re

from h5 import gen, lean, trees, wire

ID = "C05"
PROPS_MODULE = "H5.Props.C05"
GEN_MODULES = ["Stream"]
CORRESPONDENCE_OPS = ["stream", "stream:drain", "bufstream"]
SOURCES = ["html5lib/_inputstream.py", "html5lib/_tokenizer.py", "html5lib/html5parser.py"]
LEVEL = "proof"
TRUSTED = ["hand model H5.Model.BufferedStream of BufferedStream (tell/seek/read/_readStream/_readFromBuffer), tied by op "
           "bufstream over raw streams with full and short reads (no general theorem is proved about it)",
           "hand model H5.Model.Stream (namespace H5.Model.InputStream) of HTMLUnicodeInputStream "
           "(readChunk/char/charsUntil/unget/position), tied by ops stream / stream:drain on the real class",
           "the underlying text stream is abstracted to the list of strings its read() calls return; for str/StringIO "
           "sources and for codecs.StreamReader over a byte stream this list is the text cut at multiples of the chunk "
           "size (StreamReader.read(n) loops until n characters are decoded) - checked by the correspondence with "
           "_defaultChunkSize 1..8 and by the oracle on bytes/BytesIO/non-seekable deliveries",
           "Python re: '[class]+' / '[^class]+'.match(s, pos) = longest run at pos; findall of a one-character class = "
           "number of characters in the class (class extracted exactly: H5.Gen.Stream.invalidUnicode)",
           "CPython UCS4 build with lone surrogates (characterErrorsUCS4); the UCS2 branch is not modelled",
           "the tokenizer/tree builder above the stream are exercised by the oracle only (real code), not modelled here"]
RULE = ("regressions: witnesses of the repaired findings (must pass); stream: ALL segmentations of ALL strings of length <= 4 (quick) / 5 (thorough) over {a, CR, LF, U+D800, U+DC00, "
        "U+0001} x (drain script + seeded random call scripts over char/unget/position/charsUntil) on a short-read "
        "source object; exhaustive call scripts of length <= 3/4 on short strings; StringIO with _defaultChunkSize "
        "1..8; random segmentations of longer soup.  Oracle: html5lib parse of the same text as str / StringIO / "
        "short-read text stream / bytes / BytesIO / non-seekable byte stream x chunk sizes {1,2,3,7,10240} x encodings "
        "(certain by override or BOM), tree (direct traversal) and parser.errors compared with the str baseline; "
        "non-trivial = text contains CR, an astral or invalid character, or is longer than the chunk size; distinct by "
        "(text, delivery)")

ALPHA = ["a", "\r", "\n", "\ud800", "\udc00", "\x01"]
DEFAULT_CHUNK = 10240


# ------------------------------------------------------------------------------------------------------------------
# sources
class ShortReadText:
    """text file-like object: read(n) returns the next prepared segment whatever n is (n == 0: '')"""

    def __init__(self, segs):
        self.segs = list(segs)

    def read(self, n=-1):
        if n == 0:
            return ""
        return self.segs.pop(0) if self.segs else ""


class SizedReadText:
    """text file-like object returning short reads: at most `n` and at most the next size of the cycle"""

    def __init__(self, text, sizes):
        self.text = text
        self.pos = 0
        self.sizes = itertools.cycle(sizes)

    def read(self, n=-1):
        if n == 0:
            return ""
        k = next(self.sizes)
        if n is not None and n > 0:
            k = min(k, n)
        out = self.text[self.pos:self.pos + k]
        self.pos += len(out)
        return out


class NonSeekableBytes:
    """byte source with only read(): html5lib wraps it in BufferedStream; optional short reads"""

    def __init__(self, data, sizes=None):
        self.data = data
        self.pos = 0
        self.sizes = itertools.cycle(sizes) if sizes else None

    def read(self, n=-1):
        if n is None or n < 0:
            n = len(self.data) - self.pos
        if self.sizes is not None and n > 0:
            n = min(n, next(self.sizes))
        out = self.data[self.pos:self.pos + n]
        self.pos += len(out)
        return out


def segmentations(s):
    if not s:
        yield []
        return
    for k in range(1, len(s) + 1):
        for rest in segmentations(s[k:]):
            yield [s[:k]] + rest


def cut(text, n):
    return [text[i:i + n] for i in range(0, len(text), n)]


# ------------------------------------------------------------------------------------------------------------------
# correspondence: call scripts on the real class
def enc_script(script):
    return wire.enc_list(("t %s %s" % (wire.enc_str("".join(c[1])), wire.enc_bool(c[2])) if c[0] == "t" else c[0])
                         for c in script)


def run_script(stream, script):
    out = []
    stack = []
    try:
        for call in script:
            if call[0] == "c":
                c = stream.char()
                stack.append(c)
                out.append("c " + ("~" if c is None else wire.enc_str(c)))
            elif call[0] == "u":
                stream.unget(stack.pop() if stack else None)
                out.append("u")
            elif call[0] == "p":
                out.append("p %d %d" % stream.position())
            else:
                out.append("t " + wire.enc_str(stream.charsUntil(call[1], call[2])))
    except re.error:
        return "err ValueError"
    except Exception as e:
        return wire.exc_tag(e)
    b = stream._bufferedCharacter
    return "ok %s | %s %d %d %s %d %d %d" % (
        wire.enc_list(out), wire.enc_str(stream.chunk), stream.chunkSize, stream.chunkOffset,
        "~" if b is None else wire.enc_str(b), stream.prevNumLines, stream.prevNumCols, len(stream.errors))


def real_short(segs, script):
    from html5lib._inputstream import HTMLUnicodeInputStream
    return run_script(HTMLUnicodeInputStream(ShortReadText(segs)), script)


def real_stringio(text, chunk, script):
    from html5lib._inputstream import HTMLUnicodeInputStream

    class S(HTMLUnicodeInputStream):
        _defaultChunkSize = chunk
    return run_script(S(io.StringIO(text)), script)


def real_drain(segs):
    from html5lib._inputstream import HTMLUnicodeInputStream
    st = HTMLUnicodeInputStream(ShortReadText(segs))
    out = []
    try:
        while True:
            c = st.char()
            if c is None:
                break
            out.append(c)
    except Exception as e:
        return wire.exc_tag(e)
    return "ok %s %d" % (wire.enc_str("".join(out)), len(st.errors))


SETS = [("a",), ("\r",), ("\n",), ("<", "&"), ("a", "\n"), ("\x01", "a"), ("\x00",), (">",)]


def random_script(rng, maxlen=10):
    script = []
    for _ in range(rng.randint(1, maxlen)):
        r = rng.random()
        if r < 0.45:
            script.append(("c",))
        elif r < 0.6:
            script.append(("u",))
        elif r < 0.8:
            script.append(("p",))
        else:
            script.append(("t", rng.choice(SETS), rng.random() < 0.4))
    return script


def seg_request(segs, script):
    return "stream %s %s" % (wire.enc_list(wire.enc_str(x) for x in segs), enc_script(script))


def correspondence(ctx):
    reqs, reals = [], []

    def add(segs, script, real, src):
        rq = seg_request(segs, script)
        reqs.append(rq)
        reals.append(real)
        text = "".join(segs)
        nt = len(segs) > 1 or "\r" in text or any(0xD800 <= ord(c) <= 0xDFFF for c in text)
        ctx.case("stream", rq, nontrivial=nt, sample=rq if nt and len(rq) < 160 else None)
        ctx.count(src)

    # (1) all segmentations of all short strings: drain-with-positions + random scripts
    L = ctx.scale(4, 5)
    for n in range(0, L + 1):
        for tup in itertools.product(ALPHA, repeat=n):
            s = "".join(tup)
            for segs in segmentations(s):
                drain = [("c",), ("p",)] * (n + 1) + [("c",)]
                add(segs, drain, real_short(segs, drain), "exh-drain")
                for _ in range(1 if n >= 4 else 2):
                    sc = random_script(ctx.rng)
                    add(segs, sc, real_short(segs, sc), "exh-random-script")
                rq = "stream:drain " + wire.enc_list(wire.enc_str(x) for x in segs)
                reqs.append(rq)
                reals.append(real_drain(segs))
                ctx.case("stream:drain", rq, nontrivial=len(segs) > 1)
    # (2) exhaustive call scripts on short strings
    calls = [("c",), ("u",), ("p",), ("t", ("a",), False), ("t", ("\n",), True)]
    SL = ctx.scale(3, 4)
    scripts = [list(t) for k in range(1, SL + 1) for t in itertools.product(calls, repeat=k)]
    for s in ["", "a", "\r", "a\r", "\r\n", "a\n", "\ra", "a\r\n", "\r\na", "\n\ra", "aa\n"]:
        for segs in segmentations(s):
            for sc in scripts:
                pre = [("c",)] * ctx.rng.randint(0, 2)
                add(segs, pre + sc, real_short(segs, pre + sc), "exh-scripts")
    # (3) real StringIO, _defaultChunkSize 1..8: the source list is the text cut at multiples of the chunk size
    for _ in range(ctx.scale(300, 4000)):
        n = ctx.rng.randint(0, 14)
        text = "".join(ctx.rng.choice(ALPHA + ["b", "<", "\U0001F600"]) for _ in range(n))
        chunk = ctx.rng.randint(1, 8)
        sc = random_script(ctx.rng, 14)
        add(cut(text, chunk), sc, real_stringio(text, chunk, sc), "stringio-chunk")
    # (4) random segmentations of longer soup
    for _ in range(ctx.scale(300, 4000)):
        text = rich_text(ctx.rng, 6)[:60]
        segs = []
        i = 0
        while i < len(text):
            k = ctx.rng.choice([1, 1, 2, 3, 5, 8])
            segs.append(text[i:i + k])
            i += k
        sc = random_script(ctx.rng, 25)
        add(segs, sc, real_short(segs, sc), "soup-random-seg")
    # (5) BufferedStream: scripts of read / seek / tell over raw streams with full and short reads
    for _ in range(ctx.scale(2500, 40000)):
        n = ctx.rng.randint(0, 12)
        data = bytes(ctx.rng.randint(97, 122) for _ in range(n))
        caps = [ctx.rng.randint(1, 5) for _ in range(ctx.rng.choice([0, 0, 3, 8]))]
        script = []
        for _ in range(ctx.rng.randint(1, 8)):
            r = ctx.rng.random()
            if r < 0.55:
                script.append(("r", ctx.rng.choice([0, 1, 2, 3, 4, 4, 7, 1024])))
            elif r < 0.85:
                script.append(("s", ctx.rng.choice([0, 0, 1, 2, 3, 4, ctx.rng.randint(0, n + 2)])))
            else:
                script.append(("t",))
        rq = "bufstream %s %s %s" % (wire.enc_bytes(data), wire.enc_list(str(c) for c in caps),
                                     wire.enc_list(" ".join(str(x) for x in c) for c in script))
        reqs.append(rq)
        reals.append(real_bufstream(data, caps, script, ctx))
        ctx.case("bufstream", rq, nontrivial=any(c[0] == "s" for c in script))
        ctx.count("bufstream")
    if ctx.driver_ok:
        ctx.compare("stream", reqs, reals, lean.run_driver(reqs))


class CappedRaw:
    """raw byte stream whose successive read(n) calls return at most the next cap (no caps left: full reads)"""

    def __init__(self, data, caps):
        self.data = data
        self.pos = 0
        self.caps = list(caps)

    def read(self, n):
        if n == 0:
            return b""
        k = n
        if self.caps:
            k = min(n, self.caps[0])
        self.caps = self.caps[1:]
        out = self.data[self.pos:self.pos + k]
        self.pos += len(out)
        return out


def real_bufstream(data, caps, script, ctx=None):
    """run the script on the real class; oracle (replay): every read returns the bytes of the underlying data at
    the current offset, and tell() is that offset"""
    from html5lib._inputstream import BufferedStream
    b = BufferedStream(CappedRaw(data, caps))
    out = []
    cur = 0
    try:
        for c in script:
            if c[0] == "r":
                r = b.read(c[1])
                out.append("r " + wire.enc_bytes(r))
                if ctx is not None and r != data[cur:cur + len(r)]:
                    ctx.fail("bufferedstream-replay-differs", "BufferedStream.read returned bytes that are not the "
                             "underlying data at the current offset", {"data": repr(data), "caps": caps, "script": script})
                cur += len(r)
            elif c[0] == "s":
                b.seek(c[1])
                out.append("s")
                cur = c[1]
            else:
                t = b.tell()
                out.append("t %d" % t)
                if ctx is not None and t != cur:
                    ctx.fail("bufferedstream-tell-differs", "BufferedStream.tell() is not the current offset",
                             {"data": repr(data), "caps": caps, "script": script, "tell": t, "expected": cur})
    except Exception as e:
        return wire.exc_tag(e)
    return "ok %s | %s %d %d" % (wire.enc_list(out), wire.enc_list(wire.enc_bytes(x) for x in b.buffer),
                                 b.position[0], b.position[1])


# ------------------------------------------------------------------------------------------------------------------
# oracle on the real parser
RICH = ["\r", "\r\n", "\n", "\r\r", "a\rb", "\U0001F600", "\U00010000", "\x00", "\x01", "\x7f", "﷐", "￿",
        "\U0001FFFE", "\x0c", "\x0b", "\u0085", "é", "<!-", "<!--", "<!-x", "<!d", "<!DOC", "&a", "&am", "&#", "&#x", "</",
        "<![CDATA[", "<![C", "]]>", "-->", "--!>", "<a \r\nb='\r'>", "<p\r>", "'", "\"", "=", "<", ">", " "]


def rich_text(rng, parts=5):
    out = []
    for _ in range(rng.randint(1, parts)):
        r = rng.random()
        if r < 0.45:
            out.append(gen.soup(rng, maxparts=3))
        else:
            out.append(rng.choice(RICH))
    return "".join(out)


def read_tree(doc, tb):
    if tb == "dom":
        return trees.merge_text(trees.from_dom(doc))
    return trees.from_etree(doc)


def parse_with(src, tb="etree", chunk=None, **kw):
    """run the real parser; returns (tree, errors) - errors as [(code, (line, col))]"""
    import html5lib
    from html5lib import _inputstream as I
    builder = html5lib.getTreeBuilder("etree", fullTree=True) if tb == "etree" else html5lib.getTreeBuilder(tb)
    p = html5lib.HTMLParser(tree=builder)
    old = I.HTMLUnicodeInputStream._defaultChunkSize
    if chunk is not None:
        I.HTMLUnicodeInputStream._defaultChunkSize = chunk      # class attribute, as the upstream tests do
    try:
        doc = p.parse(src, **kw)
    finally:
        I.HTMLUnicodeInputStream._defaultChunkSize = old
    return read_tree(doc, tb), [(e[1], tuple(e[0])) for e in p.errors]


def encode(text, label):
    """bytes of `text` in the encoding webencodings selects for `label`, or None when not exactly representable"""
    import webencodings
    ci = webencodings.lookup(label).codec_info
    try:
        b = ci.encode(text)[0]
    except (UnicodeEncodeError, UnicodeError):
        return None
    if ci.decode(b, "replace")[0] != text:
        return None
    return b


BOMS = {"utf-16le": b"\xff\xfe", "utf-16be": b"\xfe\xff", "utf-8": b"\xef\xbb\xbf"}


def source_of(text, d):
    """build the source object (and parse kwargs) of delivery `d`; None when the text cannot be delivered that way"""
    k = d["kind"]
    if k == "str":
        return text, {}
    if k == "StringIO":
        return io.StringIO(text), {}
    if k == "short-text":
        return SizedReadText(text, d["sizes"]), {}
    # byte deliveries
    if text.startswith("﻿"):
        return None
    enc = d["enc"]
    b = encode(text, enc)
    if b is None:
        return None
    kw = {}
    if d.get("bom"):
        b = BOMS[enc] + b
    elif d.get("via") == "transport":
        kw["transport_encoding"] = enc
    else:
        kw["override_encoding"] = enc
    if k == "bytes":
        return b, kw
    if k == "BytesIO":
        return io.BytesIO(b), kw
    if k == "nonseekable":
        return NonSeekableBytes(b, d.get("sizes")), kw
    raise ValueError(k)


def deliver(text, d, tb="etree"):
    s = source_of(text, d)
    if s is None:
        return None
    src, kw = s
    return parse_with(src, tb=tb, chunk=d.get("chunk"), **kw)


def text_segments(text, d):
    """the strings the successive dataStream.read(chunk) calls return for this delivery.  Text deliveries: by
    construction.  Byte deliveries: asked from the real stream object (codecs.StreamReader fills up to `chunk`
    characters; the C multibyte readers - shift_jis, gbk ... - return what one underlying read decodes)."""
    chunk = d.get("chunk") or DEFAULT_CHUNK
    if d["kind"] == "short-text":
        src = SizedReadText(text, d["sizes"])
        segs = []
        while True:
            x = src.read(chunk)
            if not x:
                return segs
            segs.append(x)
    if d["kind"] in ("str", "StringIO"):
        return cut(text, chunk)
    from html5lib._inputstream import HTMLBinaryInputStream
    so = source_of(text, d)
    if so is None:
        return cut(text, chunk)
    try:
        st = HTMLBinaryInputStream(so[0], **so[1])
        segs = []
        while True:
            x = st.dataStream.read(chunk)
            if not x:
                return segs
            segs.append(x)
    except Exception:
        return cut(text, chunk)


def has_lone_cr_read(text, d):
    segs = text_segments(text, d)
    buffered = False
    for a, b in zip(segs, segs[1:] + [""]):
        data_len = len(a) + (1 if buffered else 0)
        if a == "\r" and not buffered and b.startswith("\n"):
            return True
        buffered = data_len > 1 and (a[-1] == "\r" or 0xD800 <= ord(a[-1]) <= 0xDBFF)
    return False


def count_unget_at_start(text, d, tb):
    """observe (without changing behaviour) how often unget() prepends a character at chunkOffset 0"""
    from html5lib import _inputstream as I
    orig = I.HTMLUnicodeInputStream.unget
    events = []

    def spy(self, char):
        if char is not None and self.chunkOffset == 0:
            events.append(char)
        return orig(self, char)
    I.HTMLUnicodeInputStream.unget = spy
    try:
        deliver(text, d, tb)
    except Exception:
        pass
    finally:
        I.HTMLUnicodeInputStream.unget = orig
    return len(events)


def differs(text, d, tb):
    """None when the delivery agrees with the str baseline (or is not applicable), else (base, got)"""
    try:
        base = parse_with(text, tb=tb)
    except Exception:
        return None                       # exceptions of the parser itself belong to C03
    try:
        got = deliver(text, d, tb)
    except Exception as e:
        return (base, ("EXC", type(e).__name__, str(e)[:200]))
    if got is None or got == base:
        return None
    return (base, got)


def shrink(text, d, tb, budget=160):
    """greedy deletion of blocks / characters while the delivery still disagrees with the baseline"""
    n = 0
    size = max(len(text) // 2, 1)
    while size >= 1 and n < budget:
        i = 0
        changed = False
        while i < len(text) and n < budget:
            cand = text[:i] + text[i + size:]
            n += 1
            if cand != text and differs(cand, d, tb) is not None:
                text = cand
                changed = True
            else:
                i += size
        if not changed or size == 1:
            size //= 2
    return text


def first_probe(text, d):
    """(bytes, what detectBOM's single rawStream.read(4) returns) for a byte delivery"""
    b = encode(text, d["enc"])
    if d.get("bom"):
        b = BOMS[d["enc"]] + b
    n = 4
    if d["kind"] == "nonseekable" and d.get("sizes"):
        n = min(4, d["sizes"][0])
    return b, b[:n]


def stream_chars(text, d):
    """all characters the real input stream delivers for this delivery (None when it cannot be built / raises)"""
    from html5lib import _inputstream as I
    so = source_of(text, d)
    if so is None:
        return None
    old = I.HTMLUnicodeInputStream._defaultChunkSize
    if d.get("chunk") is not None:
        I.HTMLUnicodeInputStream._defaultChunkSize = d["chunk"]
    try:
        st = I.HTMLInputStream(so[0], **so[1])
        out = []
        while True:
            c = st.char()
            if c is None:
                return "".join(out)
            out.append(c)
    except Exception:
        return None
    finally:
        I.HTMLUnicodeInputStream._defaultChunkSize = old


def sniffed_encoding(text, d):
    """the encoding the real HTMLBinaryInputStream settles on for this byte delivery (None when it raises)"""
    from html5lib._inputstream import HTMLBinaryInputStream
    so = source_of(text, d)
    try:
        return HTMLBinaryInputStream(so[0], **so[1]).charEncoding[0].name
    except Exception:
        return None


def classify(text, d, tb, base, got):
    if d["kind"] in ("bytes", "BytesIO", "nonseekable"):
        b, probe = first_probe(text, d)
        bom = BOMS[d["enc"]] if d.get("bom") else b""
        if bom and len(bom) == 2 and probe == bom and got[0] == "EXC" and got[1] == "AssertionError" \
                and d["kind"] == "nonseekable":
            # a probe that is just a UTF-16 BOM: the seek past it must not leave the buffered bytes
            return "nonseekable:seek-past-buffer-after-2-byte-bom-probe"
        if bom and sniffed_encoding(text, d) != d["enc"]:
            # the BOM did not decide the encoding: why?
            if len(probe) < len(bom):
                # detectBOM assumes rawStream.read(4) returns 4 bytes when available
                return "short-byte-read:bom-not-detected"
            if d["enc"] == "utf-16le" and probe == b"\xff\xfe\x00\x00":
                return "bom-utf16le-then-nul-taken-as-utf32le"
            return "bom-not-honoured:%s" % d["enc"]
    if got[0] == "EXC":
        return "delivery-raises:%s:%s" % (d["kind"], got[1])
    chars = stream_chars(text, d)
    if chars is not None and chars != stream_chars(text, {"kind": "str"}):
        # the character level already differs: the stream itself delivers other characters
        if "\r\n" in text and has_lone_cr_read(text, d):
            return "lone-cr-read-then-lf"
        return "stream-characters-differ:%s" % d["kind"]
    if base[0] != got[0]:
        return "tree-differs:%s" % d["kind"]
    eb, eg = base[1], got[1]
    nb = [e for e in eb if e[0] != "invalid-codepoint"]
    ng = [e for e in eg if e[0] != "invalid-codepoint"]
    if nb == ng:
        if sorted(e[0] for e in eb) == sorted(e[0] for e in eg):
            return "error-position-depends-on-chunking:invalid-codepoint"
        return "error-count-differs:invalid-codepoint"
    if [e[0] for e in nb] != [e[0] for e in ng]:
        return "error-list-differs:%s" % d["kind"]
    if count_unget_at_start(text, d, tb) > count_unget_at_start(text, {"kind": "str"}, tb):
        return "position-after-unget-at-chunk-start"
    code = next(a[0] for a, b in zip(nb, ng) if a != b)
    return "error-position-differs:%s" % code


def deliveries(rng, text, thorough):
    ds = []
    for c in (1, 2, 3, 7):
        ds.append({"kind": "str", "chunk": c})
    for c in (1, 2, 3, 7, DEFAULT_CHUNK):
        ds.append({"kind": "StringIO", "chunk": c})
    for sizes in ([1], [2], [3], [1, 2, 3], [rng.randint(1, 9) for _ in range(5)]):
        ds.append({"kind": "short-text", "sizes": sizes})
    ds.append({"kind": "short-text", "sizes": [1, 3], "chunk": 2})
    encs = [("utf-8", False), ("utf-8", True), ("windows-1252", False), ("utf-16le", True), ("utf-16be", True),
            ("shift_jis", False), ("gbk", False)]
    for enc, bom in encs:
        kinds = ["bytes", "BytesIO", "nonseekable"]
        for k in kinds:
            dd = {"kind": k, "enc": enc, "bom": bom}
            if k == "nonseekable":
                dd["sizes"] = rng.choice([None, [1], [2, 3], [5, 1, 7]])
            ds.append(dd)
        ds.append({"kind": rng.choice(kinds), "enc": enc, "bom": bom, "chunk": rng.choice([1, 2, 3, 7])})
    if not thorough:
        # orthogonal sample: all text deliveries + a third of the byte deliveries
        text_ds = [x for x in ds if x["kind"] in ("str", "StringIO", "short-text")]
        byte_ds = [x for x in ds if x not in text_ds]
        ds = text_ds + rng.sample(byte_ds, len(byte_ds) // 3)
    return ds


def oracle_one(ctx, text, d, tb="etree", src="soup"):
    res = differs(text, d, tb)
    key = "%r|%r|%s" % (text[:400], sorted(d.items()), tb)
    nt = ("\r" in text or any(ord(c) > 0xFFFF or ord(c) < 9 for c in text) or len(text) > (d.get("chunk") or DEFAULT_CHUNK))
    ctx.case("oracle", key, nontrivial=nt,
             sample={"text": text[:60], "delivery": d} if nt and len(text) < 60 else None)
    ctx.count("oracle:" + d["kind"])
    if res is None:
        return
    small = shrink(text, d, tb) if len(text) <= 400 else text
    r2 = differs(small, d, tb) or res
    if differs(small, d, tb) is None:
        small = text
    cls = classify(small, d, tb, *r2)
    ctx.fail(cls, "parse result depends on the delivery of the same characters",
             {"text": small, "delivery": d, "treebuilder": tb, "baseline_errors": repr(r2[0][1])[:600],
              "delivery_errors": repr(r2[1][1] if r2[1][0] != "EXC" else r2[1])[:600],
              "tree_equal": r2[1][0] != "EXC" and r2[0][0] == r2[1][0], "source": src})


def oracle(ctx):
    thorough = ctx.tier == "thorough"
    texts = []
    for _ in range(ctx.scale(90, 2500)):
        texts.append((gen.soup(ctx.rng), "soup"))
    for _ in range(ctx.scale(140, 4000)):
        texts.append((rich_text(ctx.rng), "rich"))
    fixed = ["<!DO", "a\r\nb", "\r\n", "a\rb\r\rc", "<p>\r\n<!-x>\r\n</q>", "x\x01y</z>", "<!-\r\n-x", "\U0001F600\r\n\U00010000",
             "<a\r\n\r\nb=c>", "&am\r\n", "<![CDATA[\r\n]]>", "\r", "\n\r", "𐀀", "<!--\r\n--!>", "</\r\n>",
             # a lone-CR read followed by a read that ENDS in CR, the LF arriving after that (and longer CR runs)
             "x\r\r\ny", "<pre>x\r\r\ny</pre>", "a\r\r\r\nb", "\r\r\n", "<p>one\r\r\ntwo</b>", "a\rbc\r\nd", "\r\r\r", "<!--\r\r\n-->x</y>"]
    texts += [(t, "fixed") for t in fixed]
    # long texts: real chunk boundaries at the default chunk size
    for i in range(ctx.scale(3, 30)):
        unit = rich_text(ctx.rng, 8) + "<p>text " + "x" * ctx.rng.randint(0, 40) + "\r\n"
        reps = DEFAULT_CHUNK // max(len(unit), 1) + 2
        pad = "y" * ctx.rng.randint(0, 7)
        texts.append((pad + unit * reps + rich_text(ctx.rng, 3), "long"))
    for text, src in texts:
        ds = deliveries(ctx.rng, text, thorough)
        if src == "long":
            ds = [d for d in ds if (d.get("chunk") or DEFAULT_CHUNK) >= 7 and d.get("sizes") in (None, [5, 1, 7])]
            ds = ds[:8] if not thorough else ds
        for d in ds:
            oracle_one(ctx, text, d, "etree", src)
        if thorough or ctx.rng.random() < 0.15:
            for d in ctx.rng.sample(ds, min(4, len(ds))):
                oracle_one(ctx, text, d, "dom", src)


MULTIBYTE = ("big5", "euc-jp", "euc-kr", "gb18030", "gbk", "iso-2022-jp", "shift_jis")
UNICODE_ENCS = ("utf-8", "utf-16le", "utf-16be")
# decoded as latin-1 through webencodings' table-less StreamReader: recorded under C06 (decode:*), not repeated here
NOT_HERE = ("replacement", "x-user-defined")
_REPERTOIRE = {}


def repertoire(name):
    """(ordinary, special) characters of encoding `name` as webencodings implements it: every character that
    round-trips through webencodings' codec; `special` are those Python's own codec registry would NOT handle the same
    way under the canonical name (webencodings deliberately maps shift_jis -> cp932, big5 -> big5hkscs, euc-kr ->
    cp949, and knows names the registry does not) - the characters that tell the intended codec from a look-alike"""
    if name in _REPERTOIRE:
        return _REPERTOIRE[name]
    import codecs
    import webencodings
    ci = webencodings.lookup(name).codec_info
    try:
        py = codecs.lookup(name)
    except LookupError:
        py = None
    if name in UNICODE_ENCS:
        cands = [chr(c) for c in list(range(0x80, 0x3000, 37)) + list(range(0x3000, 0xD800, 211)) +
                 list(range(0xE000, 0xFFFE, 97)) + [0x10000, 0x1F600, 0x2FA1D, 0x10FFFD]]
    elif name in MULTIBYTE:
        cands = [chr(c) for c in range(0x80, 0x10000) if not 0xD800 <= c <= 0xDFFF]
    else:
        cands = []
        for b in range(0x80, 0x100):
            try:
                ch = ci.decode(bytes([b]))[0]
            except UnicodeError:
                continue
            if len(ch) == 1:
                cands.append(ch)
    ordinary, special = [], []
    for ch in cands:
        try:
            b = ci.encode(ch)[0]
            if ci.decode(b)[0] != ch:
                continue
        except UnicodeError:
            continue
        same = False
        if py is not None:
            try:
                same = py.encode(ch)[0] == b and py.decode(b)[0] == ch
            except UnicodeError:
                same = False
        (ordinary if same else special).append(ch)
    _REPERTOIRE[name] = (ordinary, special)
    return _REPERTOIRE[name]


def oracle_encodings(ctx):
    """every encoding of the Encoding standard's table (all canonical names webencodings knows), with text that
    exercises the codec webencodings intends, delivered as bytes / BytesIO / non-seekable stream under a certain
    encoding (override_encoding or transport_encoding), compared with the str parse (tree + errors)"""
    from webencodings.labels import LABELS
    thorough = ctx.tier == "thorough"
    for name in sorted(set(LABELS.values())):
        if name in NOT_HERE:
            continue
        ordinary, special = repertoire(name)
        ctx.count("encodings:special-chars", len(special))
        if thorough:
            chars = special + ordinary
            pieces = ["".join(chars[i:i + 1500]) for i in range(0, len(chars), 1500)]
        else:
            sp = special if len(special) <= 60 else ctx.rng.sample(special, 60)
            od = ordinary if len(ordinary) <= 60 else ctx.rng.sample(ordinary, 60)
            pieces = ["".join(sp + od)]
        for i, piece in enumerate(pieces):
            text = "<p title='%s'>%s</p>" % (piece[:20].replace("'", ""), piece)
            for j, kind in enumerate(("bytes", "BytesIO", "nonseekable")):
                d = {"kind": kind, "enc": name, "bom": False, "via": "transport" if (i + j) % 2 else "override"}
                if kind == "nonseekable":
                    d["sizes"] = [[5, 1, 7], None, [1000]][i % 3]
                if source_of(text, d) is None:
                    ctx.fail("harness:encoding-sample-not-deliverable", "the sample text of an encoding does not round-trip "
                             "through webencodings' own codec", {"text": text[:200], "delivery": d})
                    continue
                oracle_one(ctx, text, d, "etree", "encodings")


def witness_case(ctx, w):
    oracle_one(ctx, w["text"], w["delivery"], w.get("treebuilder", "etree"), "witness")


# witnesses of repaired defects (known_findings.json "fixed"): replayed on every run and EXPECTED TO PASS; if one of
# the defects returns, its class is no longer a known finding and the check reports a VIOLATION with this input
REGRESSIONS = [
    {
        "text": "<p>a\r\nb",
        "delivery": {
            "kind": "str",
            "chunk": 1
        },
        "treebuilder": "etree"
    },
    {
        "text": "",
        "delivery": {
            "kind": "nonseekable",
            "enc": "utf-16le",
            "bom": True,
            "sizes": None
        },
        "treebuilder": "etree"
    },
    {
        "text": "\u0000",
        "delivery": {
            "kind": "bytes",
            "enc": "utf-16le",
            "bom": True
        },
        "treebuilder": "etree"
    },
    {
        "text": "a\r\nb\r\n\r\n",
        "delivery": {
            "kind": "short-text",
            "sizes": [
                1
            ]
        }
    },
    {
        "text": "\r\n",
        "delivery": {
            "kind": "StringIO",
            "chunk": 1
        }
    },
    {
        "text": "x>\r\n",
        "delivery": {
            "kind": "nonseekable",
            "enc": "shift_jis",
            "bom": False,
            "sizes": [
                1
            ]
        }
    },
    {
        "text": "",
        "delivery": {
            "kind": "nonseekable",
            "enc": "utf-16be",
            "bom": True,
            "sizes": [
                2,
                3
            ]
        }
    },
    {
        "text": "\u0000a",
        "delivery": {
            "kind": "BytesIO",
            "enc": "utf-16le",
            "bom": True
        }
    }
]


def regressions(ctx):
    for w in REGRESSIONS:
        oracle_one(ctx, w["text"], w["delivery"], w.get("treebuilder", "etree"), "regression")


def run(ctx):
    regressions(ctx)
    correspondence(ctx)
    oracle(ctx)
    oracle_encodings(ctx)


def replay(path):
    import json
    print(json.dumps(json.load(open(path)), indent=1)[:4000])
    return 0
