"""C12 — parser objects are reusable: no state leaks between parses."""
import io
import subprocess
import sys
import threading

from h5 import gen, lean, trees

ID = "C12"
PROPS_MODULE = "H5.Props.C12"
GEN_MODULES = ["Lifecycle"]
CORRESPONDENCE_OPS = []
SOURCES = ["html5lib/html5parser.py", "html5lib/treebuilders/base.py", "html5lib/_inputstream.py", "html5lib/_tokenizer.py",
           "html5lib/_utils.py", "html5lib/_trie/py.py", "html5lib/serializer.py"]
LEVEL = "proof"
TRUSTED = ["abstract lifecycle model (object = attribute valuation; call = reset + arbitrary body that may stop anywhere); "
           "the attribute lists (written outside __init__ / definitely assigned by _parse+reset / phase-object attributes) "
           "are extracted from the AST by tools/gen_lifecycle.py — attributes written through other aliases, setattr or "
           "C-level state are not seen",
           "main-loop bodies write only the extracted attributes and read write-before-read attributes only after writing them "
           "(hypotheses of the theorem; the history oracle below checks the conclusion on the real objects)",
           "atomicity of CPython dict operations for the process-wide memo tables (thread clause)"]
RULE = ("histories of length <= 3 over a document pool on ONE HTMLParser (etree and dom builders): parse / parseFragment calls, "
        "each possibly aborted — strict-mode ParseError, or an exception raised by the input source at the k-th read for "
        "every k (exhaustive over reads) — followed by a final call whose tree+errors+documentEncoding must equal those of a "
        "fresh parser; same for reused HTMLSerializer and walkers; thorough: fresh subprocess; 4 threads of independent "
        "parsers; non-trivial = history contains an aborted call")

POOL = ["<!DOCTYPE html><table>LEAK\x00", "<table> <tr><td>ok</table>", "<pre>\n", "\n\nx<textarea>\n", "<table><tr><td>a<b>c</table>d",
        "<select><option>x", "<svg><title>t</title><![CDATA[x]]>", "<frameset><frame>", "<p><a href=x>y<table><a>z", "<title>a",
        "<script>x", "<b><i><p>x</b>y", "<form><input><form>", "<table><caption>x", "<html lang=a><body class=b><html id=c>", ""]


class Boom(Exception):
    pass


class FailingSource(object):
    """text source raising at the k-th read"""
    def __init__(self, text, k, size=3):
        self.s = io.StringIO(text)
        self.k = k
        self.n = 0
        self.size = size

    def read(self, n=-1):
        self.n += 1
        if self.n > self.k:
            raise Boom()
        return self.s.read(self.size)


def result_of(p, call):
    kind, text, extra = call
    try:
        if kind == "parse":
            t = p.parse(text, **extra)
        else:
            t = p.parseFragment(text, **extra)
    except Exception as e:
        return ("exc", type(e).__name__)
    name = type(t).__module__
    abstract = trees.merge_text(trees.from_dom(t) if "minidom" in name else trees.from_etree(t))
    return (abstract, [(c, pos) for pos, c, _ in p.errors], p.documentEncoding)


CONFIG_CODE = r'''
def config_result(config, docs):
    import html5lib
    import xml.etree.ElementTree as ET
    from xml.dom import minidom
    tb, kw, nshtml = config
    kw = dict(kw)
    if "implementation" in kw:
        kw["implementation"] = {"ET": ET, "minidom": minidom}[kw["implementation"]]
    def dump(e):
        if not isinstance(e.tag, str):
            return ("special", e.text, e.tail)
        return (e.tag, sorted(e.attrib.items()), e.text, e.tail, [dump(c) for c in e])
    out = []
    for d in docs:
        p = html5lib.HTMLParser(tree=html5lib.getTreeBuilder(tb, **kw), namespaceHTMLElements=nshtml)
        t = p.parse(d)
        shape = t.toxml() if tb == "dom" else dump(t)
        wkw = {"implementation": kw["implementation"]} if "implementation" in kw and tb == "etree" else {}
        toks = [(k.get("type"), k.get("name"), k.get("namespace"), sorted((k.get("data") or {}).items(), key=repr) if isinstance(k.get("data"), dict) else k.get("data"))
                for k in html5lib.getTreeWalker(tb, **wkw)(t)]
        out.append((shape, toks))
    return out
'''


def fresh(tb):
    import html5lib
    return html5lib.HTMLParser(tree=html5lib.getTreeBuilder(tb))


def run_history(ctx, tb, history, final, src):
    import html5lib
    from html5lib.html5parser import ParseError
    p = fresh(tb)
    aborted = False
    for (mode, call) in history:
        kind, text, extra = call
        try:
            if mode == "strict":
                p.strict = True
                try:
                    (p.parse if kind == "parse" else p.parseFragment)(text, **extra)
                except ParseError:
                    aborted = True
                finally:
                    p.strict = False
            elif mode[0] == "boom":
                try:
                    (p.parse if kind == "parse" else p.parseFragment)(FailingSource(text, mode[1]), **extra)
                except Boom:
                    aborted = True
            else:
                (p.parse if kind == "parse" else p.parseFragment)(text, **extra)
        except Exception:
            pass
    got = result_of(p, final)
    exp = result_of(fresh(tb), final)
    ctx.case("history", repr((tb, history, final)), nontrivial=aborted,
             sample={"builder": tb, "history": [(m if isinstance(m, str) else "boom@%d" % m[1], c[1][:30]) for m, c in history],
                     "final": final[1][:30]} if aborted else None)
    ctx.count(src)
    if got != exp:
        ctx.fail("reused-parser-differs", "a reused HTMLParser returns something else than a fresh one",
                 {"builder": tb, "history": repr(history)[:600], "final": repr(final), "got": repr(got)[:400], "expected": repr(exp)[:400]})


def run(ctx):
    import html5lib
    rng = ctx.rng
    calls = [("parse", t, {}) for t in POOL] + [("fragment", t, {"container": c}) for t in POOL[:8] for c in ("div", "table", "select")]
    # exhaustive aborts at every read of the aborted call, for every (aborted doc, final doc) pair of a small pool
    small = [c for c in calls if c[0] == "parse"][:8]
    for tb in ("etree", "dom"):
        for a in small:
            reads = len(a[1]) // 3 + 2
            for k in range(0, reads + 1):
                for f in (small if ctx.tier == "thorough" else small[:4]):
                    run_history(ctx, tb, [(("boom", k), a)], f, "abort-at-read")
            for f in small:
                run_history(ctx, tb, [("strict", a)], f, "abort-strict")
    for i in range(ctx.scale(600, 15000)):
        tb = "dom" if i % 3 == 0 else "etree"
        h = []
        for _ in range(rng.randint(1, 3)):
            c = rng.choice(calls) if rng.random() < 0.6 else ("parse", gen.soup(rng, maxparts=8), {})
            r = rng.random()
            mode = "strict" if r < 0.35 else (("boom", rng.randint(0, 6)) if r < 0.7 else "ok")
            h.append((mode, c))
        run_history(ctx, tb, h, rng.choice(calls) if rng.random() < 0.7 else ("parse", gen.soup(rng, maxparts=8), {}), "random-history")
    # restarts from inside nested handlers: a late <meta charset> (after the 1024-byte prescan window) met in every kind of
    # context makes changeEncoding raise the internal re-parse exception while the handlers above it are half-way through
    pad = b"<!--" + b"x" * 1100 + b"-->"
    ctxs = [b"<table>%s<tr><td>\xb1", b"<table><tr>%s<td>a", b"<table><tr><td>%s", b"<select>%s<option>o", b"<table><caption>%s",
            b"<p><b>%s", b"<svg><foreignObject>%s", b"<table><tbody>%s", b"<frameset>%s", b"<head>%s", b"<table><td><select>%s",
            b"<template>%s", b"<table><colgroup>%s", b"<ruby><rt>%s", b"<ul><li><table>%s"]
    metas = [b"<meta charset=koi8-r>", b"<meta http-equiv=content-type content='text/html; charset=iso-8859-2'>", b"<meta charset=utf-8>"]
    finals = [c for c in calls if c[0] == "parse"][:10] + [("parse", "<p>intro<table><tr><td>cell</table>", {})]
    k = 0
    for tb in ("etree", "dom"):
        for c_ in ctxs:
            for m_ in metas:
                k += 1
                doc = b"<!DOCTYPE html>" + pad + (c_ % m_)
                run_history(ctx, tb, [("ok", ("parse", doc, {}))], finals[k % len(finals)], "restart-inside-handler")
                run_history(ctx, tb, [("ok", ("parse", doc, {}))], ("parse", doc, {}), "restart-inside-handler")
    # entity-reference heavy histories (the named-reference trie is a process-wide object)
    letters = "lgnaco"
    def entdoc():
        out = []
        for _ in range(rng.randint(1, 5)):
            out.append("&" + "".join(rng.choice(letters + "tzrq;=1") for _ in range(rng.randint(1, 4))) + rng.choice(["", ";", " ", "=3", "<b>"]))
        return "<p title='" + "".join(out[:2]) + "'>" + "x".join(out)
    for i in range(ctx.scale(1500, 30000)):
        run_history(ctx, "etree", [("ok", ("parse", entdoc(), {})) for _ in range(rng.randint(1, 2))], ("parse", entdoc(), {}), "entity-history")
    # serializer / walker reuse
    from html5lib.serializer import HTMLSerializer
    s = HTMLSerializer(omit_optional_tags=False)
    w = html5lib.getTreeWalker("etree")
    for i in range(ctx.scale(150, 3000)):
        t1 = html5lib.parse(gen.soup(rng) + "<!-- a--b --><plaintext>")
        t2 = html5lib.parse(gen.soup(rng))
        try:
            s.render(w(t1), rng.choice([None, "ascii", "utf-8"]))
        except Exception:
            pass
        a = (s.render(w(t2)), list(s.errors))
        s2 = HTMLSerializer(omit_optional_tags=False)
        b = (s2.render(w(t2)), list(s2.errors))
        ctx.case("serializer-reuse", str(i), nontrivial=True)
        if a != b:
            ctx.fail("reused-serializer-differs", "a reused HTMLSerializer returns something else than a fresh one", {"i": i})
    # aborted serializer calls of every kind, stopped inside every kind of context, then reuse
    from html5lib.serializer import SerializeError
    inner = ["<script>a</b</script>", "<style>x</y</style>", "<xmp>1</2</xmp>", "<noscript><p \u00e9=1>n</noscript>", "<iframe>a</b</iframe>",
             "<textarea>t</textarea>", "<title>t</title>", "<pre>\nx</pre>", "<svg><title>s</title></svg>", "<!--a--b-->", "<p \u00e9=1>x"]
    follow = ["<p>1 &lt; 2 &amp;&amp; 3 &gt; 2</p>", "<div a=b>x &amp; y<b>c</b></div>", "<script>z</script><p>&lt;</p>"]
    for i, bad in enumerate(inner):
        for mode in ("strict", "ascii", "abandon"):
            for fo in follow:
                sr = HTMLSerializer(omit_optional_tags=False)
                t1 = html5lib.parse("<p>before</p>" + bad + "<p>after</p>")
                try:
                    if mode == "strict":
                        sr.strict = True
                        try:
                            sr.render(w(t1))
                        finally:
                            sr.strict = False
                    elif mode == "ascii":
                        sr.render(w(t1), "ascii")
                    else:
                        g = sr.serialize(w(t1))
                        for k_, _chunk in enumerate(g):
                            if k_ >= 6 + i % 5:
                                break
                        del g
                except (SerializeError, UnicodeError):
                    pass
                t2 = html5lib.parse(fo)
                a = (sr.render(w(t2)), list(sr.errors))
                s3 = HTMLSerializer(omit_optional_tags=False)
                b = (s3.render(w(t2)), list(s3.errors))
                ctx.case("serializer-reuse-after-abort", "%s|%s|%s" % (bad, mode, fo), nontrivial=True)
                if a != b:
                    ctx.fail("reused-serializer-differs", "a reused HTMLSerializer returns something else than a fresh one",
                             {"aborted_document": bad, "abort": mode, "next": fo, "reused": repr(a)[:300], "fresh": repr(b)[:300]})
    # threads: independent parser objects in parallel
    docs = [gen.soup(rng, maxparts=20) * 3 for _ in range(8)]
    expect = [result_of(fresh("etree"), ("parse", d, {})) for d in docs]
    out = [None] * len(docs)

    def worker(j):
        for _ in range(ctx.scale(15, 150)):
            out[j] = result_of(fresh("etree"), ("parse", docs[j], {}))
    ts = [threading.Thread(target=worker, args=(j,)) for j in range(len(docs))]
    [t.start() for t in ts]
    [t.join() for t in ts]
    ctx.case("threads", "8x", nontrivial=True)
    if out != expect:
        ctx.fail("threads-differ", "parses running concurrently in threads differ from sequential ones", {})
    # deterministic single-preemption schedules: thread A is stopped at its k-th entry into code of a module that defines
    # a process-wide shared class (dispatch tables, entity trie: H5.Gen.Lifecycle.sharedClasses), thread B then runs a
    # complete parse with its own parser, A resumes.  Every k up to a bound is explored: each is one legal interleaving.
    import html5lib._utils as U
    shared_files = {U.__file__.rstrip("c")}
    try:
        import html5lib._trie.py as TP
        import html5lib._trie._base as TB_
        shared_files |= {TP.__file__.rstrip("c"), TB_.__file__.rstrip("c")}
    except Exception:
        pass
    pairs = [("<!DOCTYPE html><p>alpha<marker>inside-A</marker>tail-A<b>x</b>&amp;&notit;<table><tr><td>c</table>",
              "<!DOCTYPE html><p>beta<other>inside-B</other>tail-B<i>y</i>&lt;&copy<select><option>o</select>"),
             (gen.soup(rng, maxparts=10), gen.soup(rng, maxparts=10))]

    def preempt(da, db, k):
        res = {}
        go_b, done_b = threading.Event(), threading.Event()
        count = [0]

        def tracer(frame, event, arg):
            if event == "call" and frame.f_code.co_filename in shared_files:
                count[0] += 1
                if count[0] == k:
                    go_b.set()
                    done_b.wait(20)
            return None

        def run_a():
            sys.settrace(tracer)
            try:
                res["a"] = result_of(fresh("etree"), ("parse", da, {}))
            finally:
                sys.settrace(None)
                go_b.set()

        def run_b():
            go_b.wait(20)
            try:
                res["b"] = result_of(fresh("etree"), ("parse", db, {}))
            finally:
                done_b.set()
        ta, tb = threading.Thread(target=run_a, daemon=True), threading.Thread(target=run_b, daemon=True)
        ta.start(); tb.start(); ta.join(60); tb.join(60)
        if ta.is_alive() or tb.is_alive():
            return "did-not-finish", "did-not-finish", count[0]
        return res.get("a"), res.get("b"), count[0]
    for da, db in pairs:
        ea, eb = result_of(fresh("etree"), ("parse", da, {})), result_of(fresh("etree"), ("parse", db, {}))
        k, total = 1, None
        limit = ctx.scale(120, 1500)
        while k <= limit:
            ra, rb, total = preempt(da, db, k)
            ctx.case("preemption-schedule", "%s|%s|%d" % (da, db, k), nontrivial=True)
            ctx.count("preemption-schedules")
            if ra != ea or rb != eb:
                ctx.fail("interleaving-changes-result", "a parse preempted by a parse of an independent parser object in another thread "
                         "returns something else than alone", {"docA": da, "docB": db, "preempt_at_shared_call": k,
                                                              "A": repr(ra)[:300], "A_alone": repr(ea)[:300],
                                                              "B": repr(rb)[:300], "B_alone": repr(eb)[:300]})
                break
            if total is not None and k >= total:
                break
            k += 1
    # construction-time configurations: the factories behind getTreeBuilder / getTreeWalker cache the modules they build in
    # process-wide dicts.  Every configuration is asked for in this (warm) process after the others have been used, in several
    # orders, and must give what a fresh interpreter that only ever asks for that one configuration gives.
    cfg_docs = ["<!DOCTYPE html><!--c--><title>t</title><p a=1>hello<svg><a xlink:href=x>y</a></svg><br>", "<!--x--><table><tr><td>c</table>z"]
    configs = [(tb, kw, nshtml) for tb, kw in (("etree", {}), ("etree", {"fullTree": False}), ("etree", {"fullTree": True}),
                                               ("etree", {"implementation": "ET"}), ("etree", {"implementation": "ET", "fullTree": True}),
                                               ("etree", {"implementation": "ET", "fullTree": False}),
                                               ("dom", {}), ("dom", {"implementation": "minidom"}))
               for nshtml in (True, False)]
    want = {}
    for ci, c in enumerate(configs):
        sub = subprocess.run([sys.executable, "-c", CONFIG_CODE + "\nimport sys\nsys.stdout.write(repr(config_result(%r, %r)))" % (c, cfg_docs)],
                             capture_output=True, env={"PYTHONPATH": gen.REPO, "PYTHONWARNINGS": "ignore"})
        want[ci] = sub.stdout.decode("utf-8", "replace") if sub.returncode == 0 else "subprocess failed: " + sub.stderr.decode("utf-8", "replace")[-300:]
    g = {}
    exec(CONFIG_CODE, g)
    orders = [list(range(len(configs))), list(reversed(range(len(configs))))]
    for _ in range(ctx.scale(2, 10)):
        o = list(range(len(configs)))
        rng.shuffle(o)
        orders.append(o)
    reported = set()
    for o in orders:
        for ci in o + o:        # second pass: every configuration again, now after all the others
            got = repr(g["config_result"](configs[ci], cfg_docs))
            ctx.case("configuration-history", "%r|%d" % (o, ci), nontrivial=True)
            ctx.count("configuration-history")
            if got != want[ci] and ci not in reported:
                reported.add(ci)
                ctx.fail("configuration-cache-differs", "an object built for one configuration after other configurations were used in "
                         "the same interpreter returns something else than in a fresh interpreter",
                         {"configuration": repr(configs[ci]), "requested_before": repr([configs[j] for j in o[:o.index(ci)]])[:600],
                          "documents": cfg_docs, "warm": got[:500], "fresh_interpreter": want[ci][:500]})
    if ctx.tier == "thorough":
        # fresh interpreter for the process-wide caches
        code = ("import sys,html5lib;from xml.etree import ElementTree as E;"
                "d=sys.stdin.buffer.read().decode('utf-8','surrogatepass');"
                "sys.stdout.buffer.write(E.tostring(html5lib.parse(d),encoding='unicode').encode('utf-8','surrogatepass'))")
        import xml.etree.ElementTree as E
        for d in docs[:4] + POOL:
            sub = subprocess.run([sys.executable, "-c", code], input=d.encode("utf-8", "surrogatepass"), capture_output=True,
                                 env={"PYTHONPATH": gen.REPO})
            here = E.tostring(html5lib.parse(d), encoding="unicode")
            ctx.case("fresh-subprocess", d, nontrivial=True)
            if sub.returncode != 0 or sub.stdout.decode("utf-8", "surrogatepass") != here:
                ctx.fail("warm-process-differs", "a warm process parses differently from a fresh interpreter",
                         {"input": d, "stderr": sub.stderr.decode("utf-8", "replace")[-300:]})


def replay(path):
    import json
    print(json.dumps(json.load(open(path)), indent=1)[:3000])
    return 0
