"""C14 — every character reference decodes to the standard's replacement."""
import html.entities
import re
from collections import deque

from h5 import lean, wire

ID = "C14"
PROPS_MODULE = "H5.Props.C14"
EXTRA_PROPS_MODULES = ["H5.Props.C14b"]
GEN_MODULES = ["Entities", "StdEntities", "Constants"]
CORRESPONDENCE_OPS = ["numcharref", "tok(named references)"]
SOURCES = ["html5lib/_tokenizer.py", "html5lib/constants.py", "html5lib/_trie/py.py", "html5lib/_trie/_base.py",
           "html5lib/serializer.py"]
LEVEL = "proof"
TRUSTED = ["CPython html.entities.html5 as the independent copy of the standard's named table",
           "Spec.numChar (numeric rule) written from the standard from memory",
           "hand model H5.Model.CharRef of consumeEntity/consumeNumberEntity; the bisect trie of _trie/py.py is "
           "modelled abstractly (any-key-has-prefix / longest-key-prefix) and tied by correspondence only",
           "serializer reverse map and encode error handler: checked on the real code only (oracle), no theorem yet"]
RULE = ("named: every entity name x {as is} x following character class {EOF,=,digit,letter,;,space,<,&,other} x "
        "{data, RCDATA, double/single/unquoted attribute} (10% stratified in quick, all in thorough) on the real tokenizer, "
        "the Lean model and an independent longest-match reference over html.entities.html5; numeric: boundary and table "
        "values + random (quick) / all 0..0x110100 (thorough) x dec/hex/x/X x ;/none + overflow lengths to 5000 digits; "
        "reverse: every entry of the serializer's reverse map encoded then decoded; non-trivial = a reference that decodes")

FOLLOW = ["", "=", "1", "a", ";", " ", "<", "&", "]", "Z"]
STD = html.entities.html5
MAXLEN = max(len(k) for k in STD)
C1 = {0x80: 0x20AC, 0x82: 0x201A, 0x83: 0x0192, 0x84: 0x201E, 0x85: 0x2026, 0x86: 0x2020, 0x87: 0x2021, 0x88: 0x02C6,
      0x89: 0x2030, 0x8A: 0x0160, 0x8B: 0x2039, 0x8C: 0x0152, 0x8E: 0x017D, 0x91: 0x2018, 0x92: 0x2019, 0x93: 0x201C,
      0x94: 0x201D, 0x95: 0x2022, 0x96: 0x2013, 0x97: 0x2014, 0x98: 0x02DC, 0x99: 0x2122, 0x9A: 0x0161, 0x9B: 0x203A,
      0x9C: 0x0153, 0x9E: 0x017E, 0x9F: 0x0178}


def spec_num(n):
    if n == 0 or n > 0x10FFFF or 0xD800 <= n <= 0xDFFF:
        return "�"
    return chr(C1.get(n, n))


def spec_named(s, in_attr):
    """the standard's named character reference rule on the text after '&' -> decoded text of '&'+s"""
    for ln in range(min(len(s), MAXLEN), 0, -1):
        if s[:ln] in STD:
            name = s[:ln]
            if in_attr and not name.endswith(";") and len(s) > ln and (s[ln] == "=" or (s[ln].isascii() and s[ln].isalnum())):
                return "&" + s
            return STD[name] + s[ln:]
    return "&" + s


def real_tokens(text, state="dataState"):
    from html5lib import _tokenizer
    tok = _tokenizer.HTMLTokenizer(text)
    tok.state = getattr(tok, state)
    return list(tok)


def chars_of(tokens):
    return "".join(t["data"] for t in tokens if t["type"] in (1, 2))   # Characters, SpaceCharacters


def attr_value(tokens):
    for t in tokens:
        if t["type"] == 3:
            return dict(t["data"]).get("v")
    return None


def run(ctx):
    from html5lib import _tokenizer
    from html5lib.constants import entities
    import sys
    sys.path.insert(0, lean.VERIF + "/tools")
    import tok_corr
    if STD != dict(entities):
        diff = sorted(set(STD.items()) ^ set(entities.items()))[:3]
        ctx.fail("table-differs:%s" % diff[0][0], "constants.entities differs from the standard's table", {"diff": repr(diff)})
    # ---- named references in all five contexts
    names = sorted(entities)
    stride = 1 if ctx.tier == "thorough" else 10
    off = ctx.rng.randrange(stride)
    reqs, reals = [], []
    extremes = set(sorted(names, key=len)[-12:] + sorted(names, key=len)[:12] + [names[0], names[-1]])
    for i, name in enumerate(names):
        full = i % stride == off or name in ("amp", "amp;", "not", "notin;", "lt", "gt;", "AMP") or name in extremes
        # every name of the table is looked up at least once per run (with nothing after it); the stratified sample and the
        # table's extremes (longest, shortest, first, last) get every follower
        for fol in (FOLLOW if full else [""]):
            s = name + fol
            # a follower may extend the name into another key; the reference below handles that too
            cases = [("data", "&" + s, "dataState"), ("rcdata", "&" + s, "rcdataState"),
                     ("dq", '<a v="&%s">' % s, "dataState"), ("sq", "<a v='&%s'>" % s, "dataState")]
            if fol not in (" ", "<", "", "=", "&") or fol == "=":
                cases.append(("unq", "<a v=&%s>" % s, "dataState"))
            for ctxname, text, state in cases:
                toks = real_tokens(text, state)
                in_attr = ctxname in ("dq", "sq", "unq")
                got = attr_value(toks) if in_attr else chars_of(toks)
                exp = spec_named(s, in_attr)
                ctx.case("named", text + "|" + state, nontrivial=(exp != "&" + s),
                         sample={"input": text, "state": state, "decoded": got} if exp != "&" + s else None)
                ctx.count(ctxname)
                if got != exp:
                    ctx.fail("named:%s:%s" % (ctxname, name), "named character reference decodes differently from the standard",
                             {"input": text, "state": state, "expected": exp, "got": got})
                reqs.append("tok %s ~ 0 %s" % (state, wire.enc_str(text)))
                reals.append("ok " + wire.enc_list(tok_corr.enc_ttok(t) for t in toks))
    # ---- the prefix walk runs past a legacy (semicolon-less) name: every proper prefix of every longer key
    legacy = [k for k in names if not k.endswith(";")]
    walk = set()
    for L in legacy:
        for K in names:
            if K.startswith(L) and len(K) > len(L):
                for j in range(len(L) + 1, len(K) + (0 if K.endswith(";") else 1)):
                    walk.add(K[:j])
    walk = sorted(walk)
    if ctx.tier != "thorough":
        ctx.rng.shuffle(walk)
        walk = walk[:150] + ["noti", "notin", "copys", "ltr", "gtc", "degr"]
    for s in walk:
        for term in ['"', "'", " ", "-", "/", ">", "&", "", "=", "x", "1", ";"]:
            cases = [("dq", '<a t="&%s%s">' % (s, term if term != '"' else ""), "dataState"),
                     ("sq", "<a t='&%s%s'>" % (s, term if term != "'" else ""), "dataState"),
                     ("data", "&%s%s" % (s, term), "dataState")]
            if term in (" ", ">", ""):
                cases.append(("unq", "<a t=&%s%s>" % (s, term if term != ">" else ""), "dataState"))
            for ctxname, text, state in cases:
                toks = real_tokens(text, state)
                in_attr = ctxname != "data"
                if in_attr:
                    got = dict(next((t["data"] for t in toks if t["type"] == 3), {})).get("t")
                    inner = re.search(r"t=[\"']?&(.*?)[\"']?>$", text, re.S).group(1) if False else None
                else:
                    got = chars_of(toks)
                # the reference text as the tokenizer sees it inside the value
                if ctxname == "dq":
                    val = text[len('<a t="&'):-2]
                elif ctxname == "sq":
                    val = text[len("<a t='&"):-2]
                elif ctxname == "unq":
                    val = text[len("<a t=&"):-1].rstrip(" ")
                else:
                    val = text[1:]
                exp = spec_named(val, in_attr)
                ctx.case("named-walk", text, nontrivial=True)
                if got != exp:
                    ctx.fail("named-walk:%s:%s" % (ctxname, s), "named reference followed by a longer-name prefix decodes differently from the standard",
                             {"input": text, "expected": exp, "got": got})
                reqs.append("tok %s ~ 0 %s" % (state, wire.enc_str(text)))
                reals.append("ok " + wire.enc_list(tok_corr.enc_ttok(t) for t in toks))
    # ---- numeric references
    if ctx.tier == "thorough":
        vals = list(range(0, 0x110100))
    else:
        vals = sorted(set(list(range(0, 0x120)) + list(C1) + [0xD7FF, 0xD800, 0xDFFF, 0xE000, 0xFDD0, 0xFDEF, 0xFFFE, 0xFFFF,
                                                           0x10FFFE, 0x10FFFF, 0x110000, 0x1FFFE]
                          + [ctx.rng.randrange(0x110100) for _ in range(20000)]))
    vals += [99999999, 0xFFFFFF]
    nreqs = ["numcharref %d" % v for v in vals]
    nreals = []
    for v in vals:
        tok = _tokenizer.HTMLTokenizer("%d;" % v)
        tok.stream.reportCharacterErrors = None
        tok.tokenQueue = deque()
        try:
            ch = tok.consumeNumberEntity(False)
            q = list(tok.tokenQueue)
            nreals.append("ok %s %s" % (wire.enc_str(ch), tok_corr.enc_ttok(q[0]) if q else "~"))
            if ch != spec_num(v):
                ctx.fail("numeric:%x" % v, "numeric reference decodes differently from the standard", {"value": v, "got": repr(ch)})
        except Exception as e:
            nreals.append(wire.exc_tag(e))
            ctx.fail("numeric-raises:%s" % type(e).__name__, "consumeNumberEntity raised", {"value": v})
        ctx.case("numcharref", str(v), nontrivial=True)
    # syntactic forms through the whole tokenizer
    forms = []
    for v in [0, 9, 0x41, 0x80, 0x85, 0x9F, 0xD800, 0xFFFF, 0x10FFFF, 0x110000] + [ctx.rng.randrange(0x110000) for _ in range(200)]:
        for fmt in ("&#%d", "&#x%x", "&#X%X", "&#x%X", "&#0%d", "&#x0%x"):
            for semi in (";", "", ";;", "x", " "):
                forms.append((fmt % v + semi, v, semi))
    for n in (8, 9, 10, 40, 4300, 4301, 5000):
        forms.append(("&#" + "1" * n + ";", 0x110000, ";"))
        forms.append(("&#" + "0" * n + "65;", 65, ";"))
        forms.append(("&#x" + "f" * n + ";", 0x110000, ";"))
    for text, v, semi in forms:
        for ctxname, doc, state in (("data", text, "dataState"), ("rcdata", text, "rcdataState"), ("dq", '<a v="%s">' % text, "dataState")):
            try:
                toks = real_tokens(doc, state)
                got = attr_value(toks) if ctxname == "dq" else chars_of(toks)
                exp = spec_num(v) + (semi[1:] if semi.startswith(";") else semi)
                if got != exp:
                    ctx.fail("numeric-form:%s" % ctxname, "numeric reference form decodes differently from the standard",
                             {"input": doc[:80], "expected": exp, "got": got})
                reqs.append("tok %s ~ 0 %s" % (state, wire.enc_str(doc)))
                reals.append("ok " + wire.enc_list(tok_corr.enc_ttok(t) for t in toks))
            except Exception as e:
                ctx.fail("numeric-raises:%s" % type(e).__name__, "tokenizer raised on a numeric reference", {"input": doc[:60] + "..."})
            ctx.case("numeric-form", doc[:64] + state)
    # ---- reverse map: serializer entity replacement decodes back
    from html5lib import serializer
    for cp, name in sorted(serializer._encode_entity_map.items()):
        ref = "&" + name + ("" if name.endswith(";") else ";")
        for fol in ("", "a", "=", ";"):
            got = chars_of(real_tokens(ref + fol))
            ctx.case("reverse", ref + fol)
            if got != chr(cp) + fol:
                ctx.fail("reverse:%s" % name, "serializer's entity for a code point does not decode back to it",
                         {"codepoint": cp, "reference": ref, "got": got})
    cps = sorted(set(list(range(0x80, 0x100)) + [0x100, 0x2026, 0xD7FF, 0xD800, 0xDFFF, 0xE000, 0xFFFD, 0xFFFE, 0x10000, 0x1F600, 0x10FFFF]
                     + [ctx.rng.randrange(0x80, 0x110000) for _ in range(ctx.scale(300, 20000))]))
    for cp in cps:
        roundtrip_case(ctx, cp)
    if ctx.driver_ok:
        ctx.compare("numcharref", nreqs, nreals, lean.run_driver(nreqs))
        ctx.compare("tok", reqs, reals, [tok_corr.drop_invalid_line(x) if False else x for x in lean.run_driver(reqs)])


def fallback_class(cp, text, serialized, decoded):
    """recorded class of a failed round trip of `text` (which contains chr(cp) once), or None.  The recorded defect and
    nothing else: the character was written as the hexadecimal numeric reference of its own code point, and the decoded
    text is the original with exactly that character replaced by what the standard's numeric-reference rule gives for
    the code point (C1 table entry / U+FFFD for a surrogate); everything else must have survived."""
    ch = chr(cp)
    if text.count(ch) != 1 or ("&#x%x;" % cp) not in serialized:
        return None
    if cp in C1 and decoded == text.replace(ch, chr(C1[cp])):
        return "roundtrip-numeric-fallback-c1-remap"
    if 0xD800 <= cp <= 0xDFFF and decoded == text.replace(ch, "\ufffd"):
        return "roundtrip-numeric-fallback-surrogate"
    return None


def roundtrip_case(ctx, cp):
    """text serialized with entity replacement for an output encoding decodes back to the same text"""
    import html5lib
    from html5lib.serializer import HTMLSerializer
    ch = chr(cp)
    try:
        out = HTMLSerializer().render([{"type": "Characters", "data": "a" + ch + "b"}], "ascii").decode("ascii")
        back = html5lib.parseFragment(out).text
    except Exception as e:
        ctx.fail("roundtrip-raises:%s" % type(e).__name__, "encode/decode of unencodable text raised", {"codepoint": cp})
        return
    ctx.case("roundtrip", str(cp), sample={"codepoint": cp, "serialized": out})
    # the same inside attribute values (followed by a letter, a digit, '=' — where a semicolon-less reference is not decoded)
    for tail in ("b", "=1", "9", ""):
        val = "a" + ch + tail
        try:
            toks = [{"type": "StartTag", "name": "p", "namespace": None, "data": {(None, "title"): val}},
                    {"type": "EndTag", "name": "p", "namespace": None}]
            o2 = HTMLSerializer(omit_optional_tags=False).render(toks, "ascii").decode("ascii")
            el = list(html5lib.parseFragment(o2))[0]
            got = el.get("title")
        except Exception as e:
            ctx.fail("roundtrip-raises:%s" % type(e).__name__, "encode/decode of an unencodable attribute value raised", {"codepoint": cp})
            continue
        ctx.case("roundtrip-attr", "%d|%s" % (cp, tail))
        if got != val:
            cls = fallback_class(cp, val, o2, got) or "roundtrip-attr:%x" % cp
            ctx.fail(cls, "an attribute value serialized with entity replacement does not decode back to itself",
                     {"codepoint": cp, "serialized": o2, "decoded": repr(got)})
    if back != "a" + ch + "b":
        cls = fallback_class(cp, "a" + ch + "b", out, back) or "roundtrip:%x" % cp
        ctx.fail(cls, "text serialized with entity replacement does not decode back to itself",
                 {"codepoint": cp, "serialized": out, "decoded": repr(back)})


def witness_case(ctx, w):
    roundtrip_case(ctx, w["codepoint"])


def replay(path):
    import json
    print(json.dumps(json.load(open(path)), indent=1)[:3000])
    return 0
