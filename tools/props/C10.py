"""C10 — sanitized markup stays safe when it is parsed again."""
import warnings

from h5 import gen, lean, lexical, trees, wire

ID = "C10"
PROPS_MODULE = "H5.Props.C10"
EXTRA_PROPS_MODULES = ["H5.Props.C10bSan", "H5.Props.C10b"]
GEN_MODULES = ["Serializer", "Constants"]
CORRESPONDENCE_OPS = []
SOURCES = ["html5lib/filters/sanitizer.py", "html5lib/serializer.py", "html5lib/html5parser.py", "html5lib/_tokenizer.py"]
LEVEL = "proof"
TRUSTED = ["composition of the component models (sanitizer, serializer, tokenizer, tree construction), each tied to /repo by its own "
           "correspondence; the composed safety theorem is not proved: decided by search on the real pipeline",
           "Safe(L) is evaluated on the re-parsed real tree by direct traversal with an independent browser-scheme function"]
RULE = ("mutation-XSS shaped soup (raw-text elements, foreign content, integration points, tables, select, noscript, comments, "
        "'</' in every context, obfuscated URL schemes) -> parse -> sanitize+serialize with random options -> re-parse as "
        "document and as fragment in {div, select, table, td, svg, math, p, a, template, noscript} x scripting on/off; "
        "oracle: allow-lists hold on the re-parsed tree, no comments, no disallowed scheme; non-trivial = input contains a "
        "disallowed element or attribute")

XSS_BITS = ["<p><b title=\"</textarea><img src=x onerror=alert(1)>\"></p><textarea>x", "<svg></p><title><a title=\"</title><img src=x onerror=alert(1)>\">",
            "<svg></br><title><a title=\"</title><img src=x onerror=alert(1)>\">", "<math></p><style><a title=\"</style><img src=x onerror=alert(1)>\">",
            "<svg><foreignObject><p>x</p></foreignObject><title><a title=\"</title><img src=x onerror=alert(1)>\"></a></title></svg>",
            "<i title=\"</title><script>alert(1)</script>\"><title>t", "<script>alert(1)</script>", "<style>*{x:expression(1)}</style>", "<noscript><p title=\"</noscript><img src=x onerror=alert(1)>\">",
            "<svg><style><img src=x onerror=alert(1)></style></svg>", "<math><mtext><table><mglyph><style><img src=x onerror=alert(1)>",
            "<svg><title><a href=\"javascript:alert(1)\">x</a></title></svg>", "<a href=\"jav&#x09;ascript:alert(1)\">x</a>",
            "<a href=\" javascript:alert(1)\">y</a>", "<a href=\"JaVaScRiPt:alert(1)\">z</a>", "<img src=x onerror=alert(1)>",
            "<iframe src=javascript:alert(1)>", "<form><math><mtext></form><form><mglyph><style></math><img src onerror=alert(1)>",
            "<select><template><style><!--</style><a rel=\"--></style></template></select><img src onerror=alert(1)>\">",
            "<!-- --!><img src=x onerror=alert(1)>-->", "<textarea></textarea><img src=x onerror=alert(1)>", "<xmp><img src=x onerror=alert(1)></xmp>",
            "<plaintext>", "<title><img src=x onerror=alert(1)></title>", "<table><td><a href=\"vbscript:x\">", "<svg><a xlink:href=\"javascript:alert(1)\"><text>x</text></a></svg>",
            "<object data=javascript:alert(1)>", "<embed src=x>", "<base href=javascript:alert(1)//>", "<a href=\"data:text/html,<script>alert(1)</script>\">d</a>",
            "<a href=\"data:image/png;base64,AAAA\">ok</a>", "<p style=\"background:url(javascript:alert(1))\">", "<div onclick=x title='a\"b'>",
            "<a href=\"&#106;avascript:alert(1)\">e</a>", "<a href=\"java\x00script:alert(1)\">n</a>", "<a href=\"\x01javascript:alert(1)\">c</a>",
            "<svg><foreignObject><p><style></p><img src=x onerror=alert(1)>", "<math><annotation-xml encoding=text/html><style><img src=x onerror=alert(1)></style>",
            # regression inputs of the repaired serializer finding C08-foreign-raw (COMMIT_A: foreign raw-text names are escaped)
            "<svg><title>&lt;img src=x onerror=alert(1)&gt;</title></svg>", "<svg><desc><style>&lt;img src=x onerror=alert(1)&gt;</style></desc></svg>"]


def browser_scheme(v):
    """URL standard: strip leading/trailing C0-control-or-space, remove tab/LF/CR, scheme state"""
    v = v.strip("".join(chr(c) for c in range(0x21)))
    v = v.replace("\t", "").replace("\n", "").replace("\r", "")
    if not v or not (v[0].isascii() and v[0].isalpha()):
        return None
    for i, c in enumerate(v):
        if c == ":":
            return v[:i].lower()
        if not (c.isascii() and (c.isalnum() or c in "+-.")):
            return None
    return None


def unsafe_reason(abstract, S, allow_skeleton):
    """first violation of the default allow-lists in a re-parsed tree, or None"""
    stack = [(abstract, 0)]
    while stack:
        t, depth = stack.pop()
        if t[0] in ("doc", "frag"):
            stack += [(k, depth + 1) for k in t[1]]
        elif t[0] == "comment":
            return "comment"
        elif t[0] == "elem":
            ns, name = t[1], t[2]
            skeleton = allow_skeleton and ns == gen.HTML_NS and name in ("html", "head", "body") and not t[3]
            if not skeleton and (ns, name) not in S.allowed_elements:
                if ns in (gen.SVG_NS, gen.MATHML_NS) and any((n2, name) in S.allowed_elements for n2 in (gen.HTML_NS, gen.SVG_NS, gen.MATHML_NS)):
                    return "element-reparsed-in-another-namespace:%s:%s" % ("svg" if ns == gen.SVG_NS else "math", name)
                return "element:%s" % name
            for ans, an, v in t[3]:
                if (ans, an) not in S.allowed_attributes:
                    return "attribute:%s" % an
                if (ans, an) in S.attr_val_is_uri:
                    sch = browser_scheme(v)
                    if sch is not None and sch not in S.allowed_protocols:
                        return "scheme:%s" % sch
            stack += [(k, depth + 1) for k in t[4]]
    return None


def wrapper_lost(orig, name, ns_word, S):
    """recorded mechanism of C10-ns-confusion, looked for in the tree the sanitizer was given: an ALLOWED element called
    `name` in another namespace than the one it was re-parsed in, whose nearest allowed ancestor is an element of the
    re-parse namespace (the allowed foreign root or one of its allowed descendants), with at least one DISALLOWED foreign
    element in between (the integration point that the sanitizer turned into text, so that nothing switches the
    re-parse back out of foreign content).  Elements are visited top-down, so the offender's ancestors were all fine."""
    ns_o = gen.SVG_NS if ns_word == "svg" else gen.MATHML_NS
    stack = [(orig, None, False)]        # node, namespace of the nearest allowed ancestor, disallowed foreign element in between
    while stack:
        t, anc_ns, gap = stack.pop()
        if t[0] in ("doc", "frag"):
            stack += [(k, anc_ns, gap) for k in t[1]]
        elif t[0] == "elem":
            ns, nm = t[1], t[2]
            if (ns, nm) in S.allowed_elements:
                if nm == name and ns != ns_o and anc_ns == ns_o and gap:
                    return True
                stack += [(k, ns, False) for k in t[4]]
            else:
                stack += [(k, anc_ns, gap or ns in (gen.SVG_NS, gen.MATHML_NS)) for k in t[4]]
    return False


INTEGRATION = {(gen.SVG_NS, "foreignObject"), (gen.SVG_NS, "desc"), (gen.SVG_NS, "title"), (gen.MATHML_NS, "annotation-xml"),
               (gen.MATHML_NS, "mi"), (gen.MATHML_NS, "mo"), (gen.MATHML_NS, "mn"), (gen.MATHML_NS, "ms"), (gen.MATHML_NS, "mtext")}


def _split(tag):
    return trees.split_tag(tag) if isinstance(tag, str) else (None, None)


def without_mechanism(root, which, S):
    """a deep copy of the parsed (etree, full) tree with the recorded mechanism removed:
    A `rcdata-child`: element children of an HTML textarea/title are dropped (their text too);
    B `html-in-foreign`: an HTML-namespace element whose nearest ancestor that the sanitizer lets through is an SVG/MathML element that
    is not an integration point is dropped (a disallowed integration point in between is escaped to text and shields nothing).
    Returns (copy, number of removals)."""
    import copy
    r = copy.deepcopy(root)
    n = 0
    top = r.getroot() if hasattr(r, "getroot") else r
    todo = [(top, None)]          # element, (ns, name) of its nearest ancestor-or-self that the sanitizer lets through
    while todo:
        el, anc = todo.pop()
        ns, nm = _split(el.tag)
        here = (ns, nm) if (ns, nm) in S.allowed_elements else anc
        for ch in list(el):
            cns, cnm = _split(ch.tag)
            drop = False
            if which == "A" and ns == gen.HTML_NS and nm in ("textarea", "title") and cnm is not None:
                drop = True
            if which == "B" and cns == gen.HTML_NS and here is not None and here[0] in (gen.SVG_NS, gen.MATHML_NS) and here not in INTEGRATION:
                drop = True
            if drop:
                el.remove(ch)
                n += 1
            else:
                todo.append((ch, here))
    return r, n


def one(ctx, text, opts, src):
    import html5lib
    from html5lib.filters import sanitizer as S
    from html5lib.serializer import HTMLSerializer
    warnings.simplefilter("ignore")
    try:
        # the full tree (document node with the doctype): the doctype token passes the sanitizer untouched and is written too
        t = gen.parse_real(text, tb="etree", full=True)
        out = HTMLSerializer(sanitize=True, **opts).render(html5lib.getTreeWalker("etree")(t))
    except Exception as e:
        ctx.fail("pipeline-raises:%s" % type(e).__name__, "parse/sanitize/serialize raised", {"input": text[:400], "options": opts})
        return
    ctx.case("resanitize", "%s|%s" % (text, sorted(opts.items())), nontrivial=("<" in text),
             sample={"input": text[:100], "sanitized": out[:100]})
    ctx.count(src)
    # contexts in which markup is read as markup; RCDATA / raw-text containers (title, textarea, xmp) are not re-parse contexts
    # of the property: there ANY attribute value containing the container's end tag turns into markup, whatever was sanitized
    for container in (None, "div", "select", "table", "td", "svg", "math", "p", "a", "template", "noscript"):
        for scripting in (False, True):
            try:
                p = html5lib.HTMLParser(tree=html5lib.getTreeBuilder("etree", fullTree=True))
                r = p.parse(out, scripting=scripting) if container is None else p.parseFragment(out, container=container, scripting=scripting)
            except RecursionError:
                continue
            except Exception as e:
                ctx.fail("reparse-raises:%s" % type(e).__name__, "re-parsing sanitized output raised", {"sanitized": out[:400], "container": container})
                continue
            ctx.evaluations += 1
            why = unsafe_reason(trees.from_etree(r), S, container is None)
            if why and why.startswith("element-reparsed-in-another-namespace:"):
                # the recorded class only when the recorded mechanism is observed in the ORIGINAL tree; otherwise the
                # generic class of a disallowed element
                _, ns_o, name_o = why.split(":", 2)
                why = "element-reparsed-in-another-namespace" if wrapper_lost(trees.from_etree(t), name_o, ns_o, S) \
                    else "element:%s" % name_o
            if why and why != "element-reparsed-in-another-namespace":
                # two recorded mechanisms, each accepted only by COUNTERFACTUAL: the same pipeline on the same tree minus the
                # mechanism is safe in this re-parse mode
                for which, label in (("A", "markup-written-inside-rcdata-element"), ("B", "html-element-inside-foreign-breaks-out-on-reparse"),
                                     ("AB", "markup-written-inside-rcdata-element+html-element-inside-foreign-breaks-out-on-reparse")):
                    if which == "AB":
                        t2, n1 = without_mechanism(t, "A", S)
                        t2, n2 = without_mechanism(t2, "B", S)
                        nrem = n1 and n2
                    else:
                        t2, nrem = without_mechanism(t, which, S)
                    if not nrem:
                        continue
                    try:
                        out2 = HTMLSerializer(sanitize=True, **opts).render(html5lib.getTreeWalker("etree")(t2))
                        p2 = html5lib.HTMLParser(tree=html5lib.getTreeBuilder("etree", fullTree=True))
                        r2 = p2.parse(out2, scripting=scripting) if container is None else p2.parseFragment(out2, container=container, scripting=scripting)
                        w2 = unsafe_reason(trees.from_etree(r2), S, container is None)
                        if w2 is None:
                            why = label
                            break
                        if w2.startswith("element-reparsed-in-another-namespace:"):
                            _, ns_o2, name_o2 = w2.split(":", 2)
                            if wrapper_lost(trees.from_etree(t2), name_o2, ns_o2, S):
                                why = label + "+element-reparsed-in-another-namespace"
                                break
                    except Exception:
                        pass
            if why and "+" in why:
                # both recorded mechanisms are needed to explain the input: one failure per (known) component class
                for part in why.split("+"):
                    ctx.fail("unsafe-after-reparse:%s" % part, "re-parsed sanitized markup violates the allow-lists",
                             {"input": text[:500], "options": opts, "sanitized": out[:500], "container": container, "scripting": scripting})
                return
            if why:
                ctx.fail("unsafe-after-reparse:%s" % why if why in ("element-reparsed-in-another-namespace", "markup-written-inside-rcdata-element",
                                                                 "html-element-inside-foreign-breaks-out-on-reparse") else
                         "unsafe-after-reparse:%s:%s" % (why, "document" if container is None else "fragment-in-" + container),
                         "re-parsed sanitized markup violates the allow-lists",
                         {"input": text[:500], "options": opts, "sanitized": out[:500], "container": container, "scripting": scripting})
                return


def witness_case(ctx, w):
    one(ctx, w["input"], dict(w.get("options", {})), "witness")


DOCTYPES = ["<!DOCTYPE html>", "<!DOCTYPE html PUBLIC 'x\"><script>alert(1)</script>'>", "<!DOCTYPE html PUBLIC \"a'><img src=x onerror=alert(1)>\">",
            "<!DOCTYPE html SYSTEM 'y\"><script>alert(2)</script>'>", "<!DOCTYPE html PUBLIC 'p' \"s'><iframe src=javascript:alert(1)>\">",
            "<!DOCTYPE a><script>x</script>b>", "<!DOCTYPE html SYSTEM \"about:legacy-compat\"><!--c-->", "<!doctype x public \"-//W3C//DTD HTML 4.01//EN\" '\"><b onclick=x>'>",
            "<!DOCTYPE html PUBLIC '\"' '>'><script>alert(3)</script>"]


# break-out start tags inside foreign content followed by names that are allow-listed only in the foreign namespace: the
# namespace the FIRST parse gives these elements decides what the sanitizer lets through (round-6 seed C10-6)
BREAKOUT_BITS = ['<svg><font color="red"><circle r="1"></circle></font></svg>', '<svg><g><font size=3><title>t</title><path d="M0 0"></path></font></g></svg>',
                 "<math><b><mi>x</mi><mrow></mrow></b></math>", "<svg><p><path d=M0></path><a xlink:href='#a'>t</a></p></svg>",
                 "<svg><div><linearGradient id=g></linearGradient><use xlink:href='#g'></use></div>", "<math><table><mtr><mtd>x</mtd></mtr></table></math>",
                 "<svg><font face=f><animate attributeName=x></animate><set></set></font>", "<svg><b><svg><circle></circle></svg><circle></circle></b>",
                 "<math><span><mglyph></mglyph><malignmark></malignmark><none></none></span>", "<svg><center><marker></marker><switch></switch></center>"]


def run(ctx):
    rng = ctx.rng
    for text in BREAKOUT_BITS + XSS_BITS:
        one(ctx, text, {"omit_optional_tags": False}, "bit-alone")
        one(ctx, "<div>" + text + "</div>", {"omit_optional_tags": True, "quote_attr_values": "always"}, "bit-alone")
    for i in range(ctx.scale(500, 15000)):
        parts = [rng.choice(DOCTYPES)] if rng.random() < 0.25 else []
        for _ in range(rng.randint(1, 4)):
            parts.append(rng.choice(XSS_BITS + BREAKOUT_BITS) if rng.random() < 0.5 else gen.soup(rng, maxparts=5))
        text = "".join(parts)
        opts = lexical.random_opts(rng)
        opts["omit_optional_tags"] = rng.random() < 0.6
        if rng.random() < 0.15:
            opts["strip_whitespace"] = True
        one(ctx, text, opts, "xss-soup")


def replay(path):
    import json
    print(json.dumps(json.load(open(path)), indent=1)[:3000])
    return 0
