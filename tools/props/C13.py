"""C13 — optional-tags filter: removes only omissible tags."""
import itertools
import warnings

from h5 import gen, lean, wire

ID = "C13"
PROPS_MODULE = "H5.Props.C13"
EXTRA_PROPS_MODULES = ["H5.Props.C13b", "H5.Props.C07"]   # C07: position of the filter in the extracted serializer pipeline
GEN_MODULES = ["OptionalTags"]
CORRESPONDENCE_OPS = ["fn:isOptionalStart", "fn:isOptionalEnd", "optfilter"]
SOURCES = ["html5lib/filters/optionaltags.py"]
LEVEL = "proof"
TRUSTED = ["hand model of Filter.slider/__iter__ (H5.Model.OptionalTags), tied by op optfilter",
           "PyLite meaning of: ==, in (tuple -> elem, str -> substring), and/or, X and X['type'] or None"]
RULE = ("fn: every (tagname, previous, next) over names = literals of optionaltags.py + fresh names x token shapes "
        "(exhaustive); optfilter: seeded random token streams (unbalanced and balanced); non-trivial = stream "
        "contains at least one tag whose name is in the omissible lists; distinct by canonical encoding")

START_NAMES = {"html", "head", "body", "colgroup", "tbody"}
END_NAMES = {"html", "head", "body", "li", "dt", "dd", "p", "rt", "rp", "optgroup", "option", "colgroup",
             "thead", "tbody", "tfoot", "tr", "td", "th"}


P_FOLLOW = {"address", "article", "aside", "blockquote", "details", "div", "dl", "fieldset", "figcaption", "figure", "footer",
            "form", "h1", "h2", "h3", "h4", "h5", "h6", "header", "hgroup", "hr", "main", "menu", "nav", "ol", "p", "pre",
            "section", "table", "ul"}
P_PARENTS_NO = {"a", "audio", "del", "ins", "map", "noscript", "video"}


def _ty(x):
    return x["type"] if x else None


def _start_in(x, names):
    return bool(x) and x["type"] in ("StartTag", "EmptyTag") and x["name"] in names


def _no_more(x):
    return x is None or x["type"] == "EndTag"


def spec_end(n, x):
    """HTML syntax (2020), 'optional tags': may the end tag of n be omitted before x?  -> (allowed, known-deviation class)"""
    sc = _ty(x) in ("Comment", "SpaceCharacters")
    if n in ("html", "body"):
        return _ty(x) != "Comment"
    if n == "head":
        return not sc
    if n == "li":
        return _start_in(x, {"li"}) or _no_more(x)
    if n == "dt":
        return _start_in(x, {"dt", "dd"})
    if n == "dd":
        return _start_in(x, {"dd", "dt"}) or _no_more(x)
    if n == "p":
        return _start_in(x, P_FOLLOW) or (_no_more(x) and not (x and x["name"] in P_PARENTS_NO))
    if n in ("rt", "rp"):
        return _start_in(x, {"rt", "rp"}) or _no_more(x)
    if n == "optgroup":
        return _start_in(x, {"optgroup"}) or _no_more(x)
    if n == "option":
        return _start_in(x, {"option", "optgroup"}) or _no_more(x)
    if n in ("colgroup", "caption"):
        return not sc
    if n == "thead":
        return _start_in(x, {"tbody", "tfoot"})
    if n == "tbody":
        return _start_in(x, {"tbody", "tfoot"}) or _no_more(x)
    if n == "tfoot":
        return _no_more(x)
    if n == "tr":
        return _start_in(x, {"tr"}) or _no_more(x)
    if n in ("td", "th"):
        return _start_in(x, {"td", "th"}) or _no_more(x)
    return False


def dev_end(n, x):
    if n == "p" and _start_in(x, {"datagrid", "dialog", "dir"}):
        return "p-end-before-datagrid-dialog-dir"
    if n == "p" and x and x["type"] == "EndTag" and x["name"] in P_PARENTS_NO:
        return "p-end-omitted-before-end-of-a-like-parent"
    if n == "tfoot" and x and x["type"] == "StartTag" and x["name"] == "tbody":
        return "tfoot-end-before-tbody"
    return None


def spec_start(n, x):
    sc = _ty(x) in ("Comment", "SpaceCharacters")
    if n == "html":
        return _ty(x) != "Comment"
    if n == "head":
        return _ty(x) in ("StartTag", "EmptyTag") or _no_more(x)
    if n == "body":
        return _no_more(x) or (not sc and not _start_in(x, {"meta", "link", "script", "style", "template"}))
    if n == "colgroup":
        return _start_in(x, {"col"})
    if n == "tbody":
        return _start_in(x, {"tr"})
    return False


def dev_start(n, x):
    if n == "body" and x and ((x["type"] == "StartTag" and x["name"] in ("meta", "link", "template")) or
                              (x["type"] == "EmptyTag" and x["name"] in ("meta", "link", "script", "style", "template"))):
        return "body-start-omitted-before-meta-link-script-style-template"
    return None


def real_filter(toks):
    from html5lib.filters.optionaltags import Filter
    return list(Filter(toks))


def removable(t):
    if t["type"] == "StartTag":
        return (not t["data"]) and t["name"] in START_NAMES
    if t["type"] == "EndTag":
        return t["name"] in END_NAMES
    return False


def check_only_removes(inp, out):
    """None if `out` is `inp` with only removable tokens deleted (identity and order kept)"""
    j = 0
    for t in inp:
        if j < len(out) and out[j] is t:
            j += 1
        elif not removable(t):
            return t
    if j != len(out):
        return {"type": "extra-output"}
    return None


def run(ctx):
    import zlib
    from html5lib.filters.optionaltags import Filter
    names = sorted(set(gen.literals_in(SOURCES[0])) - {"StartTag", "EndTag", "EmptyTag", "Comment", "SpaceCharacters",
                                                       "Characters", "type", "name", "data"})
    fresh = ["m", "h", "ht", "", "zz", "HTML", "html5", "ahtml", "svg", "t", "a", "audio", "del", "ins", "map", "noscript",
             "video", "meta", "link", "template", "details", "figure", "main", "hgroup", "figcaption", "caption"]
    pool = names + fresh
    f = Filter([])

    # ---- translation validation of the two rule functions (exhaustive over the abstraction)
    def shapes(nm):
        return [None,
                {"type": "StartTag", "name": nm, "namespace": None, "data": {}},
                {"type": "EndTag", "name": nm, "namespace": None},
                {"type": "EmptyTag", "name": nm, "namespace": None, "data": {}},
                {"type": "Characters", "data": "x"}, {"type": "SpaceCharacters", "data": " "},
                {"type": "Comment", "data": "c"}, {"type": "Doctype", "name": nm, "publicId": None, "systemId": None},
                {"type": "Entity", "name": nm}]
    nexts = [None] + [s for nm in pool for s in shapes(nm)[1:4]] + shapes("x")[4:]
    prevs = [None] + [s for nm in ["tbody", "thead", "tfoot", "tr", "zz"] for s in shapes(nm)[1:4]] + shapes("x")[4:7]
    reqs, reals = [], []
    for tag in pool:
        for nx in nexts:
            for pv in (prevs if tag == "tbody" or ctx.tier == "thorough" else prevs[:3]):
                reqs.append("fn:isOptionalStart %s %s %s" % (wire.enc_str(tag), wire.enc_otok(pv), wire.enc_otok(nx)))
                try:
                    reals.append("ok " + wire.enc_bool(bool(f.is_optional_start(tag, pv, nx))))
                except Exception as e:
                    reals.append(wire.exc_tag(e))
                ctx.case("fn:isOptionalStart", reqs[-1], nontrivial=tag in START_NAMES)
            reqs.append("fn:isOptionalEnd %s %s" % (wire.enc_str(tag), wire.enc_otok(nx)))
            try:
                reals.append("ok " + wire.enc_bool(bool(f.is_optional_end(tag, nx))))
            except Exception as e:
                reals.append(wire.exc_tag(e))
            ctx.case("fn:isOptionalEnd", reqs[-1], nontrivial=tag in END_NAMES)
            # oracle: position clause — omissible only where the HTML syntax allows it
            if reals[-1] == "ok 1" and not spec_end(tag, nx):
                ctx.fail(dev_end(tag, nx) or "end-tag-position:%s:%s:%s" % (tag, _ty(nx), nx and nx.get("name")),
                         "is_optional_end allows an omission the HTML syntax does not allow in that position",
                         {"tagname": tag, "next": repr(nx)})
            # oracle: the rule functions say "omissible" only for the allowed names
            if reals[-1] == "ok 1" and tag not in END_NAMES:
                ctx.fail("end-tag-omitted:%s" % tag, "is_optional_end true for a name outside the allowed list",
                         {"tagname": tag, "next": repr(nx)})
    for tag in pool:
        for nx in nexts:
            for pv in prevs[:3]:
                try:
                    if f.is_optional_start(tag, pv, nx) and tag in START_NAMES and not spec_start(tag, nx):
                        ctx.fail(dev_start(tag, nx) or "start-tag-position:%s:%s:%s" % (tag, _ty(nx), nx and nx.get("name")),
                                 "is_optional_start allows an omission the HTML syntax does not allow in that position",
                                 {"tagname": tag, "previous": repr(pv), "next": repr(nx)})
                    if f.is_optional_start(tag, pv, nx) and tag not in START_NAMES:
                        ctx.fail("start-tag-omitted:%s" % tag, "is_optional_start true for a name outside the allowed list",
                                 {"tagname": tag, "previous": repr(pv), "next": repr(nx)})
                except Exception as e:
                    ctx.fail("rule-raises:%s" % type(e).__name__, "is_optional_start raised", {"tagname": tag, "next": repr(nx)})
    if ctx.driver_ok:
        ctx.compare("fn", reqs, reals, lean.run_driver(reqs))

    # ---- filter loop: model vs real, and the removal oracle on the real filter
    n = ctx.scale(3000, 60000)
    reqs, reals, inputs = [], [], []
    def tag(kind, nm):
        t = {"type": kind, "name": nm, "namespace": None}
        if kind != "EndTag":
            t["data"] = {}
        return t
    secs = ["tbody", "thead", "tfoot", "colgroup", "tr", "td", "li", "p", "option", "optgroup", "dt", "dd", "html", "head", "body", "table"]

    def window_oracle(toks, out):
        """the decision for a token depends on its own window (previous, token, next) only — not on what was met earlier in
        the stream: the filter's output must equal the window-by-window decisions of a FRESH rule object"""
        g = Filter([])
        exp = []
        for j, t in enumerate(toks):
            pv = toks[j - 1] if j else None
            nx = toks[j + 1] if j + 1 < len(toks) else None
            if t["type"] == "StartTag":
                if t["data"] or not g.is_optional_start(t["name"], pv, nx):
                    exp.append(t)
            elif t["type"] == "EndTag":
                if not g.is_optional_end(t["name"], nx):
                    exp.append(t)
            else:
                exp.append(t)
        return exp == out
    # deterministic: the same (token, next) window twice in one stream behind every pair of different predecessors
    twice = []
    pv_pool = [p_ for p_ in prevs if p_ is not None]
    for nm in sorted(START_NAMES) + ["tr", "td", "li", "p"]:
        for nx in [tag("StartTag", x) for x in ("tr", "col", "td", "li", "p", "tbody", "script", "div")] + [tag("EndTag", nm), {"type": "Characters", "data": "x"}]:
            for a_ in pv_pool:
                for b_ in pv_pool:
                    if a_ is not b_ and (ctx.tier == "thorough" or (zlib.crc32(repr((nm, nx, a_, b_)).encode()) + ctx.seed) % 4 == 0):
                        twice.append([dict(a_), tag("StartTag", nm), dict(nx), dict(b_), tag("StartTag", nm), dict(nx)])
                        twice.append([dict(a_), tag("EndTag", nm), dict(nx), dict(b_), tag("EndTag", nm), dict(nx)])
    for i in range(n + len(twice)):
        if i >= n:
            toks = twice[i - n]
        elif i % 3 == 0:
            toks = gen.balanced_stream(ctx.rng, pool[:len(names)] if ctx.rng.random() < 0.8 else pool, maxdepth=5)
        elif i % 3 == 1 and i % 2 == 0:
            # the same segment twice in one stream behind different predecessors (decisions must not be carried over)
            seg = [tag(ctx.rng.choice(["StartTag", "EndTag", "StartTag"]), ctx.rng.choice(secs)) for _ in range(ctx.rng.randint(2, 4))]
            pre = [tag(ctx.rng.choice(["StartTag", "EndTag"]), ctx.rng.choice(secs)) for _ in range(2)] + \
                  [ctx.rng.choice([{"type": "Comment", "data": "c"}, {"type": "SpaceCharacters", "data": " "}, {"type": "Characters", "data": "x"}])]
            ctx.rng.shuffle(pre)
            toks = [pre[0]] + seg + [pre[1]] + [dict(t) for t in seg] + [pre[2]] + [dict(t) for t in seg]
        else:
            toks = gen.token_stream(ctx.rng, names if ctx.rng.random() < 0.7 else pool, maxlen=10)
        req = "optfilter " + wire.enc_toks(toks)
        try:
            out = real_filter(toks)
            real = "ok " + wire.enc_toks(out)
            bad = check_only_removes(toks, out)
            if not window_oracle(toks, out):
                ctx.fail("decision-depends-on-stream-history", "a token's removal is not determined by its own window (previous, token, next)",
                         {"tokens": repr(toks)[:1500], "output": repr(out)[:1000]})
            if bad is not None:
                ctx.fail("removed-non-omissible:%s:%s" % (bad.get("type"), bad.get("name")),
                         "filter removed/changed a token that is not an omissible tag", {"tokens": repr(toks), "token": repr(bad)})
        except Exception as e:
            real = wire.exc_tag(e)
            ctx.fail("filter-raises:%s" % type(e).__name__, "optionaltags.Filter raised", {"tokens": repr(toks)})
        reqs.append(req)
        reals.append(real)
        nt = any(t["type"] in ("StartTag", "EndTag") and t["name"] in END_NAMES for t in toks)
        ctx.case("optfilter", req, nontrivial=nt, sample=req if nt else None)
        ctx.count("len=%d" % min(len(toks), 12))
    if ctx.driver_ok:
        ctx.compare("optfilter", reqs, reals, lean.run_driver(reqs))
    pipeline_oracle(ctx)


def pipeline_oracle(ctx):
    """the filter inside the serializer pipeline (after whitespace stripping and sanitizing, before attribute sorting):
    for conforming documents the output with omission re-parses to the same tree as the output without, whatever the
    other filters do to the stream before it"""
    import html5lib
    from html5lib.serializer import HTMLSerializer
    from h5 import conf, trees
    extra = ["<main><p>hello</p></main><p>after</p>", "<hgroup><h1>t</h1><p>x</p></hgroup><p>y</p>", "<ruby><rt>a</rt></ruby><ul><li>x</li></ul>",
             "<object data=x><p>in</p></object><p>out</p>", "<table><tbody><tr><td>1</td></tr></tbody></table><!--c--><p>z</p>"]
    def outcome(text, opts):
        # the full tree: the doctype must be written too (without it the re-parse is in quirks mode, where <table> does not close p)
        t0 = gen.parse_real(text, tb="etree", full=True)
        w = html5lib.getTreeWalker("etree")
        a = HTMLSerializer(omit_optional_tags=False, **opts).render(w(t0))
        b = HTMLSerializer(omit_optional_tags=True, **opts).render(w(t0))
        ta = trees.merge_text(trees.from_etree(gen.parse_real(a, tb="etree", full=True)))
        tb = trees.merge_text(trees.from_etree(gen.parse_real(b, tb="etree", full=True)))
        return ta != tb, a, b

    def shrink_doc(doc, opts):
        """greedy: delete one child / attribute / replace an element by its children while the outcome still differs"""
        def variants(t):
            if t[0] in ("doc", "frag"):
                for j in range(len(t[1])):
                    for v in variants(t[1][j]):
                        yield (t[0], t[1][:j] + [v] + t[1][j + 1:])
            elif t[0] == "elem":
                kids = t[4]
                for j in range(len(kids)):
                    yield ("elem", t[1], t[2], t[3], kids[:j] + kids[j + 1:])
                    if kids[j][0] == "elem" and t[2] not in ("html",):
                        yield ("elem", t[1], t[2], t[3], kids[:j] + list(kids[j][4]) + kids[j + 1:])
                for j in range(len(t[3])):
                    yield ("elem", t[1], t[2], t[3][:j] + t[3][j + 1:], kids)
                for j in range(len(kids)):
                    for v in variants(kids[j]):
                        yield ("elem", t[1], t[2], t[3], kids[:j] + [v] + kids[j + 1:])
        changed, budget = True, 400
        while changed and budget > 0:
            changed = False
            for v in variants(doc):
                budget -= 1
                if budget <= 0:
                    break
                try:
                    if outcome(conf.render(v), opts)[0]:
                        doc, changed = v, True
                        break
                except Exception:
                    pass
        return doc
    n = ctx.scale(120, 3000)
    for i in range(n + len(extra)):
        doc = None
        if i < n:
            doc = conf.G(ctx.rng).document()
            text = conf.render(doc)
        else:
            text = "<!DOCTYPE html><html><head><title>t</title></head><body>" + extra[i - n] + "</body></html>"
        for opts in ({"sanitize": True}, {"sanitize": True, "strip_whitespace": True}, {"strip_whitespace": True}, {"alphabetical_attributes": True}):
            try:
                bad, a, b = outcome(text, opts)
                ta, tb = (0, 1) if bad else (0, 0)
            except Exception as e:
                ctx.fail("pipeline-raises:%s" % type(e).__name__, "serializer pipeline raised on a conforming document", {"input": text[:500], "options": opts})
                continue
            ctx.case("pipeline", "%s|%s" % (text, sorted(opts)), nontrivial=(a != b))
            if ta != tb:
                if doc is not None:
                    text = conf.render(shrink_doc(doc, opts))
                    _, a, b = outcome(text, opts)
                # the two recorded window deviations cannot change a tree; anything else is new
                ctx.fail("pipeline-omission-changes-tree:%s" % "+".join(sorted(opts)), "with omit_optional_tags the serializer pipeline's output "
                         "re-parses to another tree than without", {"input": text[:600], "options": opts, "with": b[:400], "without": a[:400]})


def replay(path):
    import json
    r = json.load(open(path))
    print(json.dumps(r, indent=1)[:3000])
    return 0
