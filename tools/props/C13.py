"""C13 — optional-tags filter: removes only omissible tags."""
import itertools
import warnings

from h5 import gen, lean, wire

ID = "C13"
PROPS_MODULE = "H5.Props.C13"
EXTRA_PROPS_MODULES = ["H5.Props.C13b"]
GEN_MODULES = ["OptionalTags"]
CORRESPONDENCE_OPS = ["fn:isOptionalStart", "fn:isOptionalEnd", "optfilter"]
SOURCES = ["html5lib/filters/optionaltags.py"]
LEVEL = "proof"
TRUSTED = ["hand model of Filter.slider/__iter__ (H5.Model.OptionalTags), tied by op optfilter",
           "PyLite meaning of: ==, in (tuple -> elem, str -> substring), and/or, X and X['type'] or None"]
RULE = ("fn: every (tagname, previous, next) over names = literals of optionaltags.py + fresh names x token shapes "
        "(exhaustive); optfilter: seeded random token streams (unbalanced and balanced); non-trivial = stream "
        "contains at least one tag whose name is in the omissible lists; distinct by canonical encoding")

START_NAMES = {"html", "head", "body", "colgroup", "tbody"}
END_NAMES = {"html", "head", "body", "li", "dt", "dd", "p", "rt", "rp", "optgroup", "option", "colgroup",
             "thead", "tbody", "tfoot", "tr", "td", "th"}


P_FOLLOW = {"address", "article", "aside", "blockquote", "details", "div", "dl", "fieldset", "figcaption", "figure", "footer",
            "form", "h1", "h2", "h3", "h4", "h5", "h6", "header", "hgroup", "hr", "main", "menu", "nav", "ol", "p", "pre",
            "section", "table", "ul"}
P_PARENTS_NO = {"a", "audio", "del", "ins", "map", "noscript", "video"}


def _ty(x):
    return x["type"] if x else None


def _start_in(x, names):
    return bool(x) and x["type"] in ("StartTag", "EmptyTag") and x["name"] in names


def _no_more(x):
    return x is None or x["type"] == "EndTag"


def spec_end(n, x):
    """HTML syntax (2020), 'optional tags': may the end tag of n be omitted before x?  -> (allowed, known-deviation class)"""
    sc = _ty(x) in ("Comment", "SpaceCharacters")
    if n in ("html", "body"):
        return _ty(x) != "Comment"
    if n == "head":
        return not sc
    if n == "li":
        return _start_in(x, {"li"}) or _no_more(x)
    if n == "dt":
        return _start_in(x, {"dt", "dd"})
    if n == "dd":
        return _start_in(x, {"dd", "dt"}) or _no_more(x)
    if n == "p":
        return _start_in(x, P_FOLLOW) or (_no_more(x) and not (x and x["name"] in P_PARENTS_NO))
    if n in ("rt", "rp"):
        return _start_in(x, {"rt", "rp"}) or _no_more(x)
    if n == "optgroup":
        return _start_in(x, {"optgroup"}) or _no_more(x)
    if n == "option":
        return _start_in(x, {"option", "optgroup"}) or _no_more(x)
    if n in ("colgroup", "caption"):
        return not sc
    if n == "thead":
        return _start_in(x, {"tbody", "tfoot"})
    if n == "tbody":
        return _start_in(x, {"tbody", "tfoot"}) or _no_more(x)
    if n == "tfoot":
        return _no_more(x)
    if n == "tr":
        return _start_in(x, {"tr"}) or _no_more(x)
    if n in ("td", "th"):
        return _start_in(x, {"td", "th"}) or _no_more(x)
    return False


def dev_end(n, x):
    if n == "p" and _start_in(x, {"datagrid", "dialog", "dir"}):
        return "p-end-before-datagrid-dialog-dir"
    if n == "p" and x and x["type"] == "EndTag" and x["name"] in P_PARENTS_NO:
        return "p-end-omitted-before-end-of-a-like-parent"
    if n == "tfoot" and x and x["type"] == "StartTag" and x["name"] == "tbody":
        return "tfoot-end-before-tbody"
    return None


def spec_start(n, x):
    sc = _ty(x) in ("Comment", "SpaceCharacters")
    if n == "html":
        return _ty(x) != "Comment"
    if n == "head":
        return _ty(x) in ("StartTag", "EmptyTag") or _no_more(x)
    if n == "body":
        return _no_more(x) or (not sc and not _start_in(x, {"meta", "link", "script", "style", "template"}))
    if n == "colgroup":
        return _start_in(x, {"col"})
    if n == "tbody":
        return _start_in(x, {"tr"})
    return False


def dev_start(n, x):
    if n == "body" and x and ((x["type"] == "StartTag" and x["name"] in ("meta", "link", "template")) or
                              (x["type"] == "EmptyTag" and x["name"] in ("meta", "link", "script", "style", "template"))):
        return "body-start-omitted-before-meta-link-script-style-template"
    return None


def real_filter(toks):
    from html5lib.filters.optionaltags import Filter
    return list(Filter(toks))


def removable(t):
    if t["type"] == "StartTag":
        return (not t["data"]) and t["name"] in START_NAMES
    if t["type"] == "EndTag":
        return t["name"] in END_NAMES
    return False


def check_only_removes(inp, out):
    """None if `out` is `inp` with only removable tokens deleted (identity and order kept)"""
    j = 0
    for t in inp:
        if j < len(out) and out[j] is t:
            j += 1
        elif not removable(t):
            return t
    if j != len(out):
        return {"type": "extra-output"}
    return None


def run(ctx):
    from html5lib.filters.optionaltags import Filter
    names = sorted(set(gen.literals_in(SOURCES[0])) - {"StartTag", "EndTag", "EmptyTag", "Comment", "SpaceCharacters",
                                                       "Characters", "type", "name", "data"})
    fresh = ["m", "h", "ht", "", "zz", "HTML", "html5", "ahtml", "svg", "t", "a", "audio", "del", "ins", "map", "noscript",
             "video", "meta", "link", "template", "details", "figure", "main", "hgroup", "figcaption", "caption"]
    pool = names + fresh
    f = Filter([])

    # ---- translation validation of the two rule functions (exhaustive over the abstraction)
    def shapes(nm):
        return [None,
                {"type": "StartTag", "name": nm, "namespace": None, "data": {}},
                {"type": "EndTag", "name": nm, "namespace": None},
                {"type": "EmptyTag", "name": nm, "namespace": None, "data": {}},
                {"type": "Characters", "data": "x"}, {"type": "SpaceCharacters", "data": " "},
                {"type": "Comment", "data": "c"}, {"type": "Doctype", "name": nm, "publicId": None, "systemId": None},
                {"type": "Entity", "name": nm}]
    nexts = [None] + [s for nm in pool for s in shapes(nm)[1:4]] + shapes("x")[4:]
    prevs = [None] + [s for nm in ["tbody", "thead", "tfoot", "tr", "zz"] for s in shapes(nm)[1:4]] + shapes("x")[4:7]
    reqs, reals = [], []
    for tag in pool:
        for nx in nexts:
            for pv in (prevs if tag == "tbody" or ctx.tier == "thorough" else prevs[:3]):
                reqs.append("fn:isOptionalStart %s %s %s" % (wire.enc_str(tag), wire.enc_otok(pv), wire.enc_otok(nx)))
                try:
                    reals.append("ok " + wire.enc_bool(bool(f.is_optional_start(tag, pv, nx))))
                except Exception as e:
                    reals.append(wire.exc_tag(e))
                ctx.case("fn:isOptionalStart", reqs[-1], nontrivial=tag in START_NAMES)
            reqs.append("fn:isOptionalEnd %s %s" % (wire.enc_str(tag), wire.enc_otok(nx)))
            try:
                reals.append("ok " + wire.enc_bool(bool(f.is_optional_end(tag, nx))))
            except Exception as e:
                reals.append(wire.exc_tag(e))
            ctx.case("fn:isOptionalEnd", reqs[-1], nontrivial=tag in END_NAMES)
            # oracle: position clause — omissible only where the HTML syntax allows it
            if reals[-1] == "ok 1" and not spec_end(tag, nx):
                ctx.fail(dev_end(tag, nx) or "end-tag-position:%s:%s:%s" % (tag, _ty(nx), nx and nx.get("name")),
                         "is_optional_end allows an omission the HTML syntax does not allow in that position",
                         {"tagname": tag, "next": repr(nx)})
            # oracle: the rule functions say "omissible" only for the allowed names
            if reals[-1] == "ok 1" and tag not in END_NAMES:
                ctx.fail("end-tag-omitted:%s" % tag, "is_optional_end true for a name outside the allowed list",
                         {"tagname": tag, "next": repr(nx)})
    for tag in pool:
        for nx in nexts:
            for pv in prevs[:3]:
                try:
                    if f.is_optional_start(tag, pv, nx) and tag in START_NAMES and not spec_start(tag, nx):
                        ctx.fail(dev_start(tag, nx) or "start-tag-position:%s:%s:%s" % (tag, _ty(nx), nx and nx.get("name")),
                                 "is_optional_start allows an omission the HTML syntax does not allow in that position",
                                 {"tagname": tag, "previous": repr(pv), "next": repr(nx)})
                    if f.is_optional_start(tag, pv, nx) and tag not in START_NAMES:
                        ctx.fail("start-tag-omitted:%s" % tag, "is_optional_start true for a name outside the allowed list",
                                 {"tagname": tag, "previous": repr(pv), "next": repr(nx)})
                except Exception as e:
                    ctx.fail("rule-raises:%s" % type(e).__name__, "is_optional_start raised", {"tagname": tag, "next": repr(nx)})
    if ctx.driver_ok:
        ctx.compare("fn", reqs, reals, lean.run_driver(reqs))

    # ---- filter loop: model vs real, and the removal oracle on the real filter
    n = ctx.scale(3000, 60000)
    reqs, reals, inputs = [], [], []
    for i in range(n):
        if i % 3 == 0:
            toks = gen.balanced_stream(ctx.rng, pool[:len(names)] if ctx.rng.random() < 0.8 else pool, maxdepth=5)
        else:
            toks = gen.token_stream(ctx.rng, names if ctx.rng.random() < 0.7 else pool, maxlen=10)
        req = "optfilter " + wire.enc_toks(toks)
        try:
            out = real_filter(toks)
            real = "ok " + wire.enc_toks(out)
            bad = check_only_removes(toks, out)
            if bad is not None:
                ctx.fail("removed-non-omissible:%s:%s" % (bad.get("type"), bad.get("name")),
                         "filter removed/changed a token that is not an omissible tag", {"tokens": repr(toks), "token": repr(bad)})
        except Exception as e:
            real = wire.exc_tag(e)
            ctx.fail("filter-raises:%s" % type(e).__name__, "optionaltags.Filter raised", {"tokens": repr(toks)})
        reqs.append(req)
        reals.append(real)
        nt = any(t["type"] in ("StartTag", "EndTag") and t["name"] in END_NAMES for t in toks)
        ctx.case("optfilter", req, nontrivial=nt, sample=req if nt else None)
        ctx.count("len=%d" % min(len(toks), 12))
    if ctx.driver_ok:
        ctx.compare("optfilter", reqs, reals, lean.run_driver(reqs))


def replay(path):
    import json
    r = json.load(open(path))
    print(json.dumps(r, indent=1)[:3000])
    return 0
