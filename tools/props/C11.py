"""C11 — tree walkers emit a well-formed stream that reproduces the tree."""
import itertools
import xml.dom.minidom
import xml.etree.ElementTree as ET

from h5 import gen, lean, trees, wire

ID = "C11"
PROPS_MODULE = "H5.Props.C11"
EXTRA_PROPS_MODULES = ["H5.Props.C11b"]
GEN_MODULES = ["Constants"]
CORRESPONDENCE_OPS = ["walk"]
SOURCES = ["html5lib/treewalkers/base.py", "html5lib/treewalkers/etree.py", "html5lib/treewalkers/dom.py",
           "html5lib/treewalkers/__init__.py", "html5lib/filters/lint.py"]
LEVEL = "proof"
TRUSTED = ["hand model H5.Model.Walker of NonRecursiveTreeWalker.__iter__ / TreeWalker.text over a zipper cursor, tied by op walk",
           "the per-backend cursor code (treewalkers/dom.py node pointers; treewalkers/etree.py (element, key, parents, flag) "
           "tuples) is modelled by abstraction to the zipper and tied by correspondence on real minidom/ElementTree objects",
           "direct traversal of minidom / ElementTree (tools/h5/trees.py) as the reading of 'the tree'"]
RULE = ("walk: trees parsed from seeded soup by both builders (whole document, root element, fragment) + every hand-made "
        "ElementTree/minidom tree with <= 4 nodes over {element, void element, foreign element, text, empty text, comment} "
        "(exhaustive in thorough); non-trivial = tree has >= 3 nodes; distinct by encoded tree")

LINT_OK_CLASSES = ()


def real_walk(tree, kind):
    import html5lib
    return list(html5lib.getTreeWalker(kind)(tree))


def lint_ok(tokens):
    from html5lib.filters import lint
    try:
        list(lint.Filter(tokens))
        return None
    except AssertionError as e:
        return str(e) or "assertion"
    except Exception as e:
        return "%s: %s" % (type(e).__name__, e)


def rebuild(tokens):
    """stack machine: tokens -> abstract tree (adjacent text merged)"""
    root = ("frag", [])
    stack = [root]

    def add(n):
        kids = stack[-1][1] if stack[-1][0] in ("frag", "doc") else stack[-1][4]
        if n[0] == "text" and kids and kids[-1][0] == "text":
            kids[-1] = ("text", kids[-1][1] + n[1])
        else:
            kids.append(n)
    for t in tokens:
        ty = t["type"]
        if ty in ("StartTag", "EmptyTag"):
            n = ("elem", t["namespace"], t["name"], [(k[0], k[1], v) for k, v in t["data"].items()], [])
            add(n)
            if ty == "StartTag":
                stack.append(n)
        elif ty == "EndTag":
            top = stack.pop()
            if (top[1], top[2]) != (t["namespace"], t["name"]):
                return None
        elif ty in ("Characters", "SpaceCharacters"):
            add(("text", t["data"]))
        elif ty == "Comment":
            add(("comment", t["data"]))
        elif ty == "Doctype":
            add(("doctype", t["name"], t["publicId"], t["systemId"]))
        else:
            return None
    return root if len(stack) == 1 else None


def check_stream(ctx, tokens, abstract, kind, src):
    err = lint_ok([wire.copy_tok(t) for t in tokens])
    if err:
        ctx.fail("lint-rejects:%s" % err[:40], "lint.Filter rejects the walker's stream", {"source": src, "tree": repr(abstract)[:600]})
    rb = rebuild(tokens)
    exp = trees.merge_text(abstract)
    exp_kids = exp[1] if exp[0] in ("doc", "frag") else [exp]
    if rb is None or rb[1] != exp_kids:
        ctx.fail("rebuild-differs", "rebuilding a tree from the walker's stream does not give back the walked tree",
                 {"source": src, "tree": repr(abstract)[:600], "rebuilt": repr(rb)[:600]})
    for t in tokens:
        if t["type"] == "SpaceCharacters" and t["data"].strip(" \t\n\x0c\r") != "":
            ctx.fail("space-token-with-non-space", "SpaceCharacters token contains non-space", {"token": repr(t)})
        if t["type"] == "Characters" and (t["data"][:1] in " \t\n\x0c\r" or t["data"][-1:] in " \t\n\x0c\r"):
            ctx.fail("chars-token-edge-space", "Characters token starts/ends with whitespace", {"token": repr(t)})


def one(ctx, real_tree, kind, abstract, reqs, reals, src):
    req = "walk " + trees.enc_tree(abstract)
    try:
        toks = real_walk(real_tree, kind)
        real = "ok " + wire.enc_toks(toks)
        if src != "handmade":
            check_stream(ctx, toks, abstract, kind, src)
    except Exception as e:
        real = wire.exc_tag(e)
        toks = None
        if src != "handmade":
            ctx.fail("walker-raises:%s" % type(e).__name__, "tree walker raised on a parsed tree", {"source": src, "tree": repr(abstract)[:600]})
    reqs.append(req)
    reals.append(real)
    ctx.case("walk", req, nontrivial=trees.size(abstract) >= 3, sample=req if len(req) < 300 else None)
    ctx.count(kind + ":" + src)
    return toks


def handmade_etree(shape):
    """shape: list of node kinds under a root element; returns (element, abstract)"""
    root = ET.Element("{http://www.w3.org/1999/xhtml}div")
    cur = root
    for kind in shape:
        if kind == "text":
            if len(cur):
                cur[-1].tail = (cur[-1].tail or "") + " x "
            else:
                cur.text = (cur.text or "") + "a b"
        elif kind == "empty":
            if len(cur):
                cur[-1].tail = ""
            else:
                cur.text = ""
        elif kind == "comment":
            cur.append(ET.Comment("c"))
        elif kind == "down":
            if len(cur) and isinstance(cur[-1].tag, str):
                cur = cur[-1]
        else:
            tag = {"el": "{http://www.w3.org/1999/xhtml}p", "void": "{http://www.w3.org/1999/xhtml}br",
                   "svg": "{http://www.w3.org/2000/svg}br", "nons": "hr"}[kind]
            ET.SubElement(cur, tag, {"a": "1"} if kind == "el" else {})
    return root


def handmade_dom(shape):
    doc = xml.dom.minidom.Document()
    root = doc.createElementNS("http://www.w3.org/1999/xhtml", "div")
    doc.appendChild(root)
    cur = root
    for kind in shape:
        if kind == "text":
            cur.appendChild(doc.createTextNode(" x y "))
        elif kind == "empty":
            cur.appendChild(doc.createTextNode(""))
        elif kind == "comment":
            cur.appendChild(doc.createComment("c"))
        elif kind == "down":
            if cur.lastChild is not None and cur.lastChild.nodeType == 1:
                cur = cur.lastChild
        else:
            ns, tag = {"el": ("http://www.w3.org/1999/xhtml", "p"), "void": ("http://www.w3.org/1999/xhtml", "br"),
                       "svg": ("http://www.w3.org/2000/svg", "br"), "nons": (None, "hr")}[kind]
            e = doc.createElementNS(ns, tag)
            if kind == "el":
                e.setAttribute("a", "1")
            cur.appendChild(e)
    return doc


def run(ctx):
    reqs, reals = [], []
    frags = [None, None, "div", "table", "select", "svg"]
    for i in range(ctx.scale(600, 20000)):
        text = gen.soup(ctx.rng)
        frag = ctx.rng.choice(frags)
        streams, abstracts = {}, {}
        nshtml = i % 4 != 3         # a quarter of the trees: namespaceHTMLElements=False (HTML elements carry no namespace)
        for kind in ("etree", "dom"):
            try:
                tree = gen.parse_real(text, tb=kind, fragment=frag, full=True, ns=nshtml)
            except Exception:
                continue
            if kind == "etree":
                abstract = trees.from_etree(tree)
                toks = one(ctx, tree, kind, abstract, reqs, reals, "parsed")
                # also walk from the root element
                if frag is None and i % 3 == 0:
                    root = [c for c in (tree.getroot() if hasattr(tree, "getroot") else tree) if isinstance(c.tag, str) and c.tag != "<!DOCTYPE>"]
                    if root:
                        one(ctx, root[0], kind, trees.from_etree(root[0]), reqs, reals, "parsed-root")
            else:
                abstract = trees.from_dom(tree)
                toks = one(ctx, tree, kind, abstract, reqs, reals, "parsed")
                if frag is None and i % 3 == 0 and tree.documentElement is not None:
                    one(ctx, tree.documentElement, kind, trees.from_dom(tree.documentElement), reqs, reals, "parsed-root")
                # walk from inner nodes that have following siblings (the walk must stop at its start node)
                inner = [n for n in tree.getElementsByTagName("*") if n.nextSibling is not None][:40] if hasattr(tree, "getElementsByTagName") else []
                if inner and i % 2 == 0:
                    n = ctx.rng.choice(inner)
                    one(ctx, n, kind, trees.from_dom(n), reqs, reals, "parsed-inner")
            streams[kind] = toks
            abstracts[kind] = trees.merge_text(abstract)

        def coalesce(toks):
            out = []
            for t in toks:
                if t["type"] in ("Characters", "SpaceCharacters"):
                    if out and out[-1][0] == "T":
                        out[-1] = ("T", out[-1][1] + t["data"])
                    else:
                        out.append(("T", t["data"]))
                else:
                    d = dict(t)
                    if "data" in d and isinstance(d["data"], dict):
                        d["data"] = sorted(d["data"].items(), key=repr)
                    out.append(("O", repr(sorted(d.items(), key=repr))))
            return out
        # the same tree must give the same stream whatever the back end; when the two BUILDERS already built different
        # trees (property C04, e.g. minidom's local-name attribute collision) there is nothing to compare here
        if streams.get("etree") is not None and streams.get("dom") is not None and abstracts["etree"] == abstracts["dom"]:
            ctx.count("cross-walker-compared")
            if coalesce(streams["etree"]) != coalesce(streams["dom"]):
                ctx.fail("walkers-differ", "etree and dom walkers emit different streams for the same document",
                         {"input": text, "fragment": frag})
    # documents with content after </html> / </body>, walked from the root element
    for tail in ("<!--trailer-->", "<!--a--><!--b-->", " ", "<!--x--> <p>y"):
        for body in ("<p>a</p>", "", "<table><tr><td>x</table>"):
            import html5lib
            d = html5lib.parse("<!DOCTYPE html><html><body>" + body + "</body></html>" + tail, treebuilder="dom")
            one(ctx, d.documentElement, "dom", trees.from_dom(d.documentElement), reqs, reals, "root-with-trailer")
            for n in d.getElementsByTagName("*"):
                one(ctx, n, "dom", trees.from_dom(n), reqs, reals, "root-with-trailer")
    kinds = ["el", "void", "svg", "nons", "text", "empty", "comment", "down"]
    maxn = ctx.scale(3, 5)
    shapes = [s for n in range(0, maxn + 1) for s in itertools.product(kinds, repeat=n)]
    if ctx.tier != "thorough":
        ctx.rng.shuffle(shapes)
        shapes = shapes[:1500]
    for shape in shapes:
        el = handmade_etree(shape)
        one(ctx, el, "etree", trees.from_etree(el), reqs, reals, "handmade")
        doc = handmade_dom(shape)
        one(ctx, doc, "dom", trees.from_dom(doc), reqs, reals, "handmade")
    if ctx.driver_ok:
        ctx.compare("walk", reqs, reals, lean.run_driver(reqs))


def replay(path):
    import json
    print(json.dumps(json.load(open(path)), indent=1)[:3000])
    return 0
