"""C20 — XML-name coercion yields legal names and is reversible."""
import itertools
import re
import warnings
import xml.parsers.expat

from h5 import gen, lean, wire

ID = "C20"
PROPS_MODULE = "H5.Props.C20"
EXTRA_PROPS_MODULES = ["H5.Props.C20b"]
GEN_MODULES = ["Infoset"]
CORRESPONDENCE_OPS = ["xml:toXmlName", "xml:fromXmlName", "xml:comment", "xml:pubid", "xml:chars", "xml:attr"]
SOURCES = ["html5lib/_ihatexml.py"]
LEVEL = "proof"
TRUSTED = ["hand model of InfosetFilter methods (H5.Model.Infoset), tied by ops xml:*",
           "Python re: character classes extracted exactly by evaluating the compiled patterns on every code point; "
           "findall = non-overlapping left-to-right matches; str.replace = all non-overlapping occurrences",
           "xml.parsers.expat as an independent acceptor of XML names (oracle only)"]
RULE = ("xml:toXmlName on every BMP character in first and non-first position (exhaustive in thorough; every 7th + all "
        "class boundaries in quick) + names from the tokenizer on soup; comment/pubid strings over {-,',\",space,a,--} to "
        "length 6 (quick) / 8 (thorough) x flag combinations; non-trivial = input changed by coercion; distinct by input")


def flags_word(kw):
    order = ["dropXmlnsLocalName", "dropXmlnsAttrNs", "preventDoubleDashComments", "preventDashAtCommentEnd",
             "replaceFormFeedCharacters", "preventSingleQuotePubid"]
    defaults = dict(zip(order, [False, False, False, False, True, False]))
    defaults.update(kw)
    return " ".join("1" if defaults[k] else "0" for k in order)


def expat_accepts(name):
    """expat parses <name/> as ONE empty element whose name is exactly `name`"""
    got = []
    p = xml.parsers.expat.ParserCreate()
    p.StartElementHandler = lambda n, a: got.append((n, a))
    try:
        p.Parse("<%s/>" % name, True)
    except (xml.parsers.expat.ExpatError, ValueError, UnicodeEncodeError):
        return False
    return got == [(name, {})]


PUBID_OK = re.compile(r"^[\x20\x0D\x0Aa-zA-Z0-9\-'()+,./:=?;!*#@$_%]*$")


def call(f, *a):
    try:
        return f(*a), None
    except Exception as e:
        return None, e


def run(ctx):
    warnings.simplefilter("ignore")
    from html5lib._ihatexml import InfosetFilter
    reqs, reals = [], []

    def rec(op, req, val, exc, enc=wire.enc_str, nontrivial=True, sample=None):
        reqs.append(req)
        reals.append(wire.exc_tag(exc) if exc else "ok " + enc(val))
        ctx.case(op, req, nontrivial=nontrivial, sample=sample)

    F = InfosetFilter()
    # --- names: every BMP char first / non-first
    step = 1 if ctx.tier == "thorough" else 7
    cps = set(range(0, 0x10000, step)) | {0x10000, 0x1F600, 0x10FFFF}
    import sys
    sys.path.insert(0, lean.VERIF + "/tools")
    for m in re.finditer(r"\((\d+), (\d+)\)", open(lean.LEAN + "/H5/Gen/Infoset.lean").read()):
        for b in (int(m.group(1)), int(m.group(2))):
            cps |= {max(b - 1, 0), b, b + 1}
    for cp in sorted(cps):
        if 0xD800 <= cp <= 0xDFFF or cp > 0x10FFFF:
            continue
        ch = chr(cp)
        for name in (ch, "a" + ch, ch + ch):
            out, exc = call(F.toXmlName, name)
            rec("xml:toXmlName", "xml:toXmlName " + wire.enc_str(name), out, exc, nontrivial=(out != name),
                sample="toXmlName %r -> %r" % (name, out) if out != name else None)
            if exc:
                ctx.fail("toXmlName-raises:%s" % type(exc).__name__, "toXmlName raised on a non-empty name", {"name": repr(name)})
                continue
            if cp < 0x10000:
                if not expat_accepts(out):
                    ctx.fail("coerced-name-illegal", "expat rejects the coerced name", {"name": repr(name), "coerced": repr(out)})
                if expat_accepts(name) and ":" not in name and out != name:
                    ctx.fail("legal-name-altered", "a legal colon-free name was changed", {"name": repr(name), "coerced": repr(out)})
                back, exc2 = call(F.fromXmlName, out)
                if not re.search(r"U[\dA-F]{5}", name) and back != name:
                    ctx.fail("not-reversible", "fromXmlName(toXmlName(name)) != name", {"name": repr(name), "coerced": repr(out), "back": repr(back)})
    # names built from soup-like material + escape-like patterns
    alphabet = ["a", "U", "0", "F", ":", "-", "é", " ", "U0003A", "<", "٣", "x", "̀", "·"]
    for _ in range(ctx.scale(3000, 60000)):
        name = "".join(ctx.rng.choice(alphabet) for _ in range(ctx.rng.randint(1, 6)))
        out, exc = call(F.toXmlName, name)
        rec("xml:toXmlName", "xml:toXmlName " + wire.enc_str(name), out, exc, nontrivial=(out != name))
        if exc is None:
            if not expat_accepts(out):
                ctx.fail("coerced-name-illegal", "expat rejects the coerced name", {"name": repr(name), "coerced": repr(out)})
            back, exc2 = call(F.fromXmlName, out)
            rec("xml:fromXmlName", "xml:fromXmlName " + wire.enc_str(out), back, exc2)
            if not re.search(r"U[\dA-F]{5}", name) and back != name:
                ctx.fail("not-reversible", "fromXmlName(toXmlName(name)) != name", {"name": repr(name), "coerced": repr(out), "back": repr(back)})
        back, exc2 = call(F.fromXmlName, name)
        rec("xml:fromXmlName", "xml:fromXmlName " + wire.enc_str(name), back, exc2, nontrivial=(back != name))
    out, exc = call(F.toXmlName, "")
    rec("xml:toXmlName", "xml:toXmlName -", out, exc)
    # --- comments and pubids
    L = ctx.scale(5, 7)
    sym = ["-", "'", '"', " ", "a", "\x0c", "&", "é", "²", "_", "م"]
    strings = [""]
    for n in range(1, L + 1):
        if n <= 4 or (n <= 5 and ctx.tier == "thorough"):
            strings += ["".join(t) for t in itertools.product(sym, repeat=n)]
        else:
            strings += ["".join(ctx.rng.choice(sym) for _ in range(n)) for _ in range(ctx.scale(3000, 20000))]
    strings += ["-" * n for n in range(8, 40)]
    for dd in (False, True):
        for de in (False, True):
            for sq in (False, True):
                for ff in (True, False):
                    kw = dict(preventDoubleDashComments=dd, preventDashAtCommentEnd=de, preventSingleQuotePubid=sq,
                              replaceFormFeedCharacters=ff)
                    Ff = InfosetFilter(**kw)
                    fw = flags_word(kw)
                    sub = strings if (dd or de or sq) else strings[:400]
                    for s in sub[::(1 if ctx.tier == "thorough" else 3)]:
                        out, exc = call(Ff.coerceComment, s)
                        rec("xml:comment", "xml:comment %s %s" % (fw, wire.enc_str(s)), out, exc, nontrivial=(out != s))
                        if exc is None and (dd or de):
                            if dd and "--" in out:
                                ctx.fail("comment-double-dash", "coerced comment contains '--'", {"flags": kw, "data": repr(s)})
                            if out.endswith("-"):
                                # recorded: the preventDashAtCommentEnd flag alone is never read, i.e. the data comes back
                                # UNCHANGED; a trailing dash on data that was altered is something else
                                cls = "comment-trailing-dash:preventDashAtCommentEnd-only" if (not dd and out == s) \
                                    else "comment-trailing-dash"
                                ctx.fail(cls, "coerced comment ends in '-'", {"flags": kw, "data": repr(s), "out": repr(out)})
                        out, exc = call(Ff.coercePubid, s)
                        rec("xml:pubid", "xml:pubid %s %s" % (fw, wire.enc_str(s)), out, exc, nontrivial=(out != s))
                        if exc is None:
                            if not PUBID_OK.match(out):
                                ctx.fail("pubid-illegal-char", "coerced public identifier contains a non-PubidChar", {"flags": kw, "data": repr(s), "out": repr(out)})
                            if sq and "'" in out:
                                ctx.fail("pubid-single-quote", "single quote survives preventSingleQuotePubid", {"flags": kw, "data": repr(s)})
                        out, exc = call(Ff.coerceCharacters, s)
                        rec("xml:chars", "xml:chars %s %s" % (fw, wire.enc_str(s)), out, exc, nontrivial=(out != s))
    for kw in (dict(dropXmlnsLocalName=True), dict(dropXmlnsAttrNs=True), {}):
        Ff = InfosetFilter(**kw)
        for name in ("xmlns:a", "xmlns", "a:b", "x"):
            for ns in (None, gen.XMLNS_NS, gen.XLINK_NS):
                out, exc = call(Ff.coerceAttribute, name, ns)
                rec("xml:attr", "xml:attr %s %s %s" % (flags_word(kw), wire.enc_str(name), wire.enc_ostr(ns)), out, exc, enc=wire.enc_ostr)
    if ctx.driver_ok:
        ctx.compare("xml", reqs, reals, lean.run_driver(reqs))


def witness_case(ctx, w):
    warnings.simplefilter("ignore")
    from html5lib._ihatexml import InfosetFilter
    out = InfosetFilter(**w["flags"]).coerceComment(w["data"])
    if out.endswith("-"):
        only = out == w["data"] and not w["flags"].get("preventDoubleDashComments")
        ctx.fail("comment-trailing-dash:preventDashAtCommentEnd-only" if only else "comment-trailing-dash",
                 "coerced comment ends in '-'", w)


def replay(path):
    import json
    print(json.dumps(json.load(open(path)), indent=1)[:3000])
    return 0
