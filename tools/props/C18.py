"""C18 — alphabetical-attributes filter only reorders, deterministically."""
import collections
import itertools

from h5 import gen, lean, wire

ID = "C18"
PROPS_MODULE = "H5.Props.C18"
GEN_MODULES = ["AlphabeticalAttributes"]
CORRESPONDENCE_OPS = ["alpha"]
SOURCES = ["html5lib/filters/alphabeticalattributes.py", "html5lib/serializer.py"]
LEVEL = "proof"
TRUSTED = ["hand model of alphabeticalattributes.Filter.__iter__ (H5.Model.Alphabetical), tied by op alpha",
           "Python sorted() = stable sort by key; tuple/str comparison = lexicographic on code points",
           "PyLite meaning of attr[0][0] or '' and tuple construction"]
RULE = ("alpha: all permutations of all attribute sets of size <= 4 (quick) / 5 (thorough) over namespaces "
        "{None, xlink, xml, xmlns} x local names {a, b, href, A, '\\u00e9'} (exhaustive) + seeded random token streams; "
        "non-trivial = a tag with >= 2 attributes; distinct by canonical encoding")

NS = [None, gen.XLINK_NS, gen.XML_NS, gen.XMLNS_NS, ""]   # "" = empty-string namespace (DOM setAttributeNS("", ...))
LOCAL = ["a", "b", "href", "A", "é"]


def real_filter(toks):
    from html5lib.filters.alphabeticalattributes import Filter
    return list(Filter(toks))


def spec_key(k):
    return (k[0] or "", k[1])


def oracle(ctx, inp_copy, out):
    if len(inp_copy) != len(out):
        return ctx.fail("token-count", "filter changed the number of tokens", {"tokens": repr(inp_copy)})
    for a, b in zip(inp_copy, out):
        if a["type"] in ("StartTag", "EmptyTag"):
            if dict(a["data"]) != dict(b["data"]):
                ctx.fail("attrs-changed", "attribute names/values lost, merged or altered", {"token": repr(a), "out": repr(b)})
            keys = list(b["data"].keys())
            if keys != sorted(keys, key=spec_key):
                ctx.fail("attrs-unsorted", "attributes not ordered by (namespace or '', name)", {"token": repr(a), "out": repr(b)})
            if {k: v for k, v in a.items() if k != "data"} != {k: v for k, v in b.items() if k != "data"}:
                ctx.fail("tag-changed", "tag fields other than attributes changed", {"token": repr(a), "out": repr(b)})
        elif a != b:
            ctx.fail("other-token-changed:%s" % a["type"], "non-tag token altered", {"token": repr(a), "out": repr(b)})


def run(ctx):
    keys = [(ns, nm) for ns in NS for nm in LOCAL]
    reqs, reals = [], []
    maxk = ctx.scale(3, 4)
    # exhaustive: permutations of small key sets (sub-sampled sets, all permutations of each)
    sets = []
    for k in range(0, maxk + 1):
        combos = list(itertools.combinations(keys, k))
        ctx.rng.shuffle(combos)
        sets += combos[:ctx.scale(150, 2000)]
    for ks in sets:
        outs = set()
        for perm in itertools.permutations(ks):
            tok = {"type": "StartTag", "name": "x", "namespace": None,
                   "data": {k: "v%d" % keys.index(k) for k in perm}}
            inp = [tok]
            cp = [wire.copy_tok(t) for t in inp]
            req = "alpha " + wire.enc_toks(inp)
            try:
                out = real_filter(inp)
                oracle(ctx, cp, out)
                real = "ok " + wire.enc_toks(out)
                outs.add(real)
            except Exception as e:
                real = wire.exc_tag(e)
                ctx.fail("filter-raises:%s" % type(e).__name__, "alphabeticalattributes.Filter raised", {"tokens": repr(cp)})
            reqs.append(req)
            reals.append(real)
            ctx.case("alpha", req, nontrivial=len(ks) >= 2, sample=req if len(ks) >= 2 else None)
        if len(outs) > 1:
            # recorded: the sort key maps the namespaces None and "" to the same value, so two attributes with one local name,
            # one in each of them, compare equal and keep their arrival order (the excluded point of C18_key_inj).  The class is
            # known only if that is the WHOLE difference: all outputs agree once such pairs are put into one fixed order.
            def norm(line):
                return line
            pairs = [(a, b) for a in ks for b in ks if a[0] is None and b[0] == "" and a[1] == b[1]]
            explained = False
            if pairs:
                def canon(attrs):
                    out = list(attrs)
                    for i in range(len(out) - 1):
                        (n1, l1), (n2, l2) = out[i][0], out[i + 1][0]
                        if l1 == l2 and {n1, n2} == {None, ""} and n1 == "":
                            out[i], out[i + 1] = out[i + 1], out[i]
                    return out
                seen = set()
                for pm in itertools.permutations(ks):
                    tok = {"type": "StartTag", "name": "x", "namespace": None, "data": collections.OrderedDict((k, "v%d" % ks.index(k)) for k in pm)}
                    r = real_filter([tok])[0]["data"]
                    seen.add(repr(canon(list(r.items()))))
                explained = len(seen) == 1
            ctx.fail("order-dependent:none-and-empty-namespace-same-local-name" if explained else "order-dependent",
                     "result depends on the incoming attribute order", {"keys": repr(ks)})
    # the filter as wired into the serializer (alphabetical_attributes=True): the start tag that is written carries every
    # attribute, by local name, in the filter's order (same local name in two namespaces: both are written)
    import re
    from html5lib.serializer import HTMLSerializer
    for ks in sets:
        if len(ks) < 2 or any(k[0] == "" for k in ks):
            continue
        perms = list(itertools.permutations(ks))
        for perm in ([perms[0], perms[-1]] if ctx.tier == "quick" else perms):
            tok = {"type": "StartTag", "name": "x", "namespace": None,
                   "data": collections.OrderedDict((k, "v%d" % keys.index(k)) for k in perm)}
            ser = HTMLSerializer(alphabetical_attributes=True, quote_attr_values="always", omit_optional_tags=False)
            try:
                out = ser.render([tok])
            except Exception as e:
                ctx.fail("serializer-raises:%s" % type(e).__name__, "HTMLSerializer(alphabetical_attributes=True) raised", {"token": repr(tok)})
                continue
            got = re.findall(r' ([^\s="]+)="([^"]*)"', out)
            want = [(k[1], "v%d" % keys.index(k)) for k in sorted(ks, key=spec_key)]
            ctx.case("alpha-serializer", repr(perm), nontrivial=True)
            ctx.count("alpha-serializer")
            if got != want:
                ctx.fail("serializer-start-tag-attributes-differ", "the start tag written with alphabetical_attributes=True does not carry "
                         "exactly the given attributes in (namespace or '', name) order", {"attributes": repr(list(tok["data"].items())),
                                                                                        "written": out, "expected": repr(want)})
    names = ["a", "div", "svg", "input"]
    for i in range(ctx.scale(1500, 30000)):
        toks = gen.token_stream(ctx.rng, names, maxlen=8)
        cp = [wire.copy_tok(t) for t in toks]
        req = "alpha " + wire.enc_toks(toks)
        try:
            out = real_filter(toks)
            oracle(ctx, cp, out)
            real = "ok " + wire.enc_toks(out)
        except Exception as e:
            real = wire.exc_tag(e)
            ctx.fail("filter-raises:%s" % type(e).__name__, "alphabeticalattributes.Filter raised", {"tokens": repr(cp)})
        reqs.append(req)
        reals.append(real)
        nt = any(len(t.get("data", "")) >= 2 and t["type"] in ("StartTag", "EmptyTag") for t in cp)
        ctx.case("alpha", req, nontrivial=nt)
    if ctx.driver_ok:
        ctx.compare("alpha", reqs, reals, lean.run_driver(reqs))


def replay(path):
    import json
    print(json.dumps(json.load(open(path)), indent=1)[:3000])
    return 0
