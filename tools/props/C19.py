"""C19 — SAX adapter delivers a well-nested event stream equal to the tree."""
from xml.sax.handler import ContentHandler

from h5 import gen, lean, trees, wire

ID = "C19"
PROPS_MODULE = "H5.Props.C19"
EXTRA_PROPS_MODULES = ["H5.Props.C19b"]
GEN_MODULES = ["Sax", "Constants"]
CORRESPONDENCE_OPS = ["sax"]
SOURCES = ["html5lib/treeadapters/sax.py", "html5lib/treewalkers/base.py", "html5lib/constants.py"]
LEVEL = "proof"
TRUSTED = ["hand model H5.Model.Sax of to_sax, tied by op sax with a recording ContentHandler",
           "xml.sax AttributesNSImpl: getQNameByName looks the (ns, name) key up in the qnames map",
           "C11's walker theorem (composed)"]
RULE = ("sax: token streams walked from seeded soup parses (etree and dom walkers, document and fragment) + raw random "
        "token streams incl. Entity/SerializeError tokens; non-trivial = stream contains >= 2 element tokens; distinct by stream")


class Recorder(ContentHandler):
    def __init__(self):
        self.ev = []

    def startDocument(self):
        self.ev.append("SD")

    def endDocument(self):
        self.ev.append("ED")

    def startPrefixMapping(self, prefix, uri):
        self.ev.append("SP %s %s" % (wire.enc_str(prefix), wire.enc_str(uri)))

    def endPrefixMapping(self, prefix):
        self.ev.append("EP %s" % wire.enc_str(prefix))

    def startElementNS(self, name, qname, attrs):
        items = []
        for (ns, local), value in attrs.items():
            try:
                q = attrs.getQNameByName((ns, local))
            except KeyError:
                q = None
            items.append("%s %s %s %s" % (wire.enc_ostr(ns), wire.enc_str(local), wire.enc_str(value), wire.enc_ostr(q)))
        assert qname == name[1]
        self.ev.append("SE %s %s %s" % (wire.enc_ostr(name[0]), wire.enc_str(name[1]), wire.enc_list(items)))

    def endElementNS(self, name, qname):
        self.ev.append("EE %s %s" % (wire.enc_ostr(name[0]), wire.enc_str(name[1])))

    def characters(self, data):
        self.ev.append("CH %s" % wire.enc_str(data))


def real_sax(toks):
    from html5lib.treeadapters.sax import to_sax
    r = Recorder()
    to_sax(toks, r)
    return r.ev


def rebuild(events):
    """events -> abstract forest (adjacent text merged), or None when not well nested"""
    root = []
    stack = [(None, root)]
    doc = 0
    prefixes = []
    for e in events:
        k = e.split(" ")
        if k[0] == "SD":
            doc += 1
        elif k[0] == "ED":
            doc -= 1
        elif k[0] == "SP":
            prefixes.append(k[1])
        elif k[0] == "EP":
            if k[1] not in prefixes:
                return None
            prefixes.remove(k[1])
        elif k[0] == "SE":
            kids = []
            stack[-1][1].append(("elem", k[1], k[2], " ".join(k[3:]), kids))
            stack.append(((k[1], k[2]), kids))
        elif k[0] == "EE":
            if stack[-1][0] != (k[1], k[2]):
                return None
            stack.pop()
        elif k[0] == "CH":
            kids = stack[-1][1]
            if kids and kids[-1][0] == "text":
                kids[-1] = ("text", kids[-1][1] + ("." if kids[-1][1] not in ("-", "") and k[1] != "-" else "") + (k[1] if k[1] != "-" else ""))
            else:
                kids.append(("text", k[1] if k[1] != "-" else ""))
    if len(stack) != 1 or doc != 0 or prefixes or events[:1] != ["SD"] or events[-1:] != ["ED"]:
        return None
    return root


def forest_of(abstract):
    """the same shape from the abstract tree (comments and doctype dropped, text merged)"""
    def conv(t):
        if t[0] == "elem":
            attrs = []
            from html5lib.constants import unadjustForeignAttributes as U
            for ns, n, v in t[3]:
                attrs.append("%s %s %s %s" % (wire.enc_ostr(ns), wire.enc_str(n), wire.enc_str(v), wire.enc_ostr(U.get((ns, n)))))
            return ("elem", wire.enc_ostr(t[1]), wire.enc_str(t[2]), wire.enc_list(attrs), kids(t[4]))
        return None

    def kids(ks):
        out = []
        for k in ks:
            if k[0] == "text":
                if k[1] == "":
                    continue
                e = wire.enc_str(k[1])
                if out and out[-1][0] == "text":
                    out[-1] = ("text", out[-1][1] + "." + e)
                else:
                    out.append(("text", e))
            elif k[0] == "elem":
                out.append(conv(k))
        return out
    t = trees.merge_text(abstract)
    return kids(t[1] if t[0] in ("doc", "frag") else [t])


def one(ctx, toks, reqs, reals, src, abstract=None):
    req = "sax " + wire.enc_toks(toks)
    try:
        ev = real_sax(toks)
        real = "ok " + wire.enc_list(ev)
        if abstract is not None:
            rb = rebuild(ev)
            if rb is None:
                ctx.fail("not-well-nested", "SAX events are not one well-nested document", {"source": src, "events": ev[:40]})
            elif rb != forest_of(abstract):
                ctx.fail("rebuild-differs", "tree rebuilt from SAX events differs from the source tree",
                         {"source": src, "rebuilt": repr(rb)[:500], "expected": repr(forest_of(abstract))[:500]})
    except AssertionError as e:
        real = "err AssertionError"
        if abstract is not None:
            ctx.fail("to_sax-asserts", "to_sax raised on a walked parse", {"source": src})
    except Exception as e:
        real = wire.exc_tag(e)
        ctx.fail("to_sax-raises:%s" % type(e).__name__, "to_sax raised", {"source": src, "tokens": repr(toks)[:500]})
    reqs.append(req)
    reals.append(real)
    nt = sum(1 for t in toks if t["type"] in ("StartTag", "EmptyTag")) >= 2
    ctx.case("sax", req, nontrivial=nt, sample=req if nt and len(req) < 300 else None)
    ctx.count(src)


def run(ctx):
    reqs, reals = [], []
    for i in range(ctx.scale(800, 20000)):
        text = gen.soup(ctx.rng)
        kind = "dom" if i % 2 else "etree"
        frag = ctx.rng.choice([None, None, "div", "svg", "table"])
        try:
            tree = gen.parse_real(text, tb=kind, fragment=frag, full=True, ns=(i % 4 != 3))     # a quarter without HTML namespace
            toks = gen.walk_real(tree, kind)
            abstract = trees.from_dom(tree) if kind == "dom" else trees.from_etree(tree)
        except Exception:
            continue
        one(ctx, toks, reqs, reals, "walk-" + kind, abstract)
    # the same local name in several namespaces within one document (name and namespace travel together in every event)
    shared = ["title", "a", "style", "script", "font", "image", "desc", "svg", "math", "mi", "p", "br", "table", "td", "html", "body"]
    for i in range(ctx.scale(200, 3000)):
        parts = []
        for _ in range(ctx.rng.randint(2, 5)):
            n = ctx.rng.choice(shared)
            wrap = ctx.rng.choice(["%s", "<svg>%s</svg>", "<math>%s</math>", "<svg><foreignObject>%s</foreignObject></svg>", "<math><mi>%s</mi></math>"])
            parts.append(wrap % ("<%s id=i%d>t</%s>" % (n, len(parts), n)))
        text = "<!DOCTYPE html><title>Doc</title>" + "".join(parts)
        kind = "dom" if i % 2 else "etree"
        try:
            tree = gen.parse_real(text, tb=kind, full=True, ns=(i % 4 != 3))
            toks = gen.walk_real(tree, kind)
            abstract = trees.from_dom(tree) if kind == "dom" else trees.from_etree(tree)
        except Exception:
            continue
        one(ctx, toks, reqs, reals, "shared-local-names-" + kind, abstract)
    names = ["a", "br", "svg", "p"]
    for i in range(ctx.scale(800, 20000)):
        toks = gen.token_stream(ctx.rng, names, maxlen=8)
        if ctx.rng.random() < 0.1:
            toks.insert(ctx.rng.randrange(len(toks) + 1), {"type": "SerializeError", "data": "x"})
        one(ctx, toks, reqs, reals, "G-tok")
    if ctx.driver_ok:
        ctx.compare("sax", reqs, reals, lean.run_driver(reqs))


def replay(path):
    import json
    print(json.dumps(json.load(open(path)), indent=1)[:3000])
    return 0
