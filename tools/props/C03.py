"""C03 — parsing is total: any input yields a well-formed document skeleton."""
import io
import signal
import sys

from h5 import gen, lean, trees
from props import _tree

ID = "C03"
PROPS_MODULE = "H5.Props.C03"
EXTRA_PROPS_MODULES = ["H5.Props.C03f", "H5.Props.C03e", "H5.Props.C03d", "H5.Props.C03c", "H5.Props.C03cGuards", "H5.Props.C03b", "H5.Props.C03bReprocess", "H5.Props.C03bDepth", "H5.Props.C03bLoops", "H5.Props.C03bTok"]
GEN_MODULES = ["Dispatch", "ParserLiterals", "Constants"]
CORRESPONDENCE_OPS = ["treev"]
SOURCES = ["html5lib/html5parser.py", "html5lib/treebuilders/base.py", "html5lib/treebuilders/etree.py",
           "html5lib/treebuilders/dom.py", "html5lib/_tokenizer.py", "html5lib/_inputstream.py"]
LEVEL = "translation_validation"
TRUSTED = ["H5.Model.TreeBuilder / H5.Model.Tokenizer make every Python exception site explicit (assert, index, KeyError, "
           "None attribute, recursion, fuel for every loop) and are tied to the code by correspondence, including equality "
           "of the exception class and site when the real parser raises; the invariant proof that no site is reachable is "
           "not done: totality is decided by search on the real code",
           "CPython recursion limit, minidom/ElementTree internals, termination observed with a CPU-time limit per case (ITIMER_PROF, so machine load cannot cause a timeout)"]
RULE = ("real parser on: soup/token lists/exhaustive tag sequences of the tree correspondence (both builders, fragments in "
        "every container, scripting on/off), random bytes, EOF at every offset of corpus documents, depth series "
        "n in {10,100,1000,5000(,10000 etree)} for every nestable tag class under Python's DEFAULT recursion limit; oracle: no "
        "exception, finishes within the time limit, document skeleton; non-trivial = every case")

NEST = ["div", "b", "rt", "li", "dd", "p", "option", "optgroup", "table", "tr", "td", "a", "font", "svg", "math", "select",
        "button", "ul", "span", "em", "nobr", "rp", "dt", "frameset", "template", "h1", "form", "tbody", "caption", "object"]


class Timeout(Exception):
    pass


def _alarm(*a):
    raise Timeout()


def parse_guarded(data, tb="etree", container=None, limit=8.0, **kw):
    import html5lib
    signal.signal(signal.SIGPROF, _alarm)
    signal.setitimer(signal.ITIMER_PROF, limit)
    try:
        p = html5lib.HTMLParser(tree=html5lib.getTreeBuilder(tb), namespaceHTMLElements=kw.pop("ns", True))
        if container is not None:
            return p.parseFragment(data, container=container, **kw), None
        return p.parse(data, **kw), None
    except Timeout:
        return None, "Timeout"
    except RecursionError:
        return None, "RecursionError"
    except Exception as e:
        return None, type(e).__name__
    finally:
        signal.setitimer(signal.ITIMER_PROF, 0)


def skeleton_problem(abstract):
    """None, or what is wrong with the document skeleton"""
    if abstract[0] != "doc":
        return None
    kids = abstract[1]
    roots = [k for k in kids if k[0] == "elem"]
    if any(k[0] == "text" for k in kids):
        return "text-at-document-level"
    if len(roots) != 1 or roots[0][2] != "html":
        return "not-exactly-one-html-root"
    if sum(1 for k in kids if k[0] == "doctype") > 1:
        return "more-than-one-doctype"
    el = [k for k in roots[0][4] if k[0] == "elem"]
    names = [k[2] for k in el]
    if names[:1] != ["head"] or len(names) < 2 or names[1] not in ("body", "frameset"):
        return "html-children-not-head-then-body-or-frameset:%s" % ",".join(names[:4])
    if len(names) > 2:
        return "extra-element-child-of-html:%s" % names[2]
    for k in roots[0][4]:
        if k[0] == "text" and k[1].strip(" \t\n\x0c\r") != "":
            return "non-whitespace-text-under-html"
    return None


def noframes_after_frameset(abstract):
    """the recorded deviation and nothing else: the element children of html are head, frameset and then ONLY noframes
    elements (what the 'after frameset' / 'after after frameset' insertion modes prescribe); a noframes (or anything else)
    after a body, or any other extra child, is a different failure"""
    roots = [k for k in abstract[1] if k[0] == "elem"]
    if len(roots) != 1 or roots[0][2] != "html":
        return False
    names = [k[2] for k in roots[0][4] if k[0] == "elem"]
    return len(names) > 2 and names[:2] == ["head", "frameset"] and all(n == "noframes" for n in names[2:])


def shallow(tree, tb):
    """document -> html -> children only (no recursion: trees may be tens of thousands deep)"""
    import xml.etree.ElementTree as ET
    from xml.dom import Node

    def et_node(el, deep):
        if el.tag is ET.Comment:
            return ("comment", el.text)
        if el.tag == "<!DOCTYPE>":
            return ("doctype", el.text, None, None)
        ns, name = trees.split_tag(el.tag)
        kids = []
        if deep:
            if el.text:
                kids.append(("text", el.text))
            for c in el:
                kids.append(et_node(c, False))
                if c.tail:
                    kids.append(("text", c.tail))
        return ("elem", ns, name, [], kids)

    def dom_node(n, deep):
        if n.nodeType == Node.COMMENT_NODE:
            return ("comment", n.nodeValue)
        if n.nodeType == Node.DOCUMENT_TYPE_NODE:
            return ("doctype", n.name, None, None)
        if n.nodeType == Node.TEXT_NODE:
            return ("text", n.nodeValue)
        kids = [dom_node(c, False) for c in n.childNodes] if deep else []
        return ("elem", n.namespaceURI, n.nodeName, [], kids)
    if tb == "etree":
        # default etree builder returns the root element (document-level comments/doctype are not visible)
        return ("doc", [et_node(tree, True)])
    return ("doc", [dom_node(c, True) for c in tree.childNodes])


def one(ctx, data, tb, container, src, limit=8.0, **kw):
    sys.setrecursionlimit(1000)
    arg = data
    if src == "random-bytes-stream":
        arg = io.BytesIO(data)
    tree, exc = parse_guarded(arg, tb, container, limit=limit, **kw)
    key = "%r|%s|%s|%s" % (data[:200] if not isinstance(data, bytes) else data[:200], tb, container, sorted(kw.items()))
    ctx.case("parse", key, nontrivial=True, sample={"input": repr(data[:60]), "builder": tb, "container": container})
    ctx.count(src)
    if exc:
        ctx.fail("raises:%s" % exc if exc != "Timeout" else "does-not-terminate",
                 "parse raised / did not finish", {"input": repr(data[:400]), "len": len(data), "builder": tb,
                                                  "container": container, "source": src, "kw": kw})
        return
    if container is None:
        abstract = shallow(tree, tb)
        prob = skeleton_problem(abstract)
        if prob:
            cls = "skeleton:" + prob
            if prob == "extra-element-child-of-html:noframes" and noframes_after_frameset(abstract):
                cls = "skeleton:noframes-after-frameset"
            ctx.fail(cls, "parsed document does not have the html/head/body-or-frameset skeleton",
                     {"input": repr(data[:300]), "builder": tb, "source": src})


def witness_case(ctx, w):
    one(ctx, w["input"], w.get("builder", "etree"), None, "witness")


def run(ctx):
    thorough = ctx.tier == "thorough"
    # (1) exception-site correspondence with the model (same runs as C01, smaller)
    T, recs, hits = _tree.run(ctx, 100000 if thorough else 5000, modes=("soup", "tokens"))
    for r in recs:
        ctx.case("treev", repr(r["case"]), nontrivial=True)
        for b in ("dom", "etree"):
            if b in r and r[b].startswith("err ") and r["case"][1] != "" and isinstance(r["case"][0], str):
                ctx.fail("raises:%s" % r[b][4:].split(":")[0], "the real parser raised",
                         {"case": T.describe(r["case"]), "builder": b, "exception": r[b]})
        if "model" in r and not T.same_response(r["dom"], r["model"], dom=True):
            ctx.disagree("treev", r["req"], r["dom"], r["model"])
    # (2) direct oracle under the default recursion limit
    conts = [None, None, None, "div", "table", "select", "svg", "textarea", "title", "script", "tr", "html", "frameset",
             "math", "template", "plaintext", "colgroup", "caption", "option", "annotation-xml", "FOO", "td"]
    for i in range(ctx.scale(1500, 40000)):
        text = gen.soup(ctx.rng, maxparts=14)
        one(ctx, text, "dom" if i % 2 else "etree", ctx.rng.choice(conts), "soup", scripting=ctx.rng.random() < 0.3,
            ns=ctx.rng.random() < 0.8)
    for i in range(ctx.scale(400, 8000)):
        data = bytes(ctx.rng.randrange(256) for _ in range(ctx.rng.randint(0, 60)))
        one(ctx, data, "etree", None, "random-bytes")
        if i % 4 == 0:
            one(ctx, data, "dom", None, "random-bytes-stream")
    # skeleton stress: an end tag of a structural element met inside every kind of open context, followed by content
    pres = ["", "<svg>", "<math>", "<svg><g>", "<math><mi>", "<svg><foreignObject>", "<svg><title>", "<math><annotation-xml encoding=text/html>",
            "<table>", "<table><tr><td>", "<table><caption>", "<select>", "<table><tr><td><select>", "<frameset>", "<head>", "<head><noscript>",
            "<template>", "<p><b>", "<button><object>", "<body class=a><svg><g>", "<!DOCTYPE html>a<math><mi>", "<textarea>", "<ruby><rt>"]
    ends = ["body", "html", "head", "p", "br", "form", "template", "frameset", "table", "select", "svg", "math", "title", "td",
            "caption", "noscript", "g", "mi", "foreignObject", "object", "button", "a", "b", "div", "sarcasm"]
    tails = ["x", "<p>after", "<!--c-->y", " ", "<frameset>", "<head>z"]
    k = 0
    for pre in pres:
        for e in ends:
            for tail in tails:
                k += 1
                one(ctx, pre + "</" + e + ">" + tail, "dom" if k % 2 else "etree", None, "skeleton-stress", scripting=(k % 5 == 0))
    # characters that are white space for Unicode but not for HTML (and references to them), where white space is kept
    # directly under html / the document: after </head>, after </frameset>, after </html>, before <html>
    odd_ws = ["&nbsp;", "&#xA0;", "&emsp;", "&#x2003;", "&#11;", "&#x85;", "&#x1c;", "\u00a0", "\u2003", "\x0b", "\u3000", "&thinsp;", "&#x2028;"]
    spots = ["<!DOCTYPE html><html><head><title>t</title></head>%s<body><p>x</p></body></html>", "<head></head>%s<p>x", "<html><head></head>%s",
             "<frameset><frame></frameset>%s", "<frameset></frameset></html>%s", "%s<html><head>", "<!DOCTYPE html>%s", "</body>%s", "</html>%s<p>",
             "<head>%s</head>", "<html>%s<head>", "<table>%s<tr>", "<select>%s</select>", "<colgroup>%s<col>"]
    k = 0
    for w_ in odd_ws:
        for sp in spots:
            k += 1
            one(ctx, sp % w_, "dom" if k % 2 else "etree", None, "odd-whitespace", scripting=(k % 3 == 0))
    docs = ["<!DOCTYPE html><table><tr><td><b><p>x</b></p><select><option>a</select></table><svg><foreignObject><p>y</svg>",
            "<frameset><frame></frameset><noframes>x</noframes><!-- c -->", "<a><table><a>x</table></a><b><i></b></i>"]
    for d in docs:
        for k in range(len(d) + 1):
            one(ctx, d[:k], "etree", None, "eof-prefix")
    # deep nesting is quadratic in html5lib (scope tests walk the stack; minidom is ~4x slower than etree: 5000 levels take
    # ~2 s / ~8 s of CPU), so the CPU-time limit grows quadratically with the depth: slowness is not non-termination
    depths = [10, 100, 1000, 5000] + ([10000] if thorough else [])
    for tag in (NEST if thorough else NEST[:14] + ["template", "frameset"]):
        for n in depths:
            for tb in ("etree", "dom"):
                if n >= 5000 and tb == "dom" and not thorough:
                    continue
                if n > 5000 and tb == "dom":
                    continue
                lim = 8.0 + 8e-6 * n * n
                one(ctx, "<div>" + ("<%s>" % tag) * n + "x" + "</div>", tb, None, "depth", limit=lim)
                if n <= 1000:
                    one(ctx, ("<%s>" % tag) * n + ("</%s>" % tag) * n, tb, "div", "depth")


def replay(path):
    import json
    print(json.dumps(json.load(open(path)), indent=1)[:3000])
    return 0
