"""C15 — encoded serializations declare their encoding and decode to the same tree."""
from h5 import gen, lean, trees, wire

ID = "C15"
PROPS_MODULE = "H5.Props.C15"
EXTRA_PROPS_MODULES = ["H5.Props.C15b"]
GEN_MODULES = []
CORRESPONDENCE_OPS = ["inject"]
SOURCES = ["html5lib/filters/inject_meta_charset.py", "html5lib/serializer.py", "html5lib/_inputstream.py",
           "html5lib/html5parser.py"]
LEVEL = "proof"
TRUSTED = ["hand model H5.Model.InjectMeta of inject_meta_charset.Filter.__iter__, tied by op inject",
           "str.lower() compared only with ASCII words containing no k/i: ASCII lower-casing is exact",
           "the byte-level round trip (Python codecs, prescan, late-meta restart) is decided on the real code only"]
RULE = ("inject: token streams walked from parsed documents with generated heads (0/1/many metas at any position, "
        "http-equiv forms, namespaced/mixed-case attribute names) + raw random streams with head/meta tags in any order; "
        "non-trivial = stream has a head or meta tag; round trip: same documents x output encodings x omit_optional_tags")

HEAD_BITS = ["<meta charset=x>", "<meta http-equiv=Content-Type content='text/html; charset=y'>", "<meta name=a content=b>",
             "<meta CHARSET=q>", "<meta http-equiv=content-type>", "<title>t&eacute;</title>", "<link rel=a>", "<!-- c -->",
             "<meta content=c http-equiv=CONTENT-TYPE>", "<script>x</script>", "<base href=/>", "<meta charset=a charset2=b>"]
ENCODINGS = ["utf-8", "ascii", "windows-1252", "iso-8859-2", "koi8-r", "shift_jis", "gbk", "big5", "euc-kr", "utf-16", "latin-1"]
BODY_BITS = ["<p>héllo wörld</p>", "<div title='€'>x</div>", "\U0001F600", "<b>Ж</b>", "plain", "<i>中文</i>",
             "<a href='?a=1&amp;b=2'>l</a>", "\u0085", "<br>"]


def real_inject(toks, enc):
    from html5lib.filters.inject_meta_charset import Filter
    return list(Filter(toks, enc))


def one(ctx, toks, enc, reqs, reals, src):
    req = "inject %s %s" % (wire.enc_str(enc), wire.enc_toks(toks))
    try:
        out = real_inject([wire.copy_tok(t) for t in toks], enc)
        real = "ok " + wire.enc_toks(out)
    except Exception as e:
        real = wire.exc_tag(e)
        ctx.fail("inject-raises:%s" % type(e).__name__, "inject_meta_charset.Filter raised", {"tokens": repr(toks)[:600]})
    reqs.append(req)
    reals.append(real)
    nt = any(t["type"] in ("StartTag", "EmptyTag", "EndTag") and t["name"].lower() in ("head", "meta") for t in toks)
    ctx.case("inject", req, nontrivial=nt, sample=req if nt and len(req) < 400 else None)
    ctx.count(src)


def doc(rng):
    head = "".join(rng.choice(HEAD_BITS) for _ in range(rng.choice([0, 0, 1, 1, 2, 3])))
    body = "".join(rng.choice(BODY_BITS) for _ in range(rng.randint(0, 4)))
    pad = ("<!--" + "p" * rng.choice([0, 0, 0, 1100]) + "-->") if rng.random() < 0.2 else ""
    return rng.choice(["<!DOCTYPE html>", ""]) + "<html><head>" + pad + head + "</head><body>" + body + "</body></html>"


def declared_ok(tree_abs, enc):
    """the head contains a meta that declares enc"""
    def find(t, name):
        if t[0] in ("doc", "frag"):
            kids = t[1]
        elif t[0] == "elem":
            if t[2] == name:
                return t
            kids = t[4]
        else:
            return None
        for k in kids:
            r = find(k, name)
            if r:
                return r
        return None
    head = find(tree_abs, "head")
    if not head:
        return False
    for k in head[4]:
        if k[0] == "elem" and k[2] == "meta":
            a = {n: v for ns, n, v in k[3]}
            if a.get("charset", "").lower() == enc.lower():
                return True
            if a.get("http-equiv", "").lower() == "content-type" and ("charset=%s" % enc).lower() in a.get("content", "").lower():
                return True
    return False


C1 = {0x80: 0x20AC, 0x82: 0x201A, 0x83: 0x0192, 0x84: 0x201E, 0x85: 0x2026, 0x86: 0x2020, 0x87: 0x2021, 0x88: 0x02C6,
      0x89: 0x2030, 0x8A: 0x0160, 0x8B: 0x2039, 0x8C: 0x0152, 0x8E: 0x017D, 0x91: 0x2018, 0x92: 0x2019, 0x93: 0x201C,
      0x94: 0x201D, 0x95: 0x2022, 0x96: 0x2013, 0x97: 0x2014, 0x98: 0x02DC, 0x99: 0x2122, 0x9A: 0x0161, 0x9B: 0x203A,
      0x9C: 0x0153, 0x9E: 0x017E, 0x9F: 0x0178}
_C1_TABLE = {k: chr(v) for k, v in C1.items()}


def c1_remap(t):
    """the tree with every U+0080..U+009F of the numeric-reference replacement table mapped (text and attribute values):
    what the reader makes of an unencodable C1 control written as '&#x85;' (recorded defect C14-c1-fallback)"""
    if t[0] in ("doc", "frag"):
        return (t[0], [c1_remap(k) for k in t[1]])
    if t[0] == "elem":
        return ("elem", t[1], t[2], [(ns, n, v.translate(_C1_TABLE)) for ns, n, v in t[3]], [c1_remap(k) for k in t[4]])
    if t[0] in ("text", "comment"):
        return (t[0], t[1].translate(_C1_TABLE) if t[0] == "text" else t[1])
    return t


def lossy_encode(t, enc):
    """the tree with every character that Python's codec `enc` ENCODES WITHOUT ERROR to bytes that decode to another
    character replaced by that character (shift_jis: U+00A5 -> 0x5C -> '\\', U+203E -> 0x7E -> '~'; recorded defect
    C15-lossy-encode: no error, hence no character reference)"""
    def m(x):
        out = []
        for c in x:
            try:
                out.append(c.encode(enc).decode(enc))
            except UnicodeError:
                out.append(c)
        return "".join(out)
    if t[0] in ("doc", "frag"):
        return (t[0], [lossy_encode(k, enc) for k in t[1]])
    if t[0] == "elem":
        return ("elem", t[1], t[2], [(ns, n, m(v)) for ns, n, v in t[3]], [lossy_encode(k, enc) for k in t[4]])
    if t[0] == "text":
        return ("text", m(t[1]))
    return t


def python_codec_reads_back(data, enc, expected):
    """the codec mismatch and nothing else: decoded with PYTHON's codec of that name (the one the serializer encoded
    with) the bytes parse to exactly the expected tree, so only the reader's choice of another codec for the label
    makes the trees differ"""
    import html5lib
    try:
        t = html5lib.parse(data.decode(enc), treebuilder="etree")
    except Exception:
        return False
    return trees.merge_text(trees.from_etree(t)) == expected


def bom_per_fragment_explains(data, enc, want, expected):
    """the recorded UTF-16 defect and nothing else: the output carries a byte order mark in front of EVERY fragment;
    with all but the first removed it is read back with the declared encoding, declares it, and gives the expected tree"""
    import codecs
    import html5lib
    bom = next((b for b in (codecs.BOM_UTF32_LE, codecs.BOM_UTF32_BE, codecs.BOM_UTF16_LE, codecs.BOM_UTF16_BE)
                if data.startswith(b)), None)
    if bom is None:
        return False
    n = len(bom)
    units = [data[i:i + n] for i in range(0, len(data), n)]
    if units.count(bom) < 2:
        return False
    fixed = bom + b"".join(u for u in units if u != bom)
    p = html5lib.HTMLParser(tree=html5lib.getTreeBuilder("etree"))
    try:
        a = trees.merge_text(trees.from_etree(p.parse(fixed)))
    except Exception:
        return False
    return p.documentEncoding == want.name and declared_ok(a, enc) and a == expected


def roundtrip(ctx, text, enc, omit):
    import html5lib
    from html5lib.serializer import HTMLSerializer
    tree = gen.parse_real(text, tb="etree")
    walker = html5lib.getTreeWalker("etree")
    s = HTMLSerializer(omit_optional_tags=omit)
    try:
        plain = s.render(walker(tree))
        data = s.render(walker(tree), enc)
    except (UnicodeEncodeError, LookupError) as e:
        ctx.count("encode-error:%s" % type(e).__name__)
        return
    ctx.case("roundtrip", "%s|%s|%s" % (enc, omit, text), sample={"encoding": enc, "bytes": repr(data[:80])})
    p = html5lib.HTMLParser(tree=html5lib.getTreeBuilder("etree"))
    try:
        t2 = p.parse(data)
    except Exception as e:
        ctx.fail("reparse-raises:%s" % type(e).__name__, "parsing the encoded serialization raised", {"input": text, "encoding": enc})
        return
    used = p.documentEncoding          # a webencodings name string
    class _U(object):
        def __init__(self, n):
            self.name = n
    used = _U(used) if used is not None else None
    a2 = trees.merge_text(trees.from_etree(t2))
    # expected: tree of the unencoded serialization, with the meta declaration (re-)written
    plain_with_meta = HTMLSerializer(omit_optional_tags=omit).render(
        __import__("html5lib").filters.inject_meta_charset.Filter(walker(tree), enc)) if False else None
    import codecs
    import webencodings
    want = webencodings.lookup(enc)
    if want is None:
        ctx.count("label-unknown-to-reader:%s" % enc)
        return
    if enc.lower().replace("_", "-") in ("utf-16", "utf-16le", "utf-16be", "utf-32"):
        # known: str.encode("utf-16") writes a BOM per fragment and a UTF-16 <meta> means UTF-8 to the reader
        if used is None or used.name != want.name or not declared_ok(a2, enc):
            expected = trees.merge_text(trees.from_etree(html5lib.parse(
                s.render(html5lib.filters.inject_meta_charset.Filter(walker(tree), enc)), treebuilder="etree")))
            cls = "utf16-output" if bom_per_fragment_explains(data, enc, want, expected) else "utf16-output:other-cause"
            ctx.fail(cls, "UTF-16/32 output is not read back as such (BOM per fragment; a UTF-16 meta means UTF-8)",
                     {"input": text, "encoding": enc, "used": getattr(used, "name", None)})
        return
    mismatch = codecs.lookup(enc).name != want.codec_info.name
    if not declared_ok(a2, enc):
        ctx.fail("no-declaration:%s" % enc, "re-parsed tree has no meta declaring the output encoding in head", {"input": text, "encoding": enc})
        return
    if used is None or used.name != want.name:
        ctx.fail("decoded-with-other-encoding:%s" % enc, "bytes were decoded with another encoding than declared",
                 {"input": text, "encoding": enc, "used": getattr(used, "name", None)})
        return
    t1 = html5lib.parse(s.render(html5lib.filters.inject_meta_charset.Filter(walker(tree), enc)), treebuilder="etree")
    a1 = trees.merge_text(trees.from_etree(t1))
    if a1 != a2:
        # a recorded class only when the recorded defect explains the WHOLE difference between the two trees
        c1_ref = any(("&#x%x;" % c).encode("ascii") in data for c in C1)
        lossy = lossy_encode(a1, enc)          # the tree after the codec's own non-injective encoding (shift_jis: U+00A5, U+203E)
        if c1_ref and c1_remap(a1) == a2:
            cls = "c1-control-in-text"                       # exactly the C1 controls, written as references, changed
        elif mismatch and python_codec_reads_back(data, enc, a1):
            cls = "codec-mismatch-python-vs-encoding-standard"
        elif mismatch and c1_ref and python_codec_reads_back(data, enc, c1_remap(a1)):
            cls = "codec-mismatch-python-vs-encoding-standard"   # both recorded defects together, and nothing else
        elif lossy != a1 and (a2 in (lossy, c1_remap(lossy)) or
                              (mismatch and (python_codec_reads_back(data, enc, lossy) or python_codec_reads_back(data, enc, c1_remap(lossy))))):
            cls = "codec-encodes-character-as-another-without-error"
        else:
            cls = "tree-differs:%s" % enc
        ctx.fail(cls, "tree of the decoded bytes differs from the tree of the unencoded serialization", {"input": text, "encoding": enc, "omit": omit})


def witness_case(ctx, w):
    roundtrip(ctx, w["input"], w["encoding"], w.get("omit", False))


def run(ctx):
    import html5lib.filters.inject_meta_charset
    reqs, reals = [], []
    for i in range(ctx.scale(1200, 30000)):
        text = doc(ctx.rng)
        kind = "dom" if i % 4 == 0 else "etree"
        try:
            toks = gen.walk_real(gen.parse_real(text, tb=kind, full=True), kind)
        except Exception:
            continue
        one(ctx, toks, ctx.rng.choice(ENCODINGS), reqs, reals, "walk-doc")
    names = ["head", "meta", "HEAD", "Meta", "title", "body", "html", "p"]
    for i in range(ctx.scale(1500, 30000)):
        toks = gen.token_stream(ctx.rng, names, maxlen=9)
        for t in toks:
            if t["type"] in ("StartTag", "EmptyTag") and ctx.rng.random() < 0.6:
                t["data"] = {}
                for _ in range(ctx.rng.randint(0, 3)):
                    ns = None if ctx.rng.random() < 0.8 else gen.XLINK_NS
                    nm = ctx.rng.choice(["charset", "CharSet", "http-equiv", "content", "name", "Content"])
                    t["data"][(ns, nm)] = ctx.rng.choice(["utf-8", "Content-Type", "content-type", "text/html; charset=a", "x"])
        one(ctx, toks, ctx.rng.choice(["utf-8", "x"]), reqs, reals, "G-tok")
    for i in range(ctx.scale(250, 6000)):
        roundtrip(ctx, doc(ctx.rng), ctx.rng.choice(ENCODINGS), ctx.rng.random() < 0.5)
    # systematic: every declaration form x position relative to the 1024-byte prescan window x encoding
    metas = ["<meta charset=x>", "<meta CHARSET=x>", "<meta http-equiv=content-type content='text/html; charset=x'>",
             "<meta http-equiv=Content-Type content='text/html; charset=x'>", "<meta HTTP-EQUIV=CONTENT-TYPE CONTENT='text/html; charset=x'>",
             "<meta content='text/html; charset=x' http-equiv=Content-Type>", "",
             "<meta content='text/html; charset=x' http-equiv=Content-Type><meta charset=x>",
             "<meta charset=x><meta content='text/html; charset=x' http-equiv=content-type>",
             "<meta name=a content=b><meta content='text/html;charset=x' http-equiv='CONTENT-TYPE' lang=en>"]
    for m in metas:
        for pad in (0, 1100):
            for enc in ("utf-8", "koi8-r", "windows-1251", "shift_jis", "iso-8859-2", "iso-2022-jp", "euc-jp", "gb18030"):
                for omit in (False, True):
                    # the old declaration names a REAL other encoding: a declaration left stale must be visible to the reader
                    mm = m.replace("charset=x", "charset=" + ("koi8-r" if enc != "koi8-r" else "windows-1251"))
                    text = ("<!DOCTYPE html><html><head><title>" + "t" * pad + "</title>" + mm +
                            "</head><body><p title='Привет'>héllo — Ж</p></body></html>")
                    roundtrip(ctx, text, enc, omit)
    # characters the output encoding cannot express become character references: every character that has a named
    # reference (with and without a legacy semicolon-less spelling) x what follows it x text / attribute value
    from html5lib.constants import entities
    legacy = sorted({v for k, v in entities.items() if not k.endswith(";") and len(v) == 1 and ord(v) > 127})
    other = sorted({v for k, v in entities.items() if len(v) == 1 and ord(v) > 127} - set(legacy))
    picks = legacy + ctx.rng.sample(other, min(len(other), ctx.scale(40, 400)))
    followers = ["b", "Z", "7", "=", ";", " ", "", "&", "#"]
    for j, ch in enumerate(picks):
        f = followers[j % len(followers)] if ctx.tier != "thorough" else None
        for fo in ([f] if f is not None else followers):
            text = ("<!DOCTYPE html><html><head><title>%s%sx</title></head><body><p title=\"a%s%sc\" id=%s%s>%s%st</p></body></html>"
                    % (ch, fo if fo != "&" else "", ch, fo.replace("&", "&amp;"), ch, fo if fo not in (" ", "", "&", "=", ";") else "q",
                       ch, fo.replace("&", "&amp;")))
            for enc in (("ascii", "koi8-r") if ctx.tier != "thorough" else ("ascii", "koi8-r", "iso-8859-7", "windows-1251", "shift_jis")):
                roundtrip(ctx, text, enc, bool(j % 2))
    if ctx.driver_ok:
        ctx.compare("inject", reqs, reals, lean.run_driver(reqs))


def replay(path):
    import json
    print(json.dumps(json.load(open(path)), indent=1)[:3000])
    return 0
