"""WHATWG clause of C01: the real parser's tree against the executable specification of the standard's
tree-construction stage (H5.Spec.TreeConstruction) through the driver op `treecmp`.  Every difference is shrunk
and classified as in tools/spec_tree_corr.py; the class is either confirmed by a NON-STANDARD switch of the
specification (treecmp-dev), or one of two tightened token tests (template / isindex: the difference disappears
when the tags are removed), or `unexplained`."""
import itertools
import os
import re
import sys
import time
from multiprocessing import Pool

from h5 import lean

sys.path.insert(0, os.path.join(lean.VERIF, "tools"))
import tree_corr as T                 # noqa: E402
import spec_tree_corr as S            # noqa: E402
import spec_tree_classes as C         # noqa: E402

WHAT = "tree differs from the WHATWG tree-construction algorithm (H5.Spec.TreeConstruction)"


def raise_label(case, real):
    """'err Class:function:line' -> label"""
    cls, fn = real[4:].split(":")[:2]
    if cls == "AssertionError" and fn == "resetInsertionMode" and case[1] == "":
        return "container-empty-string"
    if cls == "Timeout":
        return "parser-raises:non-termination"
    return "parser-raises:%s:%s" % (cls, fn)


def shrink_raise(case, label, budget=120):
    text, container, scripting, ns = case
    calls = [0]

    def test(its):
        calls[0] += 1
        if calls[0] > budget:
            return False
        c = ("".join(its), container, scripting, ns)
        _toks, real = T.run_real("dom", c)
        return real.startswith("err ") and raise_label(c, real) == label
    items = S.ddmin(S.atoms(text), test)
    return ("".join(items), container, scripting, ns)


_DTF = re.compile(r"\(dt (\S+) (\S+) (\S+)\)")


def _tree_of(resp):
    """tree part of an 'ok <tree> | ...' response with a missing DOCTYPE field written as the empty string"""
    t = resp[3:].split(" | ")[0]
    return _DTF.sub(lambda m: "(dt %s %s %s)" % tuple("-" if x == "~" else x for x in m.groups()), t)


def real_matches_model(real, model):
    if not (real.startswith("ok ") and model.startswith("ok ")):
        return real.startswith("err ") and model.startswith("err ")
    return _tree_of(real) == _tree_of(T.dom_view(model))


def analyse(case, may_shrink):
    """-> None (no difference) | dict(labels=[...]|None, case, model, spec, shrunk, skipped) | dict(untied=...)"""
    case = S.norm_case(case)
    toks, real = T.run_real("dom", case)
    resp = S.DRV.ask("treecmpv " + S.req_tail(case, toks))
    if resp.startswith("same "):
        model = resp[5:]
        resp = "same"
    elif resp.startswith("diff "):
        model = S.split_resp(resp)[0]
    else:
        model = resp
    if not real.startswith("err ") and not real_matches_model(real, model):
        # the tree of the REAL parser is not the model's: the comparison with the specification says nothing
        return {"untied": True, "case": case, "real": real, "model": model, "req": "treecmpv " + S.req_tail(case, toks)}
    if real.startswith("err "):
        label = raise_label(case, real)
        if may_shrink and not label.endswith("non-termination") and label != "container-empty-string":
            case = shrink_raise(case, label)
        return {"labels": [label], "case": case, "model": real, "spec": "(the standard's algorithm does not fail)",
                "shrunk": may_shrink}
    if resp == "same":
        return None
    if not resp.startswith("diff "):
        return {"labels": None, "case": case, "model": resp[:200], "spec": "", "shrunk": False}
    mcase, mtoks, mresp = case, toks, resp
    if may_shrink:
        c2 = S.shrink(case, budget=300)
        t2, _r2, resp2 = S.treecmp(c2)
        if resp2.startswith("diff "):
            mcase, mtoks, mresp = c2, t2, resp2
    m, s = S.split_resp(mresp)
    labels = C.strict(mcase, mtoks, m, s, S.explained_by(mcase, mtoks),
                      lambda c: S.treecmp(c)[2] == "same", single_only=not may_shrink)
    if labels is None and not may_shrink:
        return {"skipped": True}
    return {"labels": labels, "case": mcase, "model": m, "spec": s, "shrunk": may_shrink}


def work(args):
    cases, deadline = args
    import resource
    resource.setrlimit(resource.RLIMIT_AS, (6 << 30, 6 << 30))
    out = []
    for case in cases:
        r = analyse(case, time.time() < deadline)
        if r is not None:
            out.append(r)
    return len(cases), out


def report(ctx, r, known):
    """one ctx.fail per component class when every component is a known class, otherwise one combined failure"""
    text, container, scripting, _ = r["case"]
    inp = {"input": text[:600], "container": container, "scripting": scripting,
           "real": S.pretty_tree(r["model"])[:1200], "spec": S.pretty_tree(r["spec"])[:1200]}
    labels = r["labels"]
    if labels is None:
        ctx.fail("whatwg:unexplained", WHAT, inp)
        return
    classes = ["whatwg:" + x for x in labels]
    if len(classes) == 1 or all(c in known for c in classes):
        for c in classes:
            ctx.fail(c, WHAT, inp)
    else:
        ctx.fail("whatwg:" + "+".join(labels), WHAT, inp)


def known_classes():
    from h5 import framework
    return {k["class"] for k in framework.load_known().get("findings", []) if k["property"] == "C01"}


def witness_case(ctx, w):
    case = (w["input"], w.get("container"), bool(w.get("scripting")), True)
    ctx.case("treecmp", "witness:" + repr(case), nontrivial=True)
    r = analyse(case, True)
    if r is not None and r.get("untied"):
        ctx.disagree("treecmp", r["req"], r["real"], r["model"], input=T.describe(r["case"]))
    elif r is not None and not r.get("skipped"):
        report(ctx, r, known_classes())


def cases(ctx):
    from props import _tree
    thorough = ctx.tier == "thorough"
    for c in T.FIXED_CASES:
        yield c
    extra = list(S.extra_cases())
    if not thorough:
        extra = extra[:len(S.EXTRA) + 2 * len(S.EXTRA_FRAG) + 8] + ctx.rng.sample(extra, 3000)
    for c in extra:
        yield c
    targeted = _tree.targeted(ctx, T)
    if not thorough:
        targeted = ctx.rng.sample(targeted, min(len(targeted), 2500))
    for c in targeted:
        yield c
    for i in range(ctx.scale(6500, 180000)):
        yield T.gen_case("whatwg/%d" % ctx.seed, i)
    for c in T.exh_cases(3 if thorough else 2):
        yield c


def clause(ctx):
    if not ctx.driver_ok:
        return
    known = known_classes()
    deadline = time.time() + ctx.scale(30, 1500)
    jobs = os.cpu_count() or 4
    total = skipped = ndiff = 0
    s = cases(ctx)
    with Pool(jobs) as pool:
        while True:
            batch = list(itertools.islice(s, 40000))
            if not batch:
                break
            for c in batch:
                ctx.case("treecmp", repr(c), nontrivial=True)
            chunk = max(1, min(400, len(batch) // (jobs * 4)))
            parts = [(batch[i:i + chunk], deadline) for i in range(0, len(batch), chunk)]
            for n, out in pool.imap_unordered(work, parts):
                total += n
                for r in out:
                    if r.get("untied"):
                        ctx.disagree("treecmp", r["req"], r["real"], r["model"], input=T.describe(r["case"]))
                        continue
                    if r.get("skipped"):
                        skipped += 1
                        continue
                    ndiff += 1
                    if not r["shrunk"]:
                        ctx.count("whatwg:classified-unshrunk")
                    for lab in (r["labels"] or ["unexplained"]):
                        ctx.count("whatwg:" + lab)
                    report(ctx, r, known)
    ctx.count("whatwg:cases", total)
    ctx.count("whatwg:differences", ndiff)
    ctx.count("whatwg:unshrunk-skipped(no single switch explains; budget exhausted)", skipped)
    ctx.notes.append("WHATWG clause: %d cases, %d differences classified, %d skipped un-shrunk" % (total, ndiff, skipped))
